"""Decision tables of small dispatch functions, computed path-sensitively over a finite set of boolean atoms.

Many conversion helpers are a few tests on their arguments followed by one of a handful of results
(`if isinstance(x, CUQIarray) and x.geometry == g: x = x.funvals  elif is_par: x = g.par2fun(x)  return x`). Whether such a function is
written with elif chains, early returns, a result variable or re-binding of its parameter does not matter: for every valuation of the
atoms (the distinct tests, after negation normal form) the function takes exactly one path, and the value it returns on that path -
with the locals replaced by what they were bound to on that path - is a closed expression of the parameters. The table
valuation -> returned expression is what the rules compare with the documented behaviour.

This is abstract interpretation over a finite boolean domain plus forward substitution along one straight-line path; nothing is executed and
no solver is involved. Functions with loops on the path, or tests outside the given atoms, are reported as not decidable (None)."""
from __future__ import annotations
import ast
import itertools
from typing import Callable, Dict, List, Optional, Sequence, Tuple

from .cfg import CFG, path_of
from .canon import clone


class _Sub(ast.NodeTransformer):
    def __init__(self, env):
        self.env = env

    def visit_Name(self, n):
        if isinstance(n.ctx, ast.Load) and n.id in self.env:
            return clone(self.env[n.id])
        return n

    def visit_Lambda(self, n):
        return n


def _eval_bool(e, valuation, norm):
    """three-valued truth of a boolean combination of atoms under the valuation (None: undecided)"""
    if isinstance(e, ast.Constant):
        return bool(e.value)
    k = norm(e)
    if k in valuation:
        return valuation[k]
    if isinstance(e, ast.UnaryOp) and isinstance(e.op, ast.Not):
        v = _eval_bool(e.operand, valuation, norm)
        return None if v is None else (not v)
    if isinstance(e, ast.BoolOp):
        vals = [_eval_bool(v, valuation, norm) for v in e.values]
        if isinstance(e.op, ast.And):
            if any(v is False for v in vals):
                return False
            return True if all(v is True for v in vals) else None
        if any(v is True for v in vals):
            return True
        return False if all(v is False for v in vals) else None
    return None


def _strip_not(e):
    flip = False
    while isinstance(e, ast.UnaryOp) and isinstance(e.op, ast.Not):
        e, flip = e.operand, not flip
    return e, flip


def walk_stmts(stmts, valuation, norm, env=None, stop_pred=None):
    """walk a statement list (e.g. a loop body) as if it were a function body, starting from the bindings `env`"""
    f = ast.FunctionDef(name="_block", args=ast.arguments(posonlyargs=[], args=[], kwonlyargs=[], kw_defaults=[], defaults=[]),
                        body=[clone(s) for s in stmts], decorator_list=[], lineno=getattr(stmts[0], "lineno", 1), col_offset=0)
    ast.fix_missing_locations(f)
    from .canon import set_parents
    set_parents(f)
    return walk(f, valuation, norm, env=env, stop_pred=stop_pred)


def _fold_lookup(e, equalities, norm):
    """{k1: v1, ...}[K] with K known to equal a literal (equalities: text of K -> literal) is the selected value; (a, b)[0] is a"""
    class F(ast.NodeTransformer):
        def visit_Subscript(self, n):
            self.generic_visit(n)
            v, sl = n.value, n.slice
            if isinstance(v, ast.Dict) and all(isinstance(k_, ast.Constant) for k_ in v.keys if k_ is not None):
                key = sl.value if isinstance(sl, ast.Constant) else equalities.get(norm(sl), None) if equalities else None
                if key is not None:
                    for k_, x_ in zip(v.keys, v.values):
                        if k_ is not None and k_.value == key:
                            return x_
            if isinstance(v, (ast.Tuple, ast.List)) and isinstance(sl, ast.Constant) and isinstance(sl.value, int) and -len(v.elts) <= sl.value < len(v.elts):
                return v.elts[sl.value]
            return n
    return F().visit(e)


EQUALITIES: Dict[str, object] = {}       # set by callers around a walk: expression text -> literal it is known to equal on the explored case


def walk(fn, valuation: Dict[str, bool], norm: Callable[[ast.AST], str], max_steps=400, env=None, stop_pred=None, skip_loops=False):
    """follow the unique path selected by `valuation` (atom text -> truth). Returns ('return', expr) | ('raise', node) | ('fall', None) |
    ('loop', (env, node)) | ('unknown', reason)"""
    g = CFG(fn)
    env = dict(env or {})
    node = g.entry
    steps = 0
    visited = set()
    loops = []          # (bindings before the loop, the For statement) of every `for` stepped over (skip_loops)
    while steps < max_steps:
        steps += 1
        if node.id == g.exit.id:
            return ("fall", dict(env))
        if node.id in visited:
            return ("unknown", "loop on the path")
        visited.add(node.id)
        a = node.ast
        succ = g.succ[node.id]
        if stop_pred is not None and a is not None and node.kind == "stmt" and stop_pred(a):
            return ("stop", (dict(env), a))
        if node.kind == "test":
            core, flip = _strip_not(a)
            txt = norm(_Sub({}).visit(clone(core)))
            # atoms are stated on the function's parameters; a local holding such a test is expanded through env
            etxt = norm(_fold_lookup(_fold_ifexp(_Sub(env).visit(clone(core)), valuation, norm), EQUALITIES, norm))
            val = None
            if isinstance(core, ast.Constant):
                val = bool(core.value)          # `if False:` / `if 1:` need no hypothesis
            rebound = any(isinstance(n_, ast.Name) and n_.id in env for n_ in ast.walk(core))
            # an atom speaks about the function's inputs: once a name of the test has been re-bound on this path only the expanded text counts
            for k in ((etxt,) if rebound else (txt, etxt)):
                if val is None and k in valuation:
                    val = valuation[k]
                    break
            if val is None and rebound:
                val = _never_none(_Sub(env).visit(clone(core)))
            if val is None:
                # a local holding a conjunction / disjunction / negation of atoms (`ok = isinstance(x, A) and x.g == g`): decided from its parts
                val = _eval_bool(_fold_lookup(_fold_ifexp(_Sub(env).visit(clone(core)), valuation, norm), EQUALITIES, norm), valuation, norm)
            if val is None:
                return ("unknown", f"test `{etxt if rebound else txt}` is not one of the atoms")
            val = (not val) if flip else val
            nxt = [m for m, lab in succ if lab == ("T" if val else "F")]
            if len(nxt) != 1:
                return ("unknown", "test without the expected out-edge")
            node = g.nodes[nxt[0]]
            continue
        if node.kind == "return":
            v = a.value if a.value is not None else ast.Constant(value=None)
            r_ = _fold_atoms(_fold_ifexp(_Sub(env).visit(clone(v)), valuation, norm), valuation, norm)
            try:
                r_._env, r_._raw = dict(env), v        # for callers that need the attribute stores made on the returned object
                r_._loops = loops
            except Exception:
                pass
            return ("return", r_)
        if node.kind in ("raisestmt", "raise"):
            return ("raise", a)
        if node.kind == "iter":
            if not skip_loops:
                return ("loop", (dict(env), node))
            # the loop is stepped over as one opaque statement: the names it binds are no longer known (they expand to themselves)
            loops.append((dict(env), a))
            for sub in ast.walk(a):
                if isinstance(sub, ast.Name) and isinstance(sub.ctx, ast.Store):
                    env.pop(sub.id, None)
            nxt = [m for m, lab in succ if lab == "F"]
            if len(nxt) != 1:
                return ("unknown", "loop without a single exit")
            visited.discard(node.id)
            node = g.nodes[nxt[0]]
            continue
        if a is not None and node.kind == "stmt":
            if isinstance(a, ast.FunctionDef):
                env[a.name] = a            # a nested def binds its name to a callable (kept as the definition itself)
            elif isinstance(a, ast.Assign) and len(a.targets) == 1 and isinstance(a.targets[0], ast.Name):
                env[a.targets[0].id] = _fold_lookup(_fold_ifexp(_Sub(env).visit(clone(a.value)), valuation, norm), EQUALITIES, norm)
            elif isinstance(a, ast.Assign) and len(a.targets) == 1 and isinstance(a.targets[0], ast.Tuple) and isinstance(a.value, ast.Tuple) \
                    and len(a.targets[0].elts) == len(a.value.elts) \
                    and all(isinstance(t, ast.Name) or (isinstance(t, ast.Attribute) and isinstance(t.value, ast.Name)) for t in a.targets[0].elts):
                vals = [_Sub(env).visit(clone(v)) for v in a.value.elts]
                for t, v in zip(a.targets[0].elts, vals):
                    env[t.id if isinstance(t, ast.Name) else f"{t.value.id}.{t.attr}"] = v
            elif isinstance(a, ast.Assign) and len(a.targets) == 1 and isinstance(a.targets[0], ast.Tuple) and not isinstance(a.value, ast.Tuple) \
                    and all(isinstance(t, ast.Name) or (isinstance(t, ast.Attribute) and isinstance(t.value, ast.Name)) for t in a.targets[0].elts):
                # `x, y = call(...)` / `self.a, self.b = call(...)` unpacks the components of one result
                val = _fold_lookup(_Sub(env).visit(clone(a.value)), EQUALITIES, norm)
                for k_, t in enumerate(a.targets[0].elts):
                    key = t.id if isinstance(t, ast.Name) else f"{t.value.id}.{t.attr}"
                    env[key] = _fold_lookup(ast.Subscript(value=clone(val), slice=ast.Constant(value=k_), ctx=ast.Load()), EQUALITIES, norm)
            elif isinstance(a, ast.AugAssign) and isinstance(a.target, ast.Name):
                cur = env.get(a.target.id, ast.Name(id=a.target.id, ctx=ast.Load()))
                env[a.target.id] = ast.BinOp(left=clone(cur), op=a.op, right=_Sub(env).visit(clone(a.value)))
            elif isinstance(a, ast.Expr) and isinstance(a.value, ast.Call) and isinstance(a.value.func, ast.Name) and a.value.func.id == "setattr" \
                    and len(a.value.args) == 3 and isinstance(a.value.args[0], ast.Name) \
                    and isinstance(_Sub(env).visit(clone(a.value.args[1])), ast.Constant) and isinstance(_Sub(env).visit(clone(a.value.args[1])).value, str):
                # setattr(obj, "name", v) with a literal name is the attribute store obj.name = v
                env[f"{a.value.args[0].id}.{_Sub(env).visit(clone(a.value.args[1])).value}"] = _fold_ifexp(_Sub(env).visit(clone(a.value.args[2])), valuation, norm)
            elif isinstance(a, ast.Expr) and isinstance(a.value, ast.Call):
                # a call made for its effect: remembered in order (bindings applied), for rules about which procedures run on a path
                env.setdefault("<calls>", ast.List(elts=[], ctx=ast.Load())).elts.append(_Sub({k_: v_ for k_, v_ in env.items() if k_ != "<calls>"}).visit(clone(a.value)))
            elif isinstance(a, (ast.Expr, ast.Pass, ast.Assert)):
                pass
            elif isinstance(a, ast.Assign) and len(a.targets) == 1 and isinstance(a.targets[0], ast.Attribute) and isinstance(a.targets[0].value, ast.Name):
                # attribute of an object held in a local: remembered under "local.attr" (what the returned object carries)
                env[f"{a.targets[0].value.id}.{a.targets[0].attr}"] = _fold_ifexp(_Sub(env).visit(clone(a.value)), valuation, norm)
            elif isinstance(a, ast.Assign):
                pass          # other stores into attributes / subscripts do not change what the locals denote
            else:
                return ("unknown", f"statement `{type(a).__name__}` on the path")
        nxt = [m for m, lab in succ if lab != "exc"]
        if len(nxt) != 1:
            if not nxt:
                return ("fall", dict(env))
            return ("unknown", "branching without a test")
        node = g.nodes[nxt[0]]
    return ("unknown", "path too long")


def table(fn, atoms: Sequence[str], norm: Callable[[ast.AST], str], constraints: Optional[Callable[[Dict[str, bool]], bool]] = None):
    """{valuation (tuple of bools in the order of `atoms`) -> (kind, normalised text | None)} over all valuations allowed by `constraints`"""
    out = {}
    from .canon import nnf, _SymOrder
    natoms = [norm(_SymOrder().visit(nnf(ast.parse(a, mode="eval").body))) for a in atoms]
    for bits in itertools.product((True, False), repeat=len(atoms)):
        val = dict(zip(natoms, bits))
        if constraints is not None and not constraints(dict(zip(atoms, bits))):
            continue
        kind, res = walk(fn, val, norm)
        if kind == "return":
            out[bits] = (kind, norm(res))
        elif kind in ("unknown", "loop"):
            out[bits] = (kind, res)
        else:
            out[bits] = (kind, None)
    return out


def callable_text(v, norm) -> str:
    """canonical text of a callable value: a bound method `obj.meth`, or `lambda _a0, ...: expr` for a lambda / a nested def that is one expression"""
    from .canon import _single_expr, _Rename
    if isinstance(v, ast.Lambda):
        params = [a.arg for a in v.args.args]
        body = v.body
    elif isinstance(v, ast.FunctionDef):
        body = _single_expr(v)
        if body is None:
            return "<def " + v.name + ">"
        params = [a.arg for a in v.args.args]
    else:
        return norm(v)
    m = {p: f"_a{i}" for i, p in enumerate(params)}
    b = _Rename(m).visit(clone(body))
    return "lambda " + ",".join(m[p] for p in params) + ":" + norm(b)


def _fold_ifexp(e, valuation, norm):
    """`a if T else b` with T one of the atoms is the branch the valuation selects"""
    class F(ast.NodeTransformer):
        def visit_IfExp(self, n):
            self.generic_visit(n)
            core, flip = _strip_not(n.test)
            t = norm(core)
            if isinstance(core, ast.Constant):
                v = bool(core.value)
            elif t in valuation:
                v = valuation[t]
            else:
                return n
            v = (not v) if flip else v
            return n.body if v else n.orelse
    return F().visit(e)


def _fold_atoms(e, valuation, norm):
    """a sub-expression that IS one of the atoms (a flag computed as `flag = hasattr(g, 'gradient')` and passed on) has the truth value the valuation
    gives the atom"""
    if not valuation:
        return e

    class F(ast.NodeTransformer):
        def visit(self, n):
            if isinstance(n, (ast.Call, ast.Compare, ast.BoolOp, ast.UnaryOp)):
                core, flip = _strip_not(n)
                try:
                    t = norm(core)
                except Exception:
                    t = None
                if t in valuation:
                    v = valuation[t]
                    return ast.copy_location(ast.Constant(value=(not v) if flip else v), n)
            return self.generic_visit(n)
    return F().visit(e)


def walk_all(fn, valuation, norm, project=None, limit=64):
    """like walk(), but a test that is not among the atoms is explored on both out-edges; returns the set of distinct outcomes
    (kind, projected text). `project(expr)` selects the part of the returned expression the caller cares about."""
    outcomes = set()
    pending = [dict(valuation)]
    seen = 0
    while pending and seen < limit:
        val = pending.pop()
        seen += 1
        kind, res = walk(fn, val, norm)
        if kind == "unknown" and isinstance(res, str) and res.startswith("test `") and res.endswith("` is not one of the atoms"):
            t = res[len("test `"):-len("` is not one of the atoms")]
            for b in (True, False):
                v2 = dict(val)
                v2[t] = b
                pending.append(v2)
            continue
        if kind == "return":
            e = project(res) if project else res
            outcomes.add((kind, norm(e) if e is not None else None))
        elif kind == "loop":
            outcomes.add((kind, None))
        else:
            outcomes.add((kind, res if isinstance(res, str) else None))
    if pending:
        outcomes.add(("unknown", "too many undetermined tests"))
    return outcomes


def walk_paths(fn, valuation, norm, stop_pred=None, limit=64, skip_loops=False):
    """all paths compatible with `valuation` (tests it does not decide are followed both ways): list of the raw (kind, result) of walk()"""
    out = []
    pending = [dict(valuation)]
    seen = 0
    while pending and seen < limit:
        val = pending.pop()
        seen += 1
        kind, res = walk(fn, val, norm, stop_pred=stop_pred, skip_loops=skip_loops)
        if kind == "unknown" and isinstance(res, str) and res.startswith("test `") and res.endswith("` is not one of the atoms"):
            t = res[len("test `"):-len("` is not one of the atoms")]
            for b in (True, False):
                v2 = dict(val)
                v2[t] = b
                pending.append(v2)
            continue
        out.append((kind, res))
    if pending:
        out.append(("unknown", "too many undetermined tests"))
    return out


NONNULL_NAMES = set()      # global names a rule knows to denote objects (classes / functions of the analysed module)


def _never_none(e):
    """`<call or literal> is None` is False, `... is not None` is True (results of constructors / numpy calls are objects); `None is None` is True"""
    if isinstance(e, ast.Compare) and len(e.ops) == 1 and isinstance(e.ops[0], (ast.Is, ast.IsNot)) \
            and isinstance(e.comparators[0], ast.Constant) and e.comparators[0].value is None:
        if isinstance(e.left, (ast.Call, ast.List, ast.Tuple, ast.Dict, ast.BinOp, ast.ListComp, ast.DictComp, ast.Lambda)) \
                or (isinstance(e.left, ast.Name) and e.left.id in NONNULL_NAMES) \
                or (isinstance(e.left, ast.Constant) and e.left.value is not None):
            return isinstance(e.ops[0], ast.IsNot)
        if isinstance(e.left, ast.Constant) and e.left.value is None:
            return isinstance(e.ops[0], ast.Is)
    return None
