"""Capability tests such as `hasattr(domain_geometry, 'gradient')` decide whether a chain-rule factor exists.  They mean what they say only if
attribute lookup is static: a class that forwards unknown attributes (`__getattr__` / `__getattribute__`) to a wrapped object answers "yes" for a
capability of the WRAPPED object although its own map (e.g. the user map of a MappedGeometry) adds a factor it cannot supply.  Zero definitions are
expected in the scanned layers; a positive control must fire on every run."""
from __future__ import annotations
import ast

_CONTROL = '''
class W:
    def __getattr__(self, name):
        return getattr(self.geometry, name)
    def __getitem__(self, k):
        return self.geometry[k]
'''


def scan(tree):
    return [f for c in ast.walk(tree) if isinstance(c, ast.ClassDef) for f in c.body
            if isinstance(f, ast.FunctionDef) and f.name in ("__getattr__", "__getattribute__")]


def dynamic_attribute_rule(chk, repo, rule: str, prefixes) -> int:
    from .index import AnchorError
    if [f.name for f in scan(ast.parse(_CONTROL))] != ["__getattr__"]:
        raise AnchorError("dynamic-attribute positive control did not fire as expected")
    n = 0
    for rel in sorted(repo.modules):
        if not rel.startswith(tuple(prefixes)):
            continue
        m = repo.modules[rel]
        repo.consulted[rel] = m.digest
        n += 1
        found = scan(m.tree)
        if not found:
            chk.ok(rule, f"{rel}/attribute-lookup", f"{rel}:1", "no class forwards unknown attributes dynamically")
        for f in found:
            cls = next((c.name for c in ast.walk(m.tree) if isinstance(c, ast.ClassDef) and f in c.body), "?")
            chk.fail(rule, f"{rel}:{cls}.{f.name}", f"{rel}:{f.lineno}",
                     f"{cls}.{f.name} answers attribute look-ups dynamically: `hasattr(geometry, 'gradient')` (and the other capability tests the chain rule is guarded by) "
                     f"become true for a wrapper whenever the WRAPPED object has the attribute, so a factor of the chain rule (the wrapper's own map) is silently dropped "
                     f"instead of the gradient being refused", f)
    return n
