"""Def-use expansion of expressions through unique reaching definitions (provenance, D1/D3 of DESIGN.md),
signed-term decomposition and a tiny monomial domain c * s**p for coefficient comparison.

This is dataflow over reaching definitions, not symbolic execution: no path conditions are collected and
no solver is consulted; when several definitions reach a use the name is left unexpanded.
"""
from __future__ import annotations
import ast, copy
from fractions import Fraction
from typing import Dict, List, Optional, Set, Tuple

from .cfg import CFG, Node, ReachingDefs, path_of
from .astutil import flatten_add, call_name, unparse


class Expander:
    def __init__(self, fn, cfg: Optional[CFG] = None):
        self.fn = fn
        self.cfg = cfg or CFG(fn)
        self.rd = ReachingDefs(self.cfg)

    def node_for(self, astnode) -> Optional[Node]:
        return self.cfg.stmt_node_containing(astnode)

    def unique_def(self, node: Node, path: str) -> Optional[Tuple[Node, ast.expr]]:
        """(defining node, RHS expression bound to `path`) if exactly one definition reaches `node`."""
        ds = self.rd.reaching(node, path)
        if len(ds) != 1:
            return None
        d = self.cfg.nodes[next(iter(ds))]
        if d.kind == "entry":
            return None
        rhs = _rhs_for(d.ast, path)
        if rhs is None:
            return None
        return d, rhs

    def defs(self, node: Node, path: str) -> List[Tuple[Node, Optional[ast.expr]]]:
        out = []
        for d in sorted(self.rd.reaching(node, path)):
            dn = self.cfg.nodes[d]
            out.append((dn, None if dn.kind == "entry" else _rhs_for(dn.ast, path)))
        return out

    def expand(self, e: ast.expr, node: Node, depth: int = 12, stop: Set[str] = frozenset()) -> ast.expr:
        """Copy of e with local names (and self.attrs assigned earlier in this function) replaced by the RHS of
        their unique reaching definition, recursively."""
        if depth <= 0:
            return e

        exp = self

        class T(ast.NodeTransformer):
            def visit_Name(self, n):
                if not isinstance(n.ctx, ast.Load) or n.id in stop:
                    return n
                u = exp.unique_def(node, n.id)
                if u is None:
                    return n
                dn, rhs = u
                return exp.expand(rhs, dn, depth - 1, stop)

            def visit_Attribute(self, n):
                p = path_of(n)
                if p is not None and isinstance(n.ctx, ast.Load) and p not in stop:
                    u = exp.unique_def(node, p)
                    if u is not None:
                        dn, rhs = u
                        return exp.expand(rhs, dn, depth - 1, stop)
                    # no definition of the whole path in this function: a prefix (the local it hangs off) may still have one
                    return self.generic_visit(n)
                return self.generic_visit(n)

            def visit_Lambda(self, n):
                return n

        return T().visit(clone(e))

    def expand_all(self, e: ast.expr, node: Node, depth: int = 6, limit: int = 24, stop: Set[str] = frozenset()) -> List[ast.expr]:
        """every value `e` can denote at `node`: local names replaced by the RHS of EACH of their reaching definitions (one expression per combination of
        definitions, bounded by `limit`); a name one of whose reaching definitions is not an assignment of this function (a parameter, a loop target)
        stays a name.  A property established for every returned expression holds on every path."""
        import itertools
        if depth <= 0:
            return [clone(e)]
        names = []
        for n in ast.walk(e):
            if isinstance(n, ast.Name) and isinstance(n.ctx, ast.Load) and n.id not in stop and n.id not in names:
                names.append(n.id)
        choices = []
        for x in names:
            ds = self.defs(node, x)
            if not ds or any(r is None for _, r in ds):
                continue
            alts = []
            for dn, rhs in ds:
                alts += self.expand_all(rhs, dn, depth - 1, limit, stop)
            choices.append((x, alts[:limit]))
        out = []
        for combo in itertools.product(*[a for _, a in choices]):
            mp = dict(zip([x for x, _ in choices], combo))

            class T(ast.NodeTransformer):
                def visit_Name(self, n):
                    return clone(mp[n.id]) if isinstance(n.ctx, ast.Load) and n.id in mp else n
            out.append(T().visit(clone(e)))
            if len(out) >= limit:
                break
        return out

    def expand_name(self, name: str, node: Node, depth: int = 12) -> ast.expr:
        return self.expand(ast.Name(id=name, ctx=ast.Load()), node, depth)


def clone(n):
    """Structural copy of an AST that does not follow the `_parent` back pointers."""
    if isinstance(n, ast.AST):
        new = n.__class__()
        for f in n._fields:
            if hasattr(n, f):
                setattr(new, f, clone(getattr(n, f)))
        for a in ("lineno", "col_offset", "end_lineno", "end_col_offset"):
            if hasattr(n, a):
                setattr(new, a, getattr(n, a))
        return new
    if isinstance(n, list):
        return [clone(x) for x in n]
    return n


def _rhs_for(a: ast.AST, path: str) -> Optional[ast.expr]:
    if isinstance(a, ast.Assign):
        for tgt in a.targets:
            r = _match(tgt, a.value, path)
            if r is not None:
                return r
        return None
    if isinstance(a, ast.AnnAssign) and a.value is not None and path_of(a.target) == path:
        return a.value
    if isinstance(a, ast.AugAssign) and path_of(a.target) == path:
        return ast.BinOp(left=a.target.__class__(**{**{f: getattr(a.target, f) for f in a.target._fields}, "ctx": ast.Load()})
                         if hasattr(a.target, "ctx") else a.target, op=a.op, right=a.value)
    return None


def _match(tgt, value, path):
    if path_of(tgt) == path:
        return value
    if isinstance(tgt, (ast.Tuple, ast.List)):
        if isinstance(value, (ast.Tuple, ast.List)) and len(value.elts) == len(tgt.elts):
            for t, v in zip(tgt.elts, value.elts):
                r = _match(t, v, path)
                if r is not None:
                    return r
            return None
        for i, t in enumerate(tgt.elts):
            if path_of(t) == path:
                # element i of an opaque value: value[i]
                return ast.Subscript(value=value, slice=ast.Constant(value=i), ctx=ast.Load())
    return None


# ------------------------------------------------------------------------------------------ monomials
class NotMonomial(Exception):
    pass


def monomial(e: ast.expr, syms: Dict[str, str]) -> Tuple[Fraction, Dict[str, Fraction]]:
    """Evaluate e as c * prod(sym**p). `syms` maps source text of symbol expressions (e.g. 'self.scale') to names."""
    txt = unparse(e)
    if txt in syms:
        return Fraction(1), {syms[txt]: Fraction(1)}
    if isinstance(e, ast.Constant) and isinstance(e.value, (int, float)) and not isinstance(e.value, bool):
        return Fraction(e.value).limit_denominator(10**9), {}
    if isinstance(e, ast.UnaryOp) and isinstance(e.op, ast.USub):
        c, p = monomial(e.operand, syms)
        return -c, p
    if isinstance(e, ast.UnaryOp) and isinstance(e.op, ast.UAdd):
        return monomial(e.operand, syms)
    if isinstance(e, ast.BinOp):
        if isinstance(e.op, (ast.Mult,)):
            c1, p1 = monomial(e.left, syms)
            c2, p2 = monomial(e.right, syms)
            return c1 * c2, _padd(p1, p2, 1)
        if isinstance(e.op, ast.Div):
            c1, p1 = monomial(e.left, syms)
            c2, p2 = monomial(e.right, syms)
            if c2 == 0:
                raise NotMonomial(txt)
            return c1 / c2, _padd(p1, p2, -1)
        if isinstance(e.op, ast.Pow):
            c1, p1 = monomial(e.left, syms)
            c2, p2 = monomial(e.right, syms)
            if p2:
                raise NotMonomial(txt)
            if c2.denominator != 1 and c1 != 1:
                if c2 == Fraction(1, 2):
                    # sqrt of a constant: only perfect squares
                    import math
                    r = math.isqrt(c1.numerator) if c1.numerator >= 0 else -1
                    rd = math.isqrt(c1.denominator)
                    if r >= 0 and r * r == c1.numerator and rd * rd == c1.denominator:
                        return Fraction(r, rd), {k: v * c2 for k, v in p1.items()}
                raise NotMonomial(txt)
            if c2.denominator == 1:
                return c1 ** int(c2), {k: v * c2 for k, v in p1.items()}
            return Fraction(1), {k: v * c2 for k, v in p1.items()}
    if isinstance(e, ast.Call) and call_name(e) in ("np.sqrt", "math.sqrt", "sqrt") and len(e.args) == 1:
        return monomial(ast.BinOp(left=e.args[0], op=ast.Pow(), right=ast.Constant(value=0.5)), syms)
    raise NotMonomial(txt)


def _padd(p1, p2, sign):
    out = dict(p1)
    for k, v in p2.items():
        out[k] = out.get(k, Fraction(0)) + sign * v
        if out[k] == 0:
            del out[k]
    return out


def split_coefficient(term: ast.expr, syms: Dict[str, str]):
    """term = coef * rest, where coef is the maximal product of factors that are monomials in syms/constants.
    Returns ((c, powers), [rest factors as source text])."""
    factors = _mul_factors(term)
    c, p = Fraction(1), {}
    rest = []
    for sign, f in factors:
        try:
            c2, p2 = monomial(f, syms)
            if sign > 0:
                c, p = c * c2, _padd(p, p2, 1)
            else:
                c, p = c / c2, _padd(p, p2, -1)
        except (NotMonomial, ZeroDivisionError):
            rest.append(("/" if sign < 0 else "") + unparse(f))
    return (c, p), rest


def _mul_factors(e, sign=1):
    if isinstance(e, ast.BinOp) and isinstance(e.op, (ast.Mult, ast.MatMult)):
        return _mul_factors(e.left, sign) + _mul_factors(e.right, sign)
    if isinstance(e, ast.BinOp) and isinstance(e.op, ast.Div):
        return _mul_factors(e.left, sign) + _mul_factors(e.right, -sign)
    if isinstance(e, ast.UnaryOp) and isinstance(e.op, ast.USub):
        return [(1, ast.Constant(value=-1))] + _mul_factors(e.operand, sign)
    return [(sign, e)]


def signed_terms(e: ast.expr) -> List[Tuple[int, ast.expr]]:
    return flatten_add(e)
