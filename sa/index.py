"""Resolved-program index of /repo/cuqi: modules, classes, MRO, properties, imports.

Pure `ast`; nothing from the analysed repository is imported or executed.
"""
from __future__ import annotations
import ast, hashlib, os
from dataclasses import dataclass, field
from pathlib import Path
from typing import Dict, List, Optional, Tuple


class AnchorError(Exception):
    """An anchor (class, method, construct) the rule tables rely on has vanished,
    or an anchored site uses an idiom the checker does not know -> exit 2, not a verdict."""


@dataclass
class Prop:
    name: str
    getter: Optional[ast.FunctionDef] = None
    setter: Optional[ast.FunctionDef] = None          # function decorated @<name>.setter
    setter_funcname: Optional[str] = None             # the def-name the setter is bound to
    owner: Optional["ClassInfo"] = None


@dataclass
class ClassInfo:
    name: str
    module: "Module"
    node: ast.ClassDef
    base_exprs: List[ast.expr]
    bases: List[Optional["ClassInfo"]] = field(default_factory=list)   # resolved (None = external)
    methods: Dict[str, ast.FunctionDef] = field(default_factory=dict)  # plain (non-property) defs
    props: Dict[str, Prop] = field(default_factory=dict)
    class_attrs: Dict[str, ast.expr] = field(default_factory=dict)
    _mro: Optional[List["ClassInfo"]] = None

    @property
    def qual(self) -> str:
        return f"{self.module.rel}:{self.name}"

    def __hash__(self):
        return hash(self.qual)

    def __eq__(self, other):
        return isinstance(other, ClassInfo) and other.qual == self.qual

    def __repr__(self):
        return f"<class {self.qual}>"

    # ---- MRO (C3 over the repo's own classes; external bases are opaque leaves)
    def mro(self) -> List["ClassInfo"]:
        if self._mro is None:
            seqs = [b.mro()[:] for b in self.bases if b is not None]
            seqs.append([b for b in self.bases if b is not None])
            res = [self]
            while True:
                seqs = [s for s in seqs if s]
                if not seqs:
                    break
                for s in seqs:
                    cand = s[0]
                    if not any(cand in t[1:] for t in seqs):
                        break
                else:  # inconsistent hierarchy: fall back to depth-first order
                    cand = seqs[0][0]
                res.append(cand)
                for s in seqs:
                    if s and s[0] == cand:
                        del s[0]
            self._mro = res
        return self._mro

    def is_subclass_of(self, other: "ClassInfo") -> bool:
        return other in self.mro()

    def lookup(self, name: str) -> Optional[Tuple["ClassInfo", ast.FunctionDef]]:
        """First plain method `name` along the MRO."""
        for c in self.mro():
            if name in c.methods:
                return c, c.methods[name]
        return None

    def lookup_prop(self, name: str) -> Optional[Prop]:
        """Effective property of this class. A class that declares only `@Base.name.setter` inherits the getter;
        a class that re-declares `@property name` without a setter makes it read-only (Python semantics)."""
        for c in self.mro():
            if name in c.props:
                p = c.props[name]
                if p.getter is None:
                    for b in self.mro()[self.mro().index(c) + 1:]:
                        if name in b.props and b.props[name].getter is not None:
                            return Prop(name, b.props[name].getter, p.setter, p.setter_funcname, c)
                return p
            if name in c.methods or name in c.class_attrs:
                return None
        return None

    def lookup_attr(self, name: str) -> Optional[Tuple["ClassInfo", ast.expr]]:
        for c in self.mro():
            if name in c.class_attrs:
                return c, c.class_attrs[name]
        return None

    def defines(self, name: str) -> bool:
        return name in self.methods or name in self.props

    def all_functions(self):
        """(kind, name, FunctionDef) for every def in the class body."""
        for n, f in self.methods.items():
            yield "method", n, f
        for n, p in self.props.items():
            if p.getter is not None:
                yield "getter", n, p.getter
            if p.setter is not None:
                yield "setter", n, p.setter


@dataclass
class Module:
    rel: str                 # e.g. cuqi/distribution/_gaussian.py
    dotted: str              # e.g. cuqi.distribution._gaussian
    path: Path
    source: str
    tree: ast.Module
    digest: str
    classes: Dict[str, ClassInfo] = field(default_factory=dict)
    functions: Dict[str, ast.FunctionDef] = field(default_factory=dict)
    imports: Dict[str, Tuple[str, Optional[str]]] = field(default_factory=dict)  # local -> (module dotted, name|None)
    assigns: Dict[str, ast.expr] = field(default_factory=dict)

    @property
    def lines(self):
        return self.source.splitlines()


def _decorator_names(fn: ast.FunctionDef) -> List[str]:
    out = []
    for d in fn.decorator_list:
        try:
            out.append(ast.unparse(d))
        except Exception:
            out.append("?")
    return out


LAST_REPO = [None]


class Repo:
    def __init__(self, root: str = "/repo", package: str = "cuqi"):
        self.root = Path(root)
        self.package = package
        self.modules: Dict[str, Module] = {}      # by rel path
        self.by_dotted: Dict[str, Module] = {}
        self.classes: List[ClassInfo] = []
        self.consulted: Dict[str, str] = {}
        LAST_REPO[0] = self
        self._load()
        self._link()

    # ------------------------------------------------------------------ loading
    def _load(self):
        pkg = self.root / self.package
        if not pkg.is_dir():
            raise AnchorError(f"package directory {pkg} not found")
        for p in sorted(pkg.rglob("*.py")):
            rel = str(p.relative_to(self.root))
            if rel.endswith("_version.py"):
                continue
            src = p.read_text(encoding="utf-8")
            try:
                import warnings
                with warnings.catch_warnings():
                    warnings.simplefilter("ignore")
                    tree = ast.parse(src, filename=rel)
            except SyntaxError as e:
                raise AnchorError(f"{rel} does not parse: {e}")
            dotted = rel[:-3].replace(os.sep, ".")
            if dotted.endswith(".__init__"):
                dotted = dotted[: -len(".__init__")]
            m = Module(rel, dotted, p, src, tree, hashlib.sha256(src.encode()).hexdigest()[:16])
            _set_parents(tree)
            self.modules[rel] = m
            self.by_dotted[dotted] = m
            self._scan_module(m)

    def _scan_module(self, m: Module):
        is_pkg = m.rel.endswith("__init__.py")
        for node in m.tree.body:
            if isinstance(node, ast.ClassDef):
                ci = ClassInfo(node.name, m, node, list(node.bases))
                self._scan_class(ci)
                m.classes[node.name] = ci
                self.classes.append(ci)
            elif isinstance(node, (ast.FunctionDef, ast.AsyncFunctionDef)):
                m.functions[node.name] = node
            elif isinstance(node, ast.Import):
                for a in node.names:
                    local = a.asname or a.name.split(".")[0]
                    target = a.name if a.asname else a.name.split(".")[0]
                    m.imports[local] = (target, None)
            elif isinstance(node, ast.ImportFrom):
                base = node.module or ""
                if node.level:
                    parts = m.dotted.split(".")
                    if not is_pkg:
                        parts = parts[:-1]
                    if node.level > 1:
                        parts = parts[: -(node.level - 1)]
                    base = ".".join(parts + ([node.module] if node.module else []))
                for a in node.names:
                    if a.name == "*":
                        m.imports.setdefault("*", (base, None))
                        m.imports[f"*{base}"] = (base, "*")
                    else:
                        m.imports[a.asname or a.name] = (base, a.name)
            elif isinstance(node, ast.Assign) and len(node.targets) == 1 and isinstance(node.targets[0], ast.Name):
                m.assigns[node.targets[0].id] = node.value

    def _scan_class(self, ci: ClassInfo):
        for node in ci.node.body:
            if isinstance(node, (ast.FunctionDef, ast.AsyncFunctionDef)):
                decs = _decorator_names(node)
                if "property" in decs or "abstractproperty" in decs:
                    p = ci.props.setdefault(node.name, Prop(node.name, owner=ci))
                    p.getter = node
                    continue
                setter = [d for d in decs if d.endswith(".setter")]
                if setter:
                    pname = setter[0][: -len(".setter")].split(".")[-1]   # also @Base.prop.setter
                    p = ci.props.setdefault(pname, Prop(pname, owner=ci))
                    p.setter = node
                    p.setter_funcname = node.name
                    continue
                if any(d.endswith(".deleter") or d.endswith(".getter") for d in decs):
                    continue
                ci.methods[node.name] = node
            elif isinstance(node, ast.Assign):
                for t in node.targets:
                    if isinstance(t, ast.Name):
                        ci.class_attrs[t.id] = node.value
                    elif isinstance(t, (ast.Tuple, ast.List)) and isinstance(node.value, (ast.Tuple, ast.List)) and len(t.elts) == len(node.value.elts):
                        for te, ve in zip(t.elts, node.value.elts):          # A, B = 1, 2 at class level
                            if isinstance(te, ast.Name):
                                ci.class_attrs[te.id] = ve
            elif isinstance(node, ast.AnnAssign) and isinstance(node.target, ast.Name) and node.value is not None:
                ci.class_attrs[node.target.id] = node.value

    # ------------------------------------------------------------------ linking
    def _link(self):
        for ci in self.classes:
            ci.bases = [self.resolve_expr(ci.module, b) for b in ci.base_exprs]
            ci.bases = [b if isinstance(b, ClassInfo) else None for b in ci.bases]

    def resolve_dotted(self, dotted: str, name: Optional[str], _depth=0):
        """Resolve `name` exported by module `dotted` (following re-exports)."""
        if _depth > 12:
            return None
        m = self.by_dotted.get(dotted)
        if m is None:
            return None
        if name is None:
            return m
        if name in m.classes:
            return m.classes[name]
        if name in m.functions:
            return m.functions[name]
        if name in m.imports:
            d2, n2 = m.imports[name]
            r = self.resolve_dotted(d2, n2, _depth + 1)
            if r is not None:
                return r
        # submodule?
        sub = self.by_dotted.get(f"{dotted}.{name}")
        if sub is not None:
            return sub
        # star imports
        for k, (d2, n2) in m.imports.items():
            if n2 == "*":
                r = self.resolve_dotted(d2, name, _depth + 1)
                if r is not None:
                    return r
        return None

    def resolve_name(self, m: Module, name: str):
        if name in m.classes:
            return m.classes[name]
        if name in m.functions:
            return m.functions[name]
        if name in m.imports:
            d, n = m.imports[name]
            return self.resolve_dotted(d, n)
        for k, (d2, n2) in m.imports.items():
            if n2 == "*":
                r = self.resolve_dotted(d2, name)
                if r is not None:
                    return r
        return None

    def resolve_expr(self, m: Module, e: ast.expr):
        """Resolve a Name / dotted Attribute chain to a ClassInfo, FunctionDef or Module."""
        if isinstance(e, ast.Name):
            return self.resolve_name(m, e.id)
        if isinstance(e, ast.Attribute):
            base = self.resolve_expr(m, e.value)
            if isinstance(base, Module):
                return self.resolve_dotted(base.dotted, e.attr)
            return None
        return None

    # ------------------------------------------------------------------ access with anchors
    def mod(self, rel: str) -> Module:
        if rel not in self.modules:
            raise AnchorError(f"module {rel} not found")
        m = self.modules[rel]
        self.consulted[rel] = m.digest
        return m

    def cls(self, spec: str) -> ClassInfo:
        """spec = 'cuqi/x/_y.py:Class'"""
        rel, name = spec.split(":")
        m = self.mod(rel)
        if name not in m.classes:
            raise AnchorError(f"class {name} not found in {rel}")
        return m.classes[name]

    def func(self, spec: str) -> ast.FunctionDef:
        """spec = 'cuqi/x/_y.py:func' or 'cuqi/x/_y.py:Class.method' (plain method, getter 'Class.@prop', setter 'Class.@prop=')"""
        rel, name = spec.split(":")
        m = self.mod(rel)
        if "." in name:
            cn, mn = name.split(".", 1)
            ci = self.cls(f"{rel}:{cn}")
            if mn.startswith("@"):
                setter = mn.endswith("=")
                pn = mn[1:].rstrip("=")
                p = ci.props.get(pn)
                f = None if p is None else (p.setter if setter else p.getter)
                if f is None:
                    raise AnchorError(f"property {'setter' if setter else 'getter'} {cn}.{pn} not found in {rel}")
                return f
            if mn not in ci.methods:
                raise AnchorError(f"method {cn}.{mn} not found in {rel}")
            return ci.methods[mn]
        if name not in m.functions:
            raise AnchorError(f"function {name} not found in {rel}")
        return m.functions[name]

    def method(self, ci: ClassInfo, name: str) -> Tuple[ClassInfo, ast.FunctionDef]:
        r = ci.lookup(name)
        if r is None:
            raise AnchorError(f"method {name} not found along the MRO of {ci.qual}")
        self.consulted[r[0].module.rel] = r[0].module.digest
        return r

    def subclasses(self, base: ClassInfo, strict=True) -> List[ClassInfo]:
        out = [c for c in self.classes if base in c.mro() and (not strict or c != base)]
        return out

    def classes_in(self, rel_prefix: str) -> List[ClassInfo]:
        return [c for c in self.classes if c.module.rel.startswith(rel_prefix)]

    def module_of(self, node: ast.AST) -> Module:
        while getattr(node, "_parent", None) is not None:
            node = node._parent
        for m in self.modules.values():
            if m.tree is node:
                return m
        raise KeyError("node is not part of the indexed repository")

    # ------------------------------------------------------------------ symbolic folding of key sets
    def fold_keys(self, ci: ClassInfo, attr: str) -> set:
        """Evaluate class-level `attr = Base.attr.union({...})` / set literals through the MRO."""
        found = ci.lookup_attr(attr)
        if found is None:
            raise AnchorError(f"{ci.qual} has no class attribute {attr}")
        owner, expr = found
        return self._fold_set(owner, expr, attr)

    def _fold_set(self, owner: ClassInfo, e: ast.expr, attr: str) -> set:
        if isinstance(e, (ast.Set, ast.List, ast.Tuple)):
            out = set()
            for el in e.elts:
                if isinstance(el, ast.Constant) and isinstance(el.value, str):
                    out.add(el.value)
                else:
                    raise AnchorError(f"{owner.qual}.{attr}: non-literal key {ast.unparse(el)}")
            return out
        if isinstance(e, ast.Call) and isinstance(e.func, ast.Name) and e.func.id in ("set", "frozenset"):
            if not e.args:
                return set()
            return self._fold_set(owner, e.args[0], attr)
        if isinstance(e, ast.Call) and isinstance(e.func, ast.Attribute) and e.func.attr == "union":
            out = self._fold_set(owner, e.func.value, attr)
            for a in e.args:
                out |= self._fold_set(owner, a, attr)
            return out
        if isinstance(e, ast.BinOp) and isinstance(e.op, ast.BitOr):
            return self._fold_set(owner, e.left, attr) | self._fold_set(owner, e.right, attr)
        if isinstance(e, ast.BinOp) and isinstance(e.op, ast.Sub):
            return self._fold_set(owner, e.left, attr) - self._fold_set(owner, e.right, attr)
        if isinstance(e, ast.Attribute):
            base = self.resolve_expr(owner.module, e.value)
            if isinstance(base, ClassInfo):
                f = base.lookup_attr(e.attr)
                if f is None:
                    raise AnchorError(f"{base.qual} has no class attribute {e.attr}")
                return self._fold_set(f[0], f[1], e.attr)
        raise AnchorError(f"{owner.qual}.{attr}: cannot fold {ast.unparse(e)}")

    # ------------------------------------------------------------------ stats
    def stats(self) -> dict:
        nfun = 0
        for m in self.modules.values():
            for n in ast.walk(m.tree):
                if isinstance(n, (ast.FunctionDef, ast.AsyncFunctionDef, ast.Lambda)):
                    nfun += 1
        return {"modules": len(self.modules), "classes": len(self.classes), "functions": nfun}


def _set_parents(tree: ast.AST):
    tree._parent = None
    for node in ast.walk(tree):
        for ch in ast.iter_child_nodes(node):
            ch._parent = node


def parents(node: ast.AST):
    p = getattr(node, "_parent", None)
    while p is not None:
        yield p
        p = getattr(p, "_parent", None)


def enclosing_function(node: ast.AST):
    for p in parents(node):
        if isinstance(p, (ast.FunctionDef, ast.AsyncFunctionDef, ast.Lambda)):
            return p
    return None


def enclosing_class(node: ast.AST):
    for p in parents(node):
        if isinstance(p, ast.ClassDef):
            return p
    return None
