"""Late-binding capture: a closure created once per iteration that reads the iteration variable as a FREE variable sees the variable's
last value when it is called after the loop / comprehension has finished. Python closures capture variables, not values, so a list of
per-block operators built this way applies the LAST block's operator everywhere (the classic `[lambda x: L @ x for L in Ls]` mistake).

Decided here: for every lambda / nested def lexically inside a comprehension element or a `for` body, whose free variables include an
iteration target of that comprehension / loop and which does not rebind it through a default argument:
  * comprehension: always a violation unless the closure is called right there (the comprehension finishes before anything can call it);
  * for-loop: a violation if the closure escapes the iteration (stored in a container / attribute, appended, returned, yielded) - a closure
    that is only called inside the same iteration is fine."""
from __future__ import annotations
import ast
from typing import List, Set, Tuple

from .index import parents


def _targets(t) -> Set[str]:
    return {n.id for n in ast.walk(t) if isinstance(n, ast.Name)}


def _free_reads(fn) -> Set[str]:
    """names read inside the closure body that are not its parameters or locals"""
    if isinstance(fn, ast.Lambda):
        a = fn.args
        body = [fn.body]
    else:
        a = fn.args
        body = fn.body
    bound = {x.arg for x in a.args + a.kwonlyargs + a.posonlyargs}
    if a.vararg:
        bound.add(a.vararg.arg)
    if a.kwarg:
        bound.add(a.kwarg.arg)
    reads, stores = set(), set()
    for b in body:
        for n in ast.walk(b):
            if isinstance(n, ast.Name):
                (stores if isinstance(n.ctx, (ast.Store, ast.Del)) else reads).add(n.id)
            elif isinstance(n, ast.comprehension):
                stores |= _targets(n.target)
    return reads - bound - stores


def _called_in_place(fn) -> bool:
    p = getattr(fn, "_parent", None)
    return isinstance(p, ast.Call) and p.func is fn


def _escapes_loop(fn, loop: ast.For) -> bool:
    """closure value leaves the iteration: appended/stored into attribute/subscript/returned, or bound to a name that is stored so."""
    p = getattr(fn, "_parent", None)
    name = None
    if isinstance(fn, (ast.FunctionDef, ast.AsyncFunctionDef)):
        name = fn.name
    elif isinstance(p, ast.Assign) and len(p.targets) == 1:
        t = p.targets[0]
        if isinstance(t, ast.Name):
            name = t.id
        else:
            return True                                   # stored into attribute / subscript
    elif isinstance(p, ast.Call) and fn in p.args:
        cn = p.func.attr if isinstance(p.func, ast.Attribute) else getattr(p.func, "id", "")
        return cn in ("append", "extend", "insert", "add", "setdefault", "update")
    elif isinstance(p, (ast.Return, ast.Yield, ast.Dict, ast.List, ast.Tuple, ast.keyword)):
        return True
    if name is None:
        return False
    for n in ast.walk(loop):
        if isinstance(n, ast.Name) and n.id == name and isinstance(n.ctx, ast.Load):
            q = getattr(n, "_parent", None)
            if isinstance(q, ast.Call) and q.func is n:
                continue                                  # called inside the iteration
            if isinstance(q, ast.Call) and n in q.args:
                cn = q.func.attr if isinstance(q.func, ast.Attribute) else getattr(q.func, "id", "")
                if cn in ("append", "extend", "insert", "add", "setdefault", "update"):
                    return True
                continue                                  # passed to a call that runs within the iteration
            if isinstance(q, ast.Assign) and not isinstance(q.targets[0], ast.Name):
                return True
            if isinstance(q, (ast.Return, ast.Yield, ast.Dict, ast.List, ast.Tuple, ast.keyword)):
                return True
    return False


def scan(tree: ast.AST) -> List[Tuple[ast.AST, str, str]]:
    """(closure node, captured names, context) for each late-binding capture in `tree` (nodes must carry _parent pointers)."""
    out = []
    for fn in ast.walk(tree):
        if not isinstance(fn, (ast.Lambda, ast.FunctionDef, ast.AsyncFunctionDef)):
            continue
        free = _free_reads(fn)
        if not free:
            continue
        defaults = set()
        for d in fn.args.defaults + [k for k in fn.args.kw_defaults if k is not None]:
            defaults |= _targets(d)
        child = fn
        for anc in parents(fn):
            if isinstance(anc, (ast.ListComp, ast.SetComp, ast.GeneratorExp, ast.DictComp)):
                in_elt = (child is getattr(anc, "elt", None)) or (child is getattr(anc, "key", None)) or (child is getattr(anc, "value", None)) \
                    or not isinstance(child, ast.comprehension)
                tg = set()
                for g in anc.generators:
                    tg |= _targets(g.target)
                cap = free & tg
                if cap and in_elt and not _called_in_place(fn):
                    out.append((fn, ", ".join(sorted(cap)), "comprehension"))
                    break
            elif isinstance(anc, ast.For):
                in_body = any(child is s for s in anc.body)
                cap = free & _targets(anc.target)
                if cap and in_body and not _called_in_place(fn) and _escapes_loop(fn, anc):
                    out.append((fn, ", ".join(sorted(cap)), "for loop"))
                    break
            elif isinstance(anc, (ast.FunctionDef, ast.AsyncFunctionDef, ast.Lambda, ast.ClassDef)):
                # an enclosing function creates a fresh scope per call: loop variables further out are not this closure's problem
                break
            child = anc
    return out


_CONTROL = '''
def build(Ls, models):
    fs = [lambda x: L @ m.forward(x) for (L, m) in zip(Ls, models)]
    gs = []
    for L in Ls:
        gs.append(lambda y: L.T @ y)
    ok = [lambda x, L=L: L @ x for L in Ls]
    for L in Ls:
        h = lambda y: L @ y
        use(h(1))
    return fs, gs, ok
'''


def latebind_rule(chk, repo, rule: str, prefixes) -> int:
    """One obligation per module under `prefixes`; the positive control must fire on every run (the expected count on the tree is zero)."""
    from .index import _set_parents, AnchorError
    from .props.common import site
    ctl = ast.parse(_CONTROL)
    _set_parents(ctl)
    hits = scan(ctl)
    if sorted(h[0].lineno for h in hits) != [3, 6]:
        raise AnchorError(f"late-binding positive control did not fire as expected: {[(h[0].lineno, h[1]) for h in hits]}")
    n = 0
    for rel in sorted(repo.modules):
        if not rel.startswith(tuple(prefixes)):
            continue
        m = repo.modules[rel]
        repo.consulted[rel] = m.digest
        closures = sum(isinstance(x, (ast.Lambda, ast.FunctionDef)) and x is not m.tree for x in ast.walk(m.tree))
        found = scan(m.tree)
        n += 1
        if not found:
            chk.ok(rule, f"{rel}/closures", f"{rel}:1", f"{closures} function/lambda definitions inspected, none captures an iteration variable late")
        for fn, cap, ctx in found:
            chk.fail(rule, f"{rel}/late-binding@{ast.unparse(fn)[:40]}", f"{rel}:{fn.lineno}",
                     f"closure created in a {ctx} reads the iteration variable(s) `{cap}` as free variables and outlives the iteration: when it is called, "
                     f"every closure built this way sees the LAST value of `{cap}` (all blocks use the last block's operator); bind with a default "
                     f"argument or call it inside the iteration", fn)
    return n
