"""Late-binding capture: a closure created once per iteration that reads the iteration variable as a FREE variable sees the variable's
last value when it is called after the loop / comprehension has finished. Python closures capture variables, not values, so a list of
per-block operators built this way applies the LAST block's operator everywhere (the classic `[lambda x: L @ x for L in Ls]` mistake).

Decided here: for every lambda / nested def lexically inside a comprehension element or a `for` body, whose free variables include an
iteration target of that comprehension / loop and which does not rebind it through a default argument:
  * comprehension: always a violation unless the closure is called right there (the comprehension finishes before anything can call it);
  * for-loop: a violation if the closure escapes the iteration (stored in a container / attribute, appended, returned, yielded) - a closure
    that is only called inside the same iteration is fine."""
from __future__ import annotations
import ast
from typing import List, Set, Tuple

from .index import parents


def _targets(t) -> Set[str]:
    return {n.id for n in ast.walk(t) if isinstance(n, ast.Name)}


def _free_reads(fn) -> Set[str]:
    """names read inside the closure body that are not its parameters or locals"""
    if isinstance(fn, ast.Lambda):
        a = fn.args
        body = [fn.body]
    else:
        a = fn.args
        body = fn.body
    bound = {x.arg for x in a.args + a.kwonlyargs + a.posonlyargs}
    if a.vararg:
        bound.add(a.vararg.arg)
    if a.kwarg:
        bound.add(a.kwarg.arg)
    reads, stores = set(), set()
    for b in body:
        for n in ast.walk(b):
            if isinstance(n, ast.Name):
                (stores if isinstance(n.ctx, (ast.Store, ast.Del)) else reads).add(n.id)
            elif isinstance(n, ast.comprehension):
                stores |= _targets(n.target)
    return reads - bound - stores


def _called_in_place(fn) -> bool:
    p = getattr(fn, "_parent", None)
    return isinstance(p, ast.Call) and p.func is fn


def _escapes_loop(fn, loop: ast.For) -> bool:
    """closure value leaves the iteration: appended/stored into attribute/subscript/returned, or bound to a name that is stored so."""
    p = getattr(fn, "_parent", None)
    name = None
    if isinstance(fn, (ast.FunctionDef, ast.AsyncFunctionDef)):
        name = fn.name
    elif isinstance(p, ast.Assign) and len(p.targets) == 1:
        t = p.targets[0]
        if isinstance(t, ast.Name):
            name = t.id
        else:
            return True                                   # stored into attribute / subscript
    elif isinstance(p, ast.Call) and fn in p.args:
        cn = p.func.attr if isinstance(p.func, ast.Attribute) else getattr(p.func, "id", "")
        return cn in ("append", "extend", "insert", "add", "setdefault", "update", "setattr")
    elif isinstance(p, (ast.Return, ast.Yield, ast.Dict, ast.List, ast.Tuple, ast.keyword)):
        return True
    if name is None:
        return False
    for n in ast.walk(loop):
        if isinstance(n, ast.Name) and n.id == name and isinstance(n.ctx, ast.Load):
            q = getattr(n, "_parent", None)
            if isinstance(q, ast.Call) and q.func is n:
                continue                                  # called inside the iteration
            if isinstance(q, ast.Call) and n in q.args:
                cn = q.func.attr if isinstance(q.func, ast.Attribute) else getattr(q.func, "id", "")
                if cn in ("append", "extend", "insert", "add", "setdefault", "update", "setattr"):
                    return True
                continue                                  # passed to a call that runs within the iteration
            if isinstance(q, ast.Assign) and not isinstance(q.targets[0], ast.Name):
                return True
            if isinstance(q, (ast.Return, ast.Yield, ast.Dict, ast.List, ast.Tuple, ast.keyword)):
                return True
    return False


def scan(tree: ast.AST) -> List[Tuple[ast.AST, str, str]]:
    """(closure node, captured names, context) for each late-binding capture in `tree` (nodes must carry _parent pointers)."""
    out = []
    for fn in ast.walk(tree):
        if not isinstance(fn, (ast.Lambda, ast.FunctionDef, ast.AsyncFunctionDef)):
            continue
        free = _free_reads(fn)
        if not free:
            continue
        defaults = set()
        for d in fn.args.defaults + [k for k in fn.args.kw_defaults if k is not None]:
            defaults |= _targets(d)
        child = fn
        for anc in parents(fn):
            if isinstance(anc, (ast.ListComp, ast.SetComp, ast.GeneratorExp, ast.DictComp)):
                in_elt = (child is getattr(anc, "elt", None)) or (child is getattr(anc, "key", None)) or (child is getattr(anc, "value", None)) \
                    or not isinstance(child, ast.comprehension)
                tg = set()
                for g in anc.generators:
                    tg |= _targets(g.target)
                cap = free & tg
                if cap and in_elt and not _called_in_place(fn):
                    out.append((fn, ", ".join(sorted(cap)), "comprehension"))
                    break
            elif isinstance(anc, ast.For):
                in_body = any(child is s for s in anc.body)
                # the loop variables, and every local the body re-binds on each iteration (outside this closure): all are read when the closure RUNS
                rebound = set()
                inside = {id(x) for x in ast.walk(fn)}
                for st in ast.walk(anc):
                    if isinstance(st, (ast.Assign, ast.AugAssign, ast.AnnAssign)) and id(st) not in inside and st is not getattr(fn, "_parent", None):
                        for t in (st.targets if isinstance(st, ast.Assign) else [st.target]):
                            rebound |= {x.id for x in ast.walk(t) if isinstance(x, ast.Name) and isinstance(x.ctx, ast.Store)}
                cap = free & (_targets(anc.target) | rebound)
                if cap and in_body and not _called_in_place(fn) and _escapes_loop(fn, anc):
                    out.append((fn, ", ".join(sorted(cap)), "for loop"))
                    break
            elif isinstance(anc, (ast.FunctionDef, ast.AsyncFunctionDef, ast.Lambda, ast.ClassDef)):
                # an enclosing function creates a fresh scope per call: loop variables further out are not this closure's problem
                break
            child = anc
    return out


_CONTROL = '''
def build(Ls, models):
    fs = [lambda x: L @ m.forward(x) for (L, m) in zip(Ls, models)]
    gs = []
    for L in Ls:
        gs.append(lambda y: L.T @ y)
    ok = [lambda x, L=L: L @ x for L in Ls]
    for L in Ls:
        h = lambda y: L @ y
        use(h(1))
    return fs, gs, ok
'''


def latebind_rule(chk, repo, rule: str, prefixes) -> int:
    """One obligation per module under `prefixes`; the positive control must fire on every run (the expected count on the tree is zero)."""
    from .index import _set_parents, AnchorError
    from .props.common import site
    ctl = ast.parse(_CONTROL)
    _set_parents(ctl)
    hits = scan(ctl)
    if sorted(h[0].lineno for h in hits) != [3, 6]:
        raise AnchorError(f"late-binding positive control did not fire as expected: {[(h[0].lineno, h[1]) for h in hits]}")
    n = 0
    for rel in sorted(repo.modules):
        if not rel.startswith(tuple(prefixes)):
            continue
        m = repo.modules[rel]
        repo.consulted[rel] = m.digest
        closures = sum(isinstance(x, (ast.Lambda, ast.FunctionDef)) and x is not m.tree for x in ast.walk(m.tree))
        found = scan(m.tree)
        n += 1
        if not found:
            chk.ok(rule, f"{rel}/closures", f"{rel}:1", f"{closures} function/lambda definitions inspected, none captures an iteration variable late")
        for fn, cap, ctx in found:
            chk.fail(rule, f"{rel}/late-binding@{ast.unparse(fn)[:40]}", f"{rel}:{fn.lineno}",
                     f"closure created in a {ctx} reads the iteration variable(s) `{cap}` as free variables and outlives the iteration: when it is called, "
                     f"every closure built this way sees the LAST value of `{cap}` (all blocks use the last block's operator); bind with a default "
                     f"argument or call it inside the iteration", fn)
    return n


# ----------------------------------------------------------------------------------------------------------------- re-bound captured variable
def scan_rebound(tree: ast.AST):
    """A nested function reads a local variable of its enclosing function as a free variable; the enclosing function binds that variable AGAIN after
    the nested function was defined, and then CALLS the nested function (directly, by its name) at a point the new binding reaches. The call computes
    with the later value although the function was written - and defined - against the earlier one (typical when one name is re-used for two
    quantities). Returns (closure node, variable, call node) triples. Closures that are never called by name in the enclosing function (stored,
    returned, passed on) are outside this scan."""
    from .cfg import CFG, ReachingDefs
    out = []
    for encl in ast.walk(tree):
        if not isinstance(encl, (ast.FunctionDef, ast.AsyncFunctionDef)):
            continue
        inner = [s for s in ast.walk(encl) if isinstance(s, ast.FunctionDef) and s is not encl and _direct_parent_fn(s) is encl]
        if not inner:
            continue
        g = rd = None
        for fn in inner:
            free = _free_reads(fn)
            if not free:
                continue
            calls = [c for c in ast.walk(encl) if isinstance(c, ast.Call) and isinstance(c.func, ast.Name) and c.func.id == fn.name and _direct_parent_fn(c) is encl]
            if not calls:
                continue
            if g is None:
                g = CFG(encl)
                rd = ReachingDefs(g)
            try:
                dn = g.node_of(fn)
            except Exception:
                continue
            for v in sorted(free):
                at_def = set(rd.reaching(dn, v))
                if not at_def or at_def == {g.entry.id}:
                    continue            # not a local of the enclosing function (global / builtin / parameter never re-bound)
                for c in calls:
                    try:
                        cn = g.stmt_node_containing(c)
                    except Exception:
                        continue
                    at_call = set(rd.reaching(cn, v))
                    if at_call and not at_call <= at_def:
                        out.append((fn, v, c))
    return out


def _direct_parent_fn(node):
    for anc in parents(node):
        if isinstance(anc, (ast.FunctionDef, ast.AsyncFunctionDef, ast.Lambda)):
            return anc
    return None


_CONTROL2 = '''
def sample(self, x, D, n):
    beta = 1e-5
    def Lk(x_k):
        return D @ x_k / (x_k ** 2 + beta)
    a = Lk(x) @ x
    beta = self.rate
    b = Lk(x) @ x
    return a, b, beta
'''


def rebound_rule(chk, repo, rule: str, prefixes) -> int:
    from .index import _set_parents, AnchorError
    ctl = ast.parse(_CONTROL2)
    _set_parents(ctl)
    hits = scan_rebound(ctl)
    if [(h[1], h[2].lineno) for h in hits] != [("beta", 8)]:
        raise AnchorError(f"re-bound capture positive control did not fire as expected: {[(h[1], h[2].lineno) for h in hits]}")
    n = 0
    for rel in sorted(repo.modules):
        if not rel.startswith(tuple(prefixes)):
            continue
        m = repo.modules[rel]
        repo.consulted[rel] = m.digest
        found = scan_rebound(m.tree)
        n += 1
        if not found:
            chk.ok(rule, f"{rel}/rebound-captures", f"{rel}:1", "no nested function is called after a variable it reads was bound again")
        for fn, v, c in found:
            chk.fail(rule, f"{rel}/rebound-capture@{fn.name}:{v}", f"{rel}:{c.lineno}",
                     f"`{fn.name}` reads `{v}` of the enclosing function; `{v}` is bound again before the call `{ast.unparse(c)[:50]}` (line {c.lineno}), so "
                     f"this call computes with the later value instead of the one the function was defined against", c)
    return n
