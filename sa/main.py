"""Entry point: python -m sa.main <Cxx> [--tier quick|thorough] [--root /repo] [--replay f] | --selfcheck"""
from __future__ import annotations
import argparse, importlib, json, os, sys, time, traceback

from .index import Repo, AnchorError
from .report import Check, EVIDENCE_DIR, VERIF

ALL = [f"C{i:02d}" for i in range(1, 21)]


def run_property(prop: str, tier: str, root: str, seed: int, only_rule=None, quiet=False) -> int:
    chk = Check(prop, tier, root, seed)
    repo = None
    try:
        repo = Repo(root)
        mod = importlib.import_module(f"sa.props.{prop.lower()}")
        mod.run(chk, repo)
        if tier == "thorough":
            if hasattr(mod, "run_thorough"):
                mod.run_thorough(chk, repo)
            from .thorough import run_mutants
            run_mutants(chk, prop, root)
        return chk.finish(repo)
    except AnchorError as e:
        try:
            return chk.finish(repo, partial_error=str(e))
        except AnchorError as e2:
            print(f"ANALYSIS-ERROR property={prop}: {e2}")
            chk._write_evidence(repo, [], [], error=str(e2))
            return 2
    except Exception as e:  # never let a traceback look like a violation (exit 1)
        traceback.print_exc()
        print(f"ANALYSIS-ERROR property={prop}: internal error {type(e).__name__}: {e}")
        try:
            chk._write_evidence(repo, [], [], error=f"{type(e).__name__}: {e}")
        except Exception:
            pass
        return 2


def main(argv=None) -> int:
    ap = argparse.ArgumentParser()
    ap.add_argument("prop", nargs="?")
    ap.add_argument("--tier", default=os.environ.get("VERIF_TIER", "quick"))
    ap.add_argument("--root", default=os.environ.get("VERIF_ROOT", "/repo"))
    ap.add_argument("--replay")
    ap.add_argument("--selfcheck", action="store_true")
    ap.add_argument("--all", action="store_true")
    a = ap.parse_args(argv)
    # an explicit --tier on the command line wins; VERIF_TIER only supplies the default (see add_argument above)
    if a.tier not in ("quick", "thorough"):
        a.tier = "quick"
    seed = int(os.environ.get("VERIF_SEED", "0") or 0)
    if a.selfcheck:
        from .selfcheck import selfcheck
        return selfcheck(a.root)
    if a.all:
        rc = 0
        for p in ALL:
            try:
                importlib.import_module(f"sa.props.{p.lower()}")
            except ModuleNotFoundError:
                continue
            rc = max(rc, run_property(p, a.tier, a.root, seed))
        return rc
    if not a.prop:
        ap.error("property id required")
    if a.replay:
        data = json.loads(open(a.replay).read())
        print(f"replay: property={data['property']} rule={data['rule']} instance={data['instance']}")
        print(f"  rule: {data.get('rule_text', '')}")
        print(f"  site: {data.get('site', '')}\n  reason: {data.get('reason', '')}\n  construct: {data.get('construct', '')}")
        rc = run_property(data["property"], "quick", a.root, seed)
        return rc
    return run_property(a.prop, a.tier, a.root, seed)


if __name__ == "__main__":
    sys.exit(main())
