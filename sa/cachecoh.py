"""Cache-coherence rule shared by several properties.

A *lazy cache* is an attribute `self._c` assigned inside a non-constructor function under a test on the attribute's own
state (`self._c is None`, `hasattr(self, '_c')`, `getattr(self, '_c', None) is None`, `len(self._c) != k`, ...).

 keyed cache   (the test compares the cache against a key): every mutable quantity the cached expression reads must be
               covered by the validity test (Engler-style contradiction: one input is checked for staleness, another is not)
 unkeyed cache (computed once): every function outside the constructor that rebinds a field the cached expression
               depends on must also reset/rebind the cache attribute
"""
from __future__ import annotations
import ast
from typing import Dict, List, Optional, Set, Tuple

from .index import Repo, ClassInfo
from .cfg import CFG, path_of
from .astutil import unparse, walk_no_nested, call_name


def _norm(e) -> str:
    return unparse(e).replace(" ", "").replace("\n", "")


def _self_reads(node) -> Set[str]:
    out = set()
    for n in walk_no_nested(node) if not isinstance(node, ast.expr) else ast.walk(node):
        if isinstance(n, ast.Attribute) and path_of(n.value) == "self" and isinstance(n.ctx, ast.Load):
            out.add(n.attr)
        if isinstance(n, ast.Call) and call_name(n) in ("getattr", "hasattr") and n.args and path_of(n.args[0]) == "self" \
                and len(n.args) > 1 and isinstance(n.args[1], ast.Constant):
            out.add(n.args[1].value)
    return out


def _field_writers(ci: ClassInfo) -> Dict[str, List[Tuple[ClassInfo, str, str, ast.AST]]]:
    """field -> [(class, kind, name, fn)] for every direct `self.field = ...` along the MRO"""
    out: Dict[str, list] = {}
    for c in ci.mro():
        for kind, name, fn in c.all_functions():
            for n in walk_no_nested(fn):
                tg = []
                if isinstance(n, ast.Assign):
                    tg = [t for T in n.targets for t in (T.elts if isinstance(T, (ast.Tuple, ast.List)) else [T])]
                elif isinstance(n, (ast.AugAssign, ast.AnnAssign)):
                    tg = [n.target]
                for t in tg:
                    p = path_of(t)
                    if p and p.startswith("self.") and p.count(".") == 1:
                        out.setdefault(p[5:], []).append((c, kind, name, fn))
    return out


def backing_fields(ci: ClassInfo, q: str, seen=None) -> Set[str]:
    seen = seen if seen is not None else set()
    if q in seen:
        return set()
    seen.add(q)
    prop = ci.lookup_prop(q)
    if prop is not None and prop.getter is not None:
        out = set()
        for r in _self_reads(prop.getter):
            out |= backing_fields(ci, r, seen)
        return out
    if ci.lookup(q) is not None:
        return set()
    return {q}


def find_caches(ci: ClassInfo, own_only=True):
    """yield (fn kind, fn name, fn, cfg, assign node, cache attr, tests mentioning it)"""
    for kind, name, fn in ci.all_functions():
        if name in ("__init__", "__new__") or kind == "setter":
            continue
        g = None
        for a in walk_no_nested(fn):
            if not (isinstance(a, ast.Assign) and len(a.targets) == 1):
                continue
            p = path_of(a.targets[0])
            if not (p and p.startswith("self.") and p.count(".") == 1):
                continue
            cache = p[5:]
            if g is None:
                g = CFG(fn)
            try:
                node = g.node_of(a)
            except KeyError:
                continue
            tests = [t for t in g.tests() if cache in _self_reads(t.ast)]
            if not tests:
                continue
            if not g.must_pass(node, lambda x: x.kind == "test" and cache in _self_reads(x.ast)):
                continue
            yield kind, name, fn, g, a, cache, tests


def cache_coherence(chk, repo: Repo, rule: str, prefixes: Tuple[str, ...], floor_note: str = ""):
    n = 0
    for m in repo.modules.values():
        if not m.rel.startswith(prefixes):
            continue
        for ci in m.classes.values():
            writers = None
            for kind, name, fn, g, a, cache, tests in find_caches(ci):
                if writers is None:
                    writers = _field_writers(ci)
                n += 1
                keyed = [t for t in tests if isinstance(t.ast, ast.Compare) and not all(
                    isinstance(c, ast.Constant) and c.value is None for c in t.ast.comparators)]
                reads = _self_reads(a.value)
                # locals the cached value is built from, transitively (assignments, loop variables <- their iterables)
                todo = [x.id for x in ast.walk(a.value) if isinstance(x, ast.Name)]
                seen_nm: Set[str] = set()
                while todo:
                    nm = todo.pop()
                    if nm in seen_nm:
                        continue
                    seen_nm.add(nm)
                    for s in walk_no_nested(fn):
                        src = None
                        if isinstance(s, ast.Assign) and any(isinstance(t, ast.Name) and t.id == nm for T in s.targets for t in ast.walk(T)):
                            src = s.value
                        elif isinstance(s, (ast.For, ast.comprehension)) and any(isinstance(t, ast.Name) and t.id == nm for t in ast.walk(s.target)):
                            src = s.iter
                        if src is not None:
                            reads |= _self_reads(src)
                            todo.extend(x.id for x in ast.walk(src) if isinstance(x, ast.Name))
                reads.discard(cache)
                inst = f"{ci.qual}.{'@' if kind == 'getter' else ''}{name}/{cache}"
                where = f"{m.rel}:{a.lineno}"
                mutable_fields = {f for f, ws in writers.items() if any(w[2] != "__init__" for w in ws)}
                if keyed:
                    test_reads: Set[str] = set()
                    for t in tests:
                        test_reads |= _self_reads(t.ast)

                    def covered(q: str, depth=0) -> bool:
                        if q in test_reads or q == cache:
                            return True
                        if depth > 6:
                            return False
                        prop = ci.lookup_prop(q)
                        if prop is not None and prop.getter is not None:
                            own = {path_of(t)[5:] for st in walk_no_nested(prop.getter) if isinstance(st, ast.Assign)
                                   for t in st.targets if (path_of(t) or "").startswith("self.")}
                            return all(covered(r, depth + 1) or r in own for r in _self_reads(prop.getter) - {q})
                        if ci.lookup(q) is not None:
                            return True
                        return q not in mutable_fields
                    stale = sorted(q for q in reads if not covered(q))
                    chk.add(rule, inst, not stale, where, f"keyed cache: expression reads {sorted(reads)}, validity test reads {sorted(test_reads)}",
                            f"cache `{cache}` is re-validated only against {sorted(test_reads - {cache})} but the cached expression also depends on {stale}, "
                            f"which can change after construction: the cached value goes stale", a)
                else:
                    fields: Set[str] = set()
                    for q in reads:
                        fields |= backing_fields(ci, q)
                    fields.discard(cache)
                    bad = []
                    for f in sorted(fields):
                        # a public field without a property is assigned from outside the class (conditioning sets mutable variables with setattr,
                        # users assign them): no code of the class runs at that moment, so nothing can reset the cache
                        if not f.startswith("_") and ci.lookup_prop(f) is None and ci.lookup(f) is None and f in writers \
                                and any(w[2] == "__init__" for w in writers[f]):
                            bad.append(f"`{f}` is a plain public attribute (re-assignable without any hook)")
                        for (c, k, wname, wfn) in writers.get(f, []):
                            if wname in ("__init__", "__new__") or wfn is fn:
                                continue
                            resets = any(w[3] is wfn for w in writers.get(cache, []))
                            if not resets:
                                bad.append(f"{c.name}.{wname} rebinds `{f}`")
                    chk.add(rule, inst, not bad, where, f"compute-once cache of an expression over fields {sorted(fields)}; all their writers reset it",
                            f"cache `{cache}` holds a value computed from {sorted(fields)}, but " + "; ".join(sorted(set(bad))) +
                            f" without resetting `{cache}`: after such an assignment the cached value no longer matches the object", a)
    return n
