"""A tiny abstract domain for index arithmetic on a size of unknown parity.

The size N is written N = 2k + p (k >= 0 an unknown integer, p in {0, 1} the parity case); every scalar is an affine form a*k + b with rational
a, b, evaluated once per parity case. fix / floor / ceil / int / `//` are exact on this domain as long as the sign of the value is determined
for all k >= 0 (otherwise the evaluation gives up and the caller reports an unknown idiom). np.arange yields an integer range (first, length).
This decides statements such as "the sample grid has its zero at index N // 2 for both parities" without enumerating sizes."""
from __future__ import annotations
import ast
import math
from fractions import Fraction
from typing import Optional, Tuple, Union

from .cfg import path_of


class Aff:
    __slots__ = ("a", "b")

    def __init__(self, a, b):
        self.a, self.b = Fraction(a), Fraction(b)

    def __add__(self, o): return Aff(self.a + o.a, self.b + o.b)
    def __sub__(self, o): return Aff(self.a - o.a, self.b - o.b)
    def __neg__(self): return Aff(-self.a, -self.b)
    def scale(self, c): return Aff(self.a * c, self.b * c)
    def __eq__(self, o): return isinstance(o, Aff) and self.a == o.a and self.b == o.b
    def const(self): return self.b if self.a == 0 else None
    def __repr__(self):
        return f"{self.a}*k{'+' if self.b >= 0 else ''}{self.b}" if self.a else f"{self.b}"

    def nonneg(self):  # value >= 0 for all k >= 0 ?
        return self.a >= 0 and self.b >= 0

    def nonpos(self):
        return self.a <= 0 and self.b <= 0

    def floor(self):
        return Aff(self.a, math.floor(self.b)) if self.a.denominator == 1 else None

    def ceil(self):
        return Aff(self.a, math.ceil(self.b)) if self.a.denominator == 1 else None

    def fix(self):
        if self.nonneg():
            return self.floor()
        if self.nonpos():
            return self.ceil()
        return None


class Range:
    __slots__ = ("first", "length")

    def __init__(self, first: Aff, length: Aff):
        self.first, self.length = first, length


Val = Union[Aff, Range, None]


def evaluate(e: ast.expr, size_names, p: int, env=None, depth=0) -> Val:
    """env: name -> defining expression (single-definition locals), inlined on demand."""
    v = _evaluate(e, size_names, p, env or {}, depth)
    return v


def _map(v, f):
    if isinstance(v, list):
        out = [f(x) for x in v]
        return None if any(x is None for x in out) else out
    return f(v)


def _evaluate(e: ast.expr, size_names, p: int, env, depth) -> Val:
    ev = lambda x: _evaluate(x, size_names, p, env, depth)
    if isinstance(e, ast.Name) and e.id not in size_names and e.id in env and depth < 6:
        return _evaluate(env[e.id], size_names, p, env, depth + 1)
    if isinstance(e, ast.Subscript) and isinstance(e.slice, ast.Constant) and isinstance(e.slice.value, int):
        b = ev(e.value)
        if isinstance(b, list) and 0 <= e.slice.value < len(b):
            return b[e.slice.value]
        return None
    if isinstance(e, (ast.List, ast.Tuple)):
        items = [ev(x) for x in e.elts]
        return items if all(isinstance(i, Aff) for i in items) else None
    if isinstance(e, ast.Call) and (path_of(e.func) or "").rsplit(".", 1)[-1] in ("array", "asarray") and len(e.args) == 1:
        return ev(e.args[0])
    if isinstance(e, ast.Call) and (path_of(e.func) or "") == "max" and len(e.args) == 2:
        a, b = ev(e.args[0]), ev(e.args[1])
        return a if isinstance(a, Aff) and a == b else None
    if isinstance(e, ast.BinOp) and isinstance(e.op, (ast.Div, ast.Mult, ast.Add, ast.Sub, ast.FloorDiv)):
        l, r = ev(e.left), ev(e.right)
        if isinstance(l, list) and isinstance(r, Aff) and r.const() is not None:
            c = ast.Constant(value=r.const())
            return _map(l, lambda x: _binop(e.op, x, r))
    if isinstance(e, ast.Call) and (path_of(e.func) or "").rsplit(".", 1)[-1] in ("fix", "floor", "ceil") and len(e.args) == 1:
        a = ev(e.args[0])
        if isinstance(a, list):
            nm = (path_of(e.func) or "").rsplit(".", 1)[-1]
            return _map(a, lambda x: getattr(x, nm)())
    if isinstance(e, ast.Constant) and isinstance(e.value, (int, float)) and not isinstance(e.value, bool):
        return Aff(0, Fraction(e.value).limit_denominator(1 << 20))
    if isinstance(e, ast.Name):
        return Aff(2, p) if e.id in size_names else None
    if isinstance(e, ast.UnaryOp) and isinstance(e.op, (ast.USub, ast.UAdd)):
        v = ev(e.operand)
        if isinstance(v, Aff):
            return -v if isinstance(e.op, ast.USub) else v
        return None
    if isinstance(e, ast.BinOp):
        l, r = ev(e.left), ev(e.right)
        if l is None or r is None or isinstance(l, list) or isinstance(r, list):
            return None
        if isinstance(l, Range) or isinstance(r, Range):
            if isinstance(l, Range) and isinstance(r, Aff) and isinstance(e.op, (ast.Add, ast.Sub)):
                return Range(l.first + r if isinstance(e.op, ast.Add) else l.first - r, l.length)
            if isinstance(r, Range) and isinstance(l, Aff) and isinstance(e.op, ast.Add):
                return Range(r.first + l, r.length)
            return None
        return _binop(e.op, l, r)
    if isinstance(e, ast.Call):
        nm = (path_of(e.func) or "").rsplit(".", 1)[-1]
        args = [ev(a) for a in e.args]
        if any(a is None or isinstance(a, list) for a in args) or e.keywords:
            return None
        if nm in ("fix", "int", "trunc") and len(args) == 1 and isinstance(args[0], Aff):
            return args[0].fix()
        if nm == "floor" and len(args) == 1 and isinstance(args[0], Aff):
            return args[0].floor()
        if nm == "ceil" and len(args) == 1 and isinstance(args[0], Aff):
            return args[0].ceil()
        if nm in ("float", "abs") and len(args) == 1 and isinstance(args[0], Aff) and (nm == "float" or args[0].nonneg()):
            return args[0]
        if nm == "arange" and all(isinstance(a, Aff) for a in args):
            if len(args) == 1:
                ln = args[0].ceil()
                return Range(Aff(0, 0), ln) if ln is not None else None
            if len(args) == 2:
                ln = (args[1] - args[0]).ceil()
                return Range(args[0], ln) if ln is not None else None
        return None
    return None


def _binop(op, l: Aff, r: Aff):
    if isinstance(op, ast.Add):
        return l + r
    if isinstance(op, ast.Sub):
        return l - r
    if isinstance(op, ast.Mult):
        if l.const() is not None:
            return r.scale(l.const())
        if r.const() is not None:
            return l.scale(r.const())
        return None
    if isinstance(op, ast.Div) and r.const() not in (None, 0):
        return l.scale(1 / r.const())
    if isinstance(op, ast.FloorDiv) and r.const() not in (None, 0) and r.const() > 0:
        return l.scale(1 / r.const()).floor()
    return None
