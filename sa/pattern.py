"""Statement patterns with metavariables, matched modulo consistent renaming of local identifiers.

A pattern is normalised source text (no whitespace) in which `$name` stands for an arbitrary identifier; all occurrences
of the same metavariable in the patterns of one rule must bind to the same identifier (unification). Attribute names,
function names and literals are matched literally, so renaming a *local* variable does not change the verdict while
changing which quantity is used does.
"""
from __future__ import annotations
import ast, re
from typing import Dict, List, Optional, Sequence, Tuple

from .astutil import unparse, walk_no_nested

_IDENT = r"[A-Za-z_][A-Za-z_0-9]*"


_TOK = re.compile(r"\$?[A-Za-z_][A-Za-z_0-9]*|\d+\.?\d*(?:[eE][+-]?\d+)?|\S")


def norm(e) -> str:
    """source text without insignificant whitespace; one space is kept between two adjacent word tokens
    (so `1 if a else b` does not collapse into `1ifaelseb`)"""
    if isinstance(e, ast.AST) and any(isinstance(x, ast.Call) and isinstance(x.func, ast.Name) and x.func.id == "slice" for x in ast.walk(e)):
        import copy
        e = _SliceCalls().visit(copy.deepcopy(e))
    if isinstance(e, ast.AST) and any(isinstance(x, ast.Call) and isinstance(x.func, ast.Name) and x.func.id == "getattr" and len(x.args) == 2 for x in ast.walk(e)):
        import copy
        e = _GetattrLiteral().visit(copy.deepcopy(e))
    txt = unparse(e) if not isinstance(e, str) else e
    out, prev_word = [], False
    for t in _TOK.findall(txt):
        word = t[0].isalnum() or t[0] in "_$"
        if word and prev_word:
            out.append(" ")
        out.append(t)
        prev_word = word
    return "".join(out)


class _GetattrLiteral(ast.NodeTransformer):
    """getattr(o, 'name') with a literal identifier and no default IS o.name"""

    def visit_Call(self, n):
        self.generic_visit(n)
        if isinstance(n.func, ast.Name) and n.func.id == "getattr" and len(n.args) == 2 and not n.keywords and isinstance(n.args[1], ast.Constant) \
                and isinstance(n.args[1].value, str) and n.args[1].value.isidentifier():
            return ast.copy_location(ast.Attribute(value=n.args[0], attr=n.args[1].value, ctx=ast.Load()), n)
        return n


class _SliceCalls(ast.NodeTransformer):
    """x[..., slice(a, b, c)] is x[..., a:b:c] (a slice object in subscript position IS the slice)"""

    @staticmethod
    def _conv(n):
        if isinstance(n, ast.Call) and isinstance(n.func, ast.Name) and n.func.id == "slice" and not n.keywords and 1 <= len(n.args) <= 3 \
                and not any(isinstance(a, ast.Starred) for a in n.args):
            a = [None if (isinstance(x, ast.Constant) and x.value is None) else x for x in n.args]
            if len(a) == 1:
                return ast.Slice(lower=None, upper=a[0], step=None)
            if len(a) == 2:
                return ast.Slice(lower=a[0], upper=a[1], step=None)
            return ast.Slice(lower=a[0], upper=a[1], step=a[2])
        return n

    def visit_Subscript(self, n):
        self.generic_visit(n)
        if isinstance(n.slice, ast.Tuple):
            n.slice.elts = [self._conv(x) for x in n.slice.elts]
        else:
            n.slice = self._conv(n.slice)
        return n


def statements(fn, nested=False) -> List[Tuple[str, ast.AST]]:
    """normalised text of every simple statement of fn (compound statements contribute their headers)"""
    out = []
    it = ast.walk(fn) if nested else walk_no_nested(fn)
    for n in it:
        if n is fn:
            continue
        if isinstance(n, (ast.Assign, ast.AugAssign, ast.AnnAssign, ast.Return, ast.Expr, ast.Raise, ast.Delete, ast.Assert)):
            if isinstance(n, ast.Expr) and isinstance(n.value, ast.Constant) and isinstance(n.value.value, str):
                continue
            out.append((norm(n), n))
        elif isinstance(n, (ast.If, ast.While)):
            out.append(((("if: " if isinstance(n, ast.If) else "while: ") + norm(n.test)), n))
        elif isinstance(n, ast.For):
            out.append((f"for: {norm(n.target)} : {norm(n.iter)}", n))
    return out


def _compile(pattern: str, bound: Dict[str, str]) -> Tuple[re.Pattern, List[str]]:
    np_ = norm(pattern)
    if np_.startswith("for:"):
        tgt, _, it = np_[4:].partition(":")
        np_ = f"for: {tgt} : {it}"
    elif np_.startswith("if:"):
        np_ = "if: " + np_[3:]
    elif np_.startswith("while:"):
        np_ = "while: " + np_[6:]
    parts = re.split(r"(\$[A-Za-z_][A-Za-z_0-9]*)", np_)
    rx, new = "", []
    for p in parts:
        if p.startswith("$"):
            name = p[1:]
            if name in bound:
                rx += r"(?<![A-Za-z_0-9])" + re.escape(bound[name]) + r"(?![A-Za-z_0-9])"
            elif name in new:
                rx += f"(?P={name})"
            else:
                new.append(name)
                # a metavariable stands for a variable: a local name or an attribute path such as self.current_point
                rx += f"(?<![A-Za-z_0-9.])(?P<{name}>{_IDENT}(?:\\.{_IDENT})*?)(?![A-Za-z_0-9])"
        else:
            rx += re.escape(p)
    return re.compile(rx), new


def unify(patterns: Sequence[str], stmts: Sequence[Tuple[str, ast.AST]], bound: Optional[Dict[str, str]] = None,
          distinct: bool = True):
    """Find bindings such that every pattern fully matches some statement. Returns (bindings, matched nodes) or
    (None, index of the first pattern that cannot be matched under any consistent binding)."""
    bound = dict(bound or {})
    best_fail = [0]
    # a parallel assignment `a, b = (x, y)` of independent values is the sequence `a = x; b = y` (sa/canon.py writes it that way in its views):
    # both the patterns and the statements are matched in the split form
    orig_index, split_pats = [], []
    for k, p_ in enumerate(patterns):
        parts = _split_parallel_pattern(p_)
        split_pats.extend(parts)
        orig_index.extend([k] * len(parts))
    patterns = [_flip_pattern(p_) for p_ in split_pats]
    stmts = _flip_stmts(_split_parallel_stmts(stmts))

    def together(a, b_, strict):
        """components of one parallel pattern must come from one source statement (strict) or at least from one block"""
        if a is b_:
            return True
        if strict:
            return getattr(a, "lineno", -1) == getattr(b_, "lineno", -2) and getattr(a, "col_offset", -1) == getattr(b_, "col_offset", -2)
        pa, pb = getattr(a, "_parent", None), getattr(b_, "_parent", None)
        return pa is None or pb is None or pa is pb

    budget = [400000]          # the search is exponential in the worst case: beyond the budget the patterns count as "no consistent match"

    def rec(i, b, used, strict):
        if i == len(patterns):
            return b, used
        budget[0] -= 1
        if budget[0] < 0:
            return None, None
        rx, new = _compile(patterns[i], b)
        for j, (txt, node) in enumerate(stmts):
            m = rx.fullmatch(txt)
            if not m:
                continue
            if i > 0 and orig_index[i - 1] == orig_index[i] and not together(used[-1], node, strict):
                continue
            nb = dict(b)
            ok = True
            for name in new:
                v = m.group(name)
                if distinct and v in nb.values():
                    ok = False
                    break
                nb[name] = v
            if not ok:
                continue
            r = rec(i + 1, nb, used + [node], strict)
            if r[0] is not None:
                return r
        best_fail[0] = max(best_fail[0], i)
        return None, None
    b, used = rec(0, bound, [], True)
    if b is None and len(patterns) != len(set(orig_index)):
        b, used = rec(0, bound, [], False)
    if b is None:
        return None, orig_index[best_fail[0]] if orig_index else 0
    # one matched node per original pattern (callers index `used` by pattern)
    firsts = [used[i] for i in range(len(used)) if i == 0 or orig_index[i] != orig_index[i - 1]]
    return b, firsts


class _FlipGt(ast.NodeTransformer):
    """a > b -> b < a ; a >= b -> b <= a  (the orientation sa/canon.py uses in its views)"""

    def visit_Compare(self, n):
        self.generic_visit(n)
        if len(n.ops) == 1 and isinstance(n.ops[0], (ast.Gt, ast.GtE)):
            return ast.copy_location(ast.Compare(left=n.comparators[0], ops=[ast.Lt() if isinstance(n.ops[0], ast.Gt) else ast.LtE()], comparators=[n.left]), n)
        return n


def _flip_pattern(p_: str) -> str:
    if ">" not in p_:
        return p_
    head = ""
    body = p_
    for h in ("if:", "while:"):
        if p_.strip().startswith(h):
            head, body = h + " ", p_.strip()[len(h):]
    try:
        t = ast.parse(body.replace("$", "__mv_").strip(), mode="eval" if head else "exec")
    except SyntaxError:
        return p_
    return head + ast.unparse(_FlipGt().visit(t)).replace("__mv_", "$")


def _flip_stmts(stmts):
    import copy
    out = []
    for txt, n in stmts:
        if ">" in txt and isinstance(n, ast.AST):
            try:
                if isinstance(n, (ast.If, ast.While)) and txt.startswith(("if: ", "while: ")):
                    txt = txt.split(": ", 1)[0] + ": " + norm(_FlipGt().visit(copy.deepcopy(n.test)))
                elif isinstance(n, ast.stmt) and not isinstance(n, (ast.If, ast.While, ast.For)) and txt == norm(n):
                    txt = norm(_FlipGt().visit(copy.deepcopy(n)))
            except Exception:
                pass
        out.append((txt, n))
    return out


def _split_parallel_pattern(p_: str) -> List[str]:
    if "," not in p_ or "=" not in p_:
        return [p_]
    try:
        t = ast.parse(p_.replace("$", "__mv_").strip()).body
    except SyntaxError:
        return [p_]
    if len(t) == 1 and isinstance(t[0], ast.Assign) and len(t[0].targets) == 1 and isinstance(t[0].targets[0], ast.Tuple) and isinstance(t[0].value, ast.Tuple) \
            and len(t[0].targets[0].elts) == len(t[0].value.elts) and all(isinstance(x, ast.Name) for x in t[0].targets[0].elts):
        return [f"{ast.unparse(a)}={ast.unparse(v)}".replace("__mv_", "$") for a, v in zip(t[0].targets[0].elts, t[0].value.elts)]
    return [p_]


def _split_parallel_stmts(stmts):
    out = []
    for txt, n in stmts:
        if isinstance(n, ast.Assign) and len(n.targets) == 1 and isinstance(n.targets[0], ast.Tuple) and isinstance(n.value, ast.Tuple) \
                and len(n.targets[0].elts) == len(n.value.elts) and all(isinstance(x, ast.Name) for x in n.targets[0].elts) \
                and txt == norm(n):
            tn = {x.id for x in n.targets[0].elts}
            if len(tn) == len(n.targets[0].elts) and not any(isinstance(x, ast.Name) and x.id in tn for v in n.value.elts for x in ast.walk(v)) \
                    and not any(isinstance(x, ast.Call) for v in n.value.elts for x in ast.walk(v)):
                for a, v in zip(n.targets[0].elts, n.value.elts):
                    out.append((f"{norm(a)}={norm(v)}", n))
                continue
        out.append((txt, n))
    return out


def find(pattern: str, stmts, bound=None):
    """all (bindings, node) for statements matching one pattern"""
    out = []
    rx, new = _compile(pattern, dict(bound or {}))
    for txt, node in stmts:
        m = rx.fullmatch(txt)
        if m:
            out.append(({**(bound or {}), **{n: m.group(n) for n in new}}, node))
    return out
