"""Point/cache coherence of the stateful samplers: the state keys `current_<what>_logd` / `current_<what>_grad` memoise the target (or
likelihood) at `current_point`. Every write to one of them must therefore either
  (a) evaluate at `self.current_point` itself (first positional argument of the evaluating call), or
  (b) be paired, in the same statement block, with the write of `self.current_point`, and - where the local's definition is visible in the
      same function - be the evaluation of exactly the local that becomes the current point, or
  (c) be a re-representation of its own value (`x = x.to_numpy()`).
A write that evaluates at another point (initial_point, a proposal that is not adopted, ...) leaves a cache that belongs to a different
state: the next accept test / first half-kick uses the wrong energy although every later transition looks locally correct."""
from __future__ import annotations
import ast
import re
from typing import List, Optional

from .index import Repo, AnchorError, parents
from .cfg import CFG, ReachingDefs, path_of
from .astutil import unparse, call_name

CACHE_RE = re.compile(r"^self\.current_[a-z]+_(logd|grad)$")
POINT = "self.current_point"
# cache kind -> the evaluations that may fill it
WHICH = {
    "target_logd": re.compile(r"(^|\.)(target\.logd|target\.logpdf|_nuts_target|posterior\.logd)$"),
    "target_grad": re.compile(r"(^|\.)(target\.gradient|_nuts_target|posterior\.gradient)$"),
    "likelihood_logd": re.compile(r"(^|\.)(_loglikelihood|likelihood\.logd|likelihood\.logpdf)$"),
}


def _strip_copy(e):
    while True:
        if isinstance(e, ast.Call) and (call_name(e) or "").rsplit(".", 1)[-1] in ("copy", "array", "asarray") and len(e.args) == 1:
            e = e.args[0]
        elif isinstance(e, ast.Call) and isinstance(e.func, ast.Attribute) and e.func.attr in ("copy", "to_numpy", "flatten", "ravel") and not e.args:
            e = e.func.value
        else:
            return e


def _block_of(stmt):
    p = getattr(stmt, "_parent", None)
    for fld in ("body", "orelse", "finalbody"):
        b = getattr(p, fld, None)
        if isinstance(b, list) and stmt in b:
            return b
    return []


def cache_point_rule(chk, repo: Repo, rule: str, classes) -> int:
    from .props.common import site
    n = 0
    for ci in classes:
        for kind, name, fn in ci.all_functions():
            writes = []
            for s in ast.walk(fn):
                if not isinstance(s, ast.Assign) or len(s.targets) != 1:
                    continue
                t = s.targets[0]
                elts = t.elts if isinstance(t, ast.Tuple) else [t]
                for i, e in enumerate(elts):
                    p = path_of(e)
                    if p and CACHE_RE.match(p):
                        v = s.value
                        if isinstance(t, ast.Tuple) and isinstance(v, ast.Tuple) and len(v.elts) == len(elts):
                            v = v.elts[i]
                        writes.append((s, p, v))
            if not writes:
                continue
            g = rd = None
            for s, p, v in writes:
                n += 1
                inst = f"{ci.qual}.{name}/{p.split('.', 1)[1]}@{unparse(v)[:40]}"
                core = _strip_copy(v)
                # (c) re-representation of itself
                if path_of(core) == p:
                    chk.ok(rule, inst, site(repo, s), "re-representation of the cached value itself")
                    continue
                if g is None:
                    g = CFG(fn)
                    rd = ReachingDefs(g)
                node = g.node_of(s)

                def alias_of_point(name):
                    """a local bound (on every reaching definition) to self.current_point or a copy of it"""
                    ds = [g.nodes[i] for i in rd.reaching(node, name) if i != g.entry.id]
                    return bool(ds) and all(isinstance(d.ast, ast.Assign) and path_of(d.ast.targets[0]) == name and path_of(_strip_copy(d.ast.value)) == POINT for d in ds)

                # where was the stored value evaluated?  directly `f(point, ...)`, or a local bound by `x[, y] = f(point, ...)`
                evals: Optional[List[Optional[str]]] = None
                if isinstance(core, ast.Call) and core.args:
                    evals = [path_of(core.args[0])]
                elif isinstance(core, ast.Name):
                    defs = [g.nodes[i] for i in rd.reaching(node, core.id) if i != g.entry.id]
                    found = []
                    for d in defs:
                        a = d.ast
                        if isinstance(a, ast.Assign) and isinstance(a.value, ast.Call) and a.value.args and len(a.targets) == 1:
                            tg = a.targets[0]
                            names = [x.id for x in (tg.elts if isinstance(tg, ast.Tuple) else [tg]) if isinstance(x, ast.Name)]
                            cn = call_name(a.value) or ""
                            if core.id in names and re.search(r"(logd|gradient|_nuts_target|_loglikelihood|logpdf)$", cn):
                                found.append(path_of(a.value.args[0]))
                                continue
                        found = None
                        break
                    if found:
                        evals = found
                # which function filled the cache?  (the likelihood-only cache of pCN is not the target's log-density, a gradient cache not a log-density)
                callees = []
                if isinstance(core, ast.Call) and core.args:
                    callees = [call_name(core) or ""]
                elif isinstance(core, ast.Name) and evals is not None:
                    callees = [call_name(g.nodes[i].ast.value) or "" for i in rd.reaching(node, core.id) if i != g.entry.id]
                kind_ = p.split("current_", 1)[1]
                want = WHICH.get(kind_)
                wrong = [c_ for c_ in callees if want is not None and c_ and not want.search(c_)]
                if wrong:
                    chk.fail(rule, inst + "/function", site(repo, s),
                             f"`{unparse(s)[:90]}` fills the cache `{p}` with `{wrong[0]}(...)`: that is not the quantity this cache memoises "
                             f"({want.pattern}); the next acceptance ratio compares it with a freshly evaluated value of the right quantity, i.e. every transition until "
                             f"the first acceptance uses a wrong ratio", s)
                    continue
                if evals is not None:
                    evals = [POINT if (e and "." not in e and alias_of_point(e)) else e for e in evals]
                    if all(e == POINT for e in evals):
                        chk.ok(rule, inst, site(repo, s), f"`{unparse(v)[:50]}` is the evaluation at self.current_point")
                        continue
                    other = [e for e in evals if e != POINT]
                    blk = _block_of(s)
                    adopted = [b for b in blk if isinstance(b, ast.Assign) and path_of(b.targets[0]) == POINT and other[0] and path_of(_strip_copy(b.value)) == other[0]]
                    ok = bool(adopted) and len(set(other)) == 1 and len(other) == len(evals)
                    chk.add(rule, inst, ok, site(repo, s), f"evaluated at `{other[0]}`, which the same block adopts as current point",
                            f"`{unparse(s)[:90]}` stores the evaluation at `{other[0]}` in the cache that memoises the target at "
                            f"self.current_point, and that point is not adopted as current point here: whenever the two differ (a restarted warm-up, a "
                            f"continued run) the next transition starts from an energy / gradient that belongs to another state", s)
                    continue
                # (b) a value whose evaluation is not visible here: paired with the point write in the same block
                blk = _block_of(s)
                pw = [b for b in blk if isinstance(b, ast.Assign) and path_of(b.targets[0]) == POINT]
                if not pw:
                    chk.fail(rule, inst, site(repo, s), f"`{unparse(s)[:80]}` updates the cache without the current point being updated in the same block "
                             f"(point and cache can drift apart)", s)
                    continue
                chk.ok(rule, inst, site(repo, s), "paired with the write of self.current_point in the same block")
    return n


ROOT_METHODS = ("initialize", "reinitialize", "step", "tune", "set_state", "load_checkpoint", "warmup", "sample", "__init__")


def point_writers_rule(chk, repo: Repo, rule: str, classes) -> int:
    """Who may move the chain: `self.current_point` is written only by the transition, the (re)initialisation and the state restore - the methods reachable
    by self-calls from initialize / reinitialize / step / tune / set_state / load_checkpoint / warmup / sample - because those are the places that keep the
    cached evaluations (current_*_logd / current_*_grad) in step with it.  A property setter or other method that moves current_point on its own leaves the
    caches at the previous point."""
    from .props.common import site
    n = 0
    seen_fn = set()
    for ci in classes:
        # closure of self-method calls from the root methods, over the MRO
        names, work = set(), list(ROOT_METHODS)
        while work:
            m = work.pop()
            if m in names:
                continue
            names.add(m)
            for c in ci.mro():
                fn = c.methods.get(m)
                if fn is None:
                    continue
                for x in ast.walk(fn):
                    if isinstance(x, ast.Call) and isinstance(x.func, ast.Attribute):
                        recv = x.func.value
                        if (isinstance(recv, ast.Name) and recv.id == "self") or (isinstance(recv, ast.Call) and call_name(recv) == "super"):
                            work.append(x.func.attr)
        for c in ci.mro():
            for kind, name, fn in c.all_functions():
                if id(fn) in seen_fn:
                    continue
                writes = [s_ for s_ in ast.walk(fn) if isinstance(s_, (ast.Assign, ast.AugAssign)) and any(
                    path_of(t) == POINT for T in (s_.targets if isinstance(s_, ast.Assign) else [s_.target]) for t in (T.elts if isinstance(T, (ast.Tuple, ast.List)) else [T]))]
                if not writes:
                    continue
                seen_fn.add(id(fn))
                n += 1
                allowed = (kind not in ("setter", "getter") and name in names) or (kind == "setter" and name == "current_point")
                label = f"{c.qual}.{'@' if kind in ('getter', 'setter') else ''}{name}{'=' if kind == 'setter' else ''}"
                chk.add(rule, f"{label}/moves-current_point", allowed, site(repo, writes[0]), "current_point is written by the transition / (re)initialisation / state restore",
                        f"`{unparse(writes[0])[:70]}` in {label} moves the chain outside the transition, the (re)initialisation and the state restore: the cached "
                        f"log-density / gradient stay at the previous point, so the next acceptance ratio (or first half-kick) is computed from a stale energy", writes[0])
    return n
