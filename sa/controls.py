"""Positive controls: tiny synthetic modules on which the core analyses must fire (checked by --selfcheck)."""
from __future__ import annotations
import ast
from .cfg import CFG, ReachingDefs
from .alias import FnAlias
from .index import _set_parents

CONTROL_SRC = '''
def kernel(x_t, a):
    y = x_t
    if a:
        y[0] = 1
    z = x_t.copy()
    z[1] = 2
    return y

def guarded(u, alpha, L):
    acc = 0
    if u <= alpha and not isnan(L):
        acc = 1
    return acc

def unguarded(u, alpha, L):
    acc = 0
    if u <= alpha:
        acc = 1
    return acc

def falls(x):
    if x:
        return 1
    warn("nothing")
'''


def run_controls() -> int:
    tree = ast.parse(CONTROL_SRC)
    _set_parents(tree)
    fns = {f.name: f for f in tree.body}
    bad = 0
    fa = FnAlias(fns["kernel"])
    roots = {(r, n.lineno) for r, n, a, k in fa.mutated_roots()}
    if ("param:x_t", 5) not in roots or any(r == "param:x_t" and l == 7 for r, l in roots):
        print("CONTROL FAILED: alias analysis", roots); bad += 1
    for name, expect in (("guarded", True), ("unguarded", False)):
        g = CFG(fns[name])
        acc = [n for n in g.nodes if n.ast is not None and ast.unparse(n.ast) == "acc = 1"][0]
        has = any("isnan" in ast.unparse(t.ast) and lab == "F" for t, lab in g.guards_of(acc))
        if has != expect:
            print("CONTROL FAILED: guard analysis", name); bad += 1
    g = CFG(fns["falls"])
    if not g.falls_off_end:
        print("CONTROL FAILED: fall-through"); bad += 1
    print(f"controls: {4 - bad}/4 fired as expected")
    return 0 if bad == 0 else 2
