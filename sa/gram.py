"""Two rules over the Gaussian family's matrix square roots (cuqi/distribution/_gaussian.py).

gram_orientation  The log-density is -0.5*||sqrtprec @ (x - mean)||^2, so the precision IS sqrtprec.T @ sqrtprec and the covariance is
                  sqrtcov @ sqrtcov.T with sqrtcov = inv(sqrtprec). For the triangular (Cholesky) and eigenvector square roots the code stores,
                  S S^T != S^T S, so every product of a square root with its own transpose is classified by orientation and compared with the
                  convention of its role. A product in the other orientation is accepted only where it provably feeds orientation-free sinks
                  (determinant, rank, eigenvalues: det(S S^T) = det(S^T S)), established by def-use.
exact_shortcuts   Branches that drop entries of a matrix (diagonal / triangular fast paths) must be selected by an exact structural test.
                  A tolerance comparator (allclose / isclose) has an absolute threshold (1e-8) and is therefore not invariant under a change of
                  units: the same law expressed with small numbers takes the shortcut and silently loses its correlations.
"""
from __future__ import annotations
import ast
from typing import Dict, List, Optional, Set, Tuple

from .index import Repo, AnchorError, parents
from .cfg import CFG, ReachingDefs, path_of, reads_in
from .astutil import unparse, call_name, func_params, walk_no_nested, is_raise_only

GA = "cuqi/distribution/_gaussian.py"
ROLE_OF_NAME = {"sqrtprec": "sqrtprec", "self.sqrtprec": "sqrtprec", "self._sqrtprec": "sqrtprec",
                "sqrtcov": "sqrtcov", "self.sqrtcov": "sqrtcov", "self._sqrtcov": "sqrtcov"}
FLIP = {"sqrtprec": "sqrtcov", "sqrtcov": "sqrtprec"}
INVERSES = {"inv", "pinv"}
# orientation-free consumers of a Gram matrix
FREE_CALLS = {"det", "slogdet", "matrix_rank", "structural_rank", "eigvalsh", "logdet"}
TOLERANT = {"allclose", "isclose"}
STRUCTURE = {"diag", "tril", "triu", "diagonal", "diags"}


def _strip_T(e: ast.expr) -> Tuple[ast.expr, bool]:
    if isinstance(e, ast.Attribute) and e.attr == "T":
        return e.value, True
    if isinstance(e, ast.Call) and isinstance(e.func, ast.Attribute) and e.func.attr == "transpose" and not e.args:
        return e.func.value, True
    return e, False


class _Roles:
    """role (sqrtprec / sqrtcov) of an expression inside one function: by field/parameter name, or one def-use step through a local
    (x = self.sqrtprec; x = inv(sqrtprec) flips the role)."""

    def __init__(self, fn):
        self.fn = fn
        self.g = CFG(fn)
        self.rd = ReachingDefs(self.g)

    def role(self, e: ast.expr, at, depth=0) -> Optional[str]:
        p = path_of(e)
        if p in ROLE_OF_NAME and (("." in p) or depth > 0 or not self._local_defs(p, at)):
            return ROLE_OF_NAME[p]
        if isinstance(e, ast.Call):
            nm = e.func.attr if isinstance(e.func, ast.Attribute) else (call_name(e) or "")
            if nm in INVERSES and e.args:
                r = self.role(e.args[0], at, depth + 1)
                return FLIP.get(r)
            if nm in ("todense", "toarray", "copy", "asarray", "array", "tocsc", "tocsr", "tolil", "tocoo", "csc_matrix", "csr_matrix"):
                inner = e.func.value if isinstance(e.func, ast.Attribute) and not e.args else (e.args[0] if e.args else None)
                return self.role(inner, at, depth + 1) if inner is not None else None
            return None
        if isinstance(e, ast.Name) and depth < 3:
            defs = self._local_defs(e.id, at)
            roles = set()
            for d in defs:
                a = d.ast
                if isinstance(a, ast.Assign) and len(a.targets) == 1 and isinstance(a.targets[0], ast.Name):
                    roles.add(self.role(a.value, d, depth + 1))
                else:
                    roles.add(None)
            if len(roles) == 1:
                r = roles.pop()
                if r is not None:
                    return r
            if e.id in ROLE_OF_NAME and not roles - {None}:
                return ROLE_OF_NAME[e.id]          # conventionally named local built by a decomposition
        return None

    def _local_defs(self, name, at):
        if at is None:
            return []
        ids = self.rd.reaching(at, name)
        return [self.g.nodes[i] for i in ids if i != self.g.entry.id]


def _gram_sites(fn):
    """(node, left, right, applied_to) for S.T @ S, S @ S.T and the applied forms A @ (B @ v), (A @ B) @ v."""
    out = []
    for b in walk_no_nested(fn):
        if not (isinstance(b, ast.BinOp) and isinstance(b.op, ast.MatMult)):
            continue
        l, r = b.left, b.right
        if isinstance(r, ast.BinOp) and isinstance(r.op, ast.MatMult):
            out.append((b, l, r.left, True))          # A @ (B @ v)
        out.append((b, l, r, False))
    return out


def gram_orientation(chk, repo: Repo, rule: str, only: Optional[Set[str]] = None, floor_note=None) -> int:
    from .props.common import site
    fns = []
    ga = repo.cls(f"{GA}:Gaussian")
    for kind, name, fn in ga.all_functions():
        fns.append((f"Gaussian.{name}" + ("=" if kind == "setter" else ""), fn))
    for helper in ("get_sqrtprec_from_cov", "get_sqrtprec_from_prec", "get_sqrtprec_from_sqrtcov", "get_sqrtprec_from_sqrtprec"):
        fns.append((helper, repo.func(f"{GA}:{helper}")))
    count = 0
    for label, fn in fns:
        if only is not None and label not in only:
            continue
        roles = None
        seen = set()
        occ: Dict[str, int] = {}
        for b, l, r, applied in _gram_sites(fn):
            lb, lt = _strip_T(l)
            rb, rt = _strip_T(r)
            if lt == rt:
                continue
            if roles is None:
                roles = _Roles(fn)
            at = roles.g.stmt_node_containing(b)
            rl, rr = roles.role(lb, at), roles.role(rb, at)
            if rl is None or rl != rr:
                continue
            if path_of(lb) != path_of(rb) and not (path_of(lb) or "").lstrip("self._") == (path_of(rb) or "").lstrip("self._"):
                continue
            key = (b.lineno, b.col_offset, applied)
            if key in seen:
                continue
            seen.add(key)
            t_first = lt                      # S.T @ S
            want_t_first = rl == "sqrtprec"   # prec = S.T @ S ; cov = C @ C.T
            base = f"{GA}:{label}/gram@{unparse(l)}@{unparse(r)}" + ("(applied)" if applied else "")
            occ[base] = occ.get(base, 0) + 1
            inst = base + (f"#{occ[base]}" if occ[base] > 1 else "")
            count += 1
            if t_first == want_t_first:
                chk.ok(rule, inst, site(repo, b), f"{rl}: {'S.T @ S' if want_t_first else 'S @ S.T'} orientation")
                continue
            why = _orientation_free(roles, fn, b) if not applied else "it is applied to a vector"
            if why is None:
                chk.ok(rule, inst, site(repo, b), "other orientation, but only determinant / rank / eigenvalues are taken from it (orientation-free)")
            else:
                chk.fail(rule, inst, site(repo, b),
                         f"`{unparse(b)[:70]}`: the log-density is -0.5*||sqrtprec @ (x - mean)||^2, so the precision is sqrtprec.T @ sqrtprec and the "
                         f"covariance sqrtcov @ sqrtcov.T; this product has the other orientation (S S^T != S^T S for the triangular / eigenvector "
                         f"square roots that are stored) and {why}", b)
    return count


def same_orientation_application(chk, repo: Repo, rule: str) -> int:
    """A square root applied twice in the SAME orientation, S @ (S @ v) or S.T @ (S.T @ v) (also through a single-use temporary: w = S @ v; S @ w), is
    neither the precision S.T S nor the covariance S S.T applied to v; it coincides with them only for symmetric square roots (diagonal, scalar).
    Decided on the views with temporaries substituted.  Returns the number of applied Gram products inspected."""
    from .props.common import site, canon_fn
    ga = repo.cls(f"{GA}:Gaussian")
    count = 0
    for kind, name, src in ga.all_functions():
        try:
            fn = canon_fn(repo, ga, src, 4)
        except Exception:
            fn = src
        roles = None
        for b, l, r, applied in _gram_sites(fn):
            if not applied:
                continue
            lb, lt = _strip_T(l)
            rb, rt = _strip_T(r)
            if roles is None:
                roles = _Roles(fn)
            at = roles.g.stmt_node_containing(b)
            rl, rr = roles.role(lb, at), roles.role(rb, at)
            if rl is None or rl != rr:
                continue
            count += 1
            label = f"Gaussian.{name}" + ("=" if kind == "setter" else "")
            chk.add(rule, f"{GA}:{label}/applied@{unparse(l)}@{unparse(r)}", lt != rt, site(repo, src),
                    "the square root and its transpose are applied (a Gram product)",
                    f"`{unparse(b)[:70]}` applies the {rl} twice in the same orientation: S S v is neither the precision S^T S nor the covariance S S^T applied to v; "
                    f"it agrees with them only for symmetric (diagonal / scalar) square roots, so the gradient of a Gaussian with correlated noise disagrees with its log-density", src)
    return count


def _orientation_free(roles: _Roles, fn, b: ast.BinOp) -> Optional[str]:
    """None if the Gram matrix `b` only reaches orientation-free sinks, else a reason."""
    par = getattr(b, "_parent", None)
    if not (isinstance(par, ast.Assign) and len(par.targets) == 1 and isinstance(par.targets[0], ast.Name) and par.value is b):
        if isinstance(par, ast.Call) and (call_name(par) or "").rsplit(".", 1)[-1] in FREE_CALLS:
            return None
        return "its value is used directly"
    return _uses_free(roles, par, par.targets[0].id, 0)


def _uses_free(roles: _Roles, assign, name: str, depth: int) -> Optional[str]:
    g, rd = roles.g, roles.rd
    dn = g.node_of(assign)
    for n in g.nodes:
        a = n.ast
        if a is None or n.kind not in ("stmt", "test", "return") and not isinstance(a, ast.AST):
            continue
        if n is dn or a is None:
            continue
        root = a
        if isinstance(a, (ast.For, ast.While, ast.If, ast.With, ast.Try, ast.FunctionDef)):
            continue
        if name not in {x.id for x in ast.walk(root) if isinstance(x, ast.Name) and isinstance(x.ctx, ast.Load)}:
            continue
        if dn.id not in rd.reaching(n, name):
            continue
        for x in ast.walk(root):
            if not (isinstance(x, ast.Name) and x.id == name and isinstance(x.ctx, ast.Load)):
                continue
            p = getattr(x, "_parent", None)
            if isinstance(p, ast.Call) and x in p.args:
                cn = (call_name(p) or "").rsplit(".", 1)[-1]
                if cn in FREE_CALLS:
                    continue
                if cn == "eigh":
                    pp = getattr(p, "_parent", None)
                    if isinstance(pp, ast.Assign) and isinstance(pp.targets[0], ast.Tuple) and len(pp.targets[0].elts) == 2 \
                            and isinstance(pp.targets[0].elts[1], ast.Name) and pp.targets[0].elts[1].id == "_":
                        continue
                    return f"`{unparse(p)[:50]}` keeps the eigenvectors of it"
                if cn == "cholesky" and depth < 2:
                    pp = getattr(p, "_parent", None)
                    if isinstance(pp, ast.Assign) and isinstance(pp.targets[0], ast.Name):
                        fac = pp.targets[0].id
                        bad = _factor_uses(roles, pp, fac)
                        if bad is None:
                            continue
                        return bad
                    return f"`{unparse(p)[:50]}` factorises it"
                return f"it flows into `{unparse(p)[:50]}`"
            if isinstance(p, ast.Attribute) and p.attr in ("shape", "dtype", "ndim"):
                continue
            if isinstance(root, ast.Return) or isinstance(p, (ast.Return, ast.Tuple)):
                return f"it is returned (`{unparse(root)[:50]}`)"
            return f"it is used in `{unparse(root)[:50]}`"
    return None


def _factor_uses(roles: _Roles, assign, fac: str) -> Optional[str]:
    g, rd = roles.g, roles.rd
    dn = g.node_of(assign)
    for n in g.nodes:
        a = n.ast
        if a is None or n is dn or isinstance(a, (ast.For, ast.While, ast.If, ast.With, ast.Try, ast.FunctionDef)):
            continue
        for x in ast.walk(a):
            if isinstance(x, ast.Name) and x.id == fac and isinstance(x.ctx, ast.Load) and dn.id in rd.reaching(n, fac):
                p = getattr(x, "_parent", None)
                pp = getattr(p, "_parent", None)
                if isinstance(p, ast.Attribute) and p.attr == "logdet" and isinstance(pp, ast.Call):
                    continue
                return f"its Cholesky factor is used beyond its log-determinant (`{unparse(a)[:50]}`)"
    return None


def exact_shortcuts(chk, repo: Repo, rule: str, only_methods: Optional[bool] = None) -> int:
    """Every `if` of _gaussian.py whose test inspects the matrix structure (np.diag / tril / triu / .diagonal()) selects a fast path that
    drops entries; its test must not contain a tolerance comparator. Tolerance tests are accepted for validation (raise-only bodies)."""
    from .props.common import site
    ga = repo.cls(f"{GA}:Gaussian")
    fns = []
    for kind, name, fn in ga.all_functions():
        fns.append((f"Gaussian.{name}", fn, True))
    for helper in ("get_sqrtprec_from_cov", "get_sqrtprec_from_prec", "get_sqrtprec_from_sqrtcov", "get_sqrtprec_from_sqrtprec"):
        fns.append((helper, repo.func(f"{GA}:{helper}"), False))
    count = 0
    for label, fn, is_method in fns:
        if only_methods is not None and only_methods != is_method:
            continue
        k = 0
        for s in walk_no_nested(fn):
            if not isinstance(s, ast.If):
                continue
            calls = [(call_name(c) or "").rsplit(".", 1)[-1] for c in ast.walk(s.test) if isinstance(c, ast.Call)]
            structural = any(c in STRUCTURE for c in calls)
            tolerant = [c for c in calls if c in TOLERANT]
            if not structural and not tolerant:
                continue
            if is_raise_only(s.body):
                continue            # validation, not a shortcut
            k += 1
            count += 1
            inst = f"{GA}:{label}/shortcut#{k}"
            chk.add(rule, inst, not tolerant, site(repo, s), f"`{unparse(s.test)[:60]}` is an exact structural test",
                    f"`{unparse(s.test)[:80]}` selects a fast path that discards matrix entries with a tolerance comparator ({', '.join(tolerant)}: "
                    f"absolute threshold 1e-8); a law expressed in units where the discarded entries are below that threshold is evaluated "
                    f"as if they were zero, while the same law in other units is not", s)
    return count
