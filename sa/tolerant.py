"""Tolerance-selected shortcuts: an `if` (or conditional expression) whose test calls a tolerance comparator (np.allclose / np.isclose / math.isclose /
pytest.approx-like helpers) and whose taken branch is not a refusal decides WHICH VALUE a routine returns by an absolute/relative threshold: two
nearby but different inputs (small physical units, a slowly moving chain) get the same output, the cached result of a "nearly equal" earlier call is
reused, ...  Validation (`if not np.allclose(A, A.T): raise`) is not a shortcut and is accepted.  Zero hits are expected in the scanned layers; a
positive control must fire on every run."""
from __future__ import annotations
import ast
from typing import List

from .astutil import call_name, unparse

TOLERANT = {"allclose", "isclose", "assert_allclose", "approx"}


def _raise_only(body) -> bool:
    return bool(body) and all(isinstance(s, (ast.Raise, ast.Pass)) or (isinstance(s, ast.Expr) and isinstance(s.value, ast.Constant)) or
                              (isinstance(s, ast.Expr) and isinstance(s.value, ast.Call) and (call_name(s.value) or "").rsplit(".", 1)[-1] in ("warn", "warning", "print"))
                              for s in body) and any(isinstance(s, ast.Raise) or isinstance(s, ast.Expr) for s in body)


def scan(tree) -> List[ast.AST]:
    out = []
    for n in ast.walk(tree):
        if isinstance(n, ast.If):
            tol = [c for c in ast.walk(n.test) if isinstance(c, ast.Call) and (call_name(c) or "").rsplit(".", 1)[-1] in TOLERANT]
            if not tol:
                continue
            # a refusal on either side (`if not close: raise` / `if close: pass else: raise`) is validation
            if _raise_only(n.body) or (n.orelse and _raise_only(n.orelse)):
                continue
            out.append(n)
        elif isinstance(n, ast.IfExp):
            if any(isinstance(c, ast.Call) and (call_name(c) or "").rsplit(".", 1)[-1] in TOLERANT for c in ast.walk(n.test)):
                out.append(n)
    return out


_CONTROL = '''
def apply(self, items):
    previous = None
    for item in items:
        if previous is not None and np.allclose(item, previous):
            out = last
        else:
            out = self.f(item)
        previous = item
    if not np.allclose(A, A.T):
        raise ValueError("not symmetric")
    w = 1.0 if np.isclose(a, b) else 0.0
    return out
'''


def tolerant_shortcut_rule(chk, repo, rule: str, prefixes, table=None) -> int:
    """table: {(rel, normalised test text): reason} for confirmed tolerance tests that are part of a definition (not a shortcut)"""
    from .index import AnchorError
    hits = scan(ast.parse(_CONTROL))
    if sorted(h.lineno for h in hits) != [5, 12]:
        raise AnchorError(f"tolerant-shortcut positive control did not fire as expected: {[h.lineno for h in hits]}")
    table = table or {}
    n = 0
    for rel in sorted(repo.modules):
        if not rel.startswith(tuple(prefixes)):
            continue
        m = repo.modules[rel]
        repo.consulted[rel] = m.digest
        n += 1
        found = scan(m.tree)
        bad = 0
        for h in found:
            key = (rel, unparse(h.test).replace(" ", ""))
            if key in table:
                chk.ok(rule, f"{rel}/tolerance@{key[1][:40]}", f"{rel}:{h.lineno}", f"tabled: {table[key]}")
                continue
            bad += 1
            chk.fail(rule, f"{rel}/tolerant-shortcut@{key[1][:40]}", f"{rel}:{h.lineno}",
                     f"`{unparse(h.test)[:80]}` selects by a tolerance which value is computed / reused: inputs that differ by less than the threshold (small units, "
                     f"a slowly moving chain of samples) are mapped to the same output, so the routine is no longer a function of its argument (for a linear "
                     f"operator: no longer linear)", h)
        if not bad:
            chk.ok(rule, f"{rel}/tolerant-shortcuts", f"{rel}:1", "no computation path is selected by a tolerance comparator")
    return n
