"""Scale degree of the Gaussian helpers' results.  If the input quantity (covariance, precision, square-root covariance, square-root precision) is
multiplied by c**k (k = 2, -2, 1, -1 respectively, c the standard deviation's unit), the returned square-root precision must scale with c**-1 and the
returned precision with c**-2 - whatever branch (scalar, vector, diagonal, sparse, dense, eigen-decomposition) produced them.  The degree of a closed-form
expression is computed by abstract evaluation: sqrt halves, 1/x negates, products add, diag / ravel / transpose / indexing keep it, Cholesky halves,
inverse negates, eigenvalues keep the matrix's degree, eigenvectors have degree 0.  A result whose degree is computable and differs from the expected one
is a unit slip (sqrt(1/std), sqrt(1/eigenvalue) in the precision helper, ...).  Unknown constructs give no verdict (None) and are counted."""
from __future__ import annotations
import ast
from fractions import Fraction
from typing import Dict, Optional

from .astutil import call_name
from .cfg import path_of

KEEP_CALLS = {"diag", "diags", "array", "asarray", "asmatrix", "diagonal", "ravel", "flatten", "todense", "toarray", "tocsr", "tocsc", "copy", "transpose",
              "abs", "real", "csr_matrix", "csc_matrix", "squeeze", "reshape", "triu", "tril"}
ZERO_CALLS = {"identity", "eye", "ones", "sign", "len", "size", "float", "int"}
INV_CALLS = {"inv", "pinv"}
CHOL_CALLS = {"cholesky", "sparse_cholesky", "sqrtm"}
MIXED = "mixed"


def degree(e, env: Dict[str, Fraction]):
    """Fraction | None (unknown) | MIXED (a sum of terms of different degree)"""
    if isinstance(e, ast.Constant):
        return Fraction(0) if isinstance(e.value, (int, float)) else None
    if isinstance(e, ast.Name):
        return env.get(e.id, Fraction(0) if e.id in ("dim", "N", "n") else None)
    if isinstance(e, ast.UnaryOp):
        return degree(e.operand, env)
    if isinstance(e, ast.Attribute):
        if e.attr in ("T", "real", "data", "A"):
            return degree(e.value, env)
        return None
    if isinstance(e, ast.Subscript):
        v = e.value
        if isinstance(v, ast.Call) and (call_name(v) or "").rsplit(".", 1)[-1] in ("eigh", "eig", "eigsh") and isinstance(e.slice, ast.Constant):
            d = degree(v.args[0], env) if v.args else None
            return d if e.slice.value == 0 else Fraction(0)
        return degree(v, env)
    if isinstance(e, ast.IfExp):
        a, b = degree(e.body, env), degree(e.orelse, env)
        za = isinstance(e.body, ast.Constant) and e.body.value == 0
        zb = isinstance(e.orelse, ast.Constant) and e.orelse.value == 0
        if za:
            return b
        if zb:
            return a
        return a if a == b else (MIXED if a is not None and b is not None else None)
    if isinstance(e, (ast.ListComp, ast.GeneratorExp)) and len(e.generators) == 1 and isinstance(e.generators[0].target, ast.Name):
        inner = dict(env)
        inner[e.generators[0].target.id] = degree(e.generators[0].iter, env)
        if inner[e.generators[0].target.id] is None:
            return None
        return degree(e.elt, inner)
    if isinstance(e, ast.BinOp):
        a, b = degree(e.left, env), degree(e.right, env)
        if isinstance(e.op, ast.Pow):
            k = e.right
            kv = None
            if isinstance(k, ast.Constant) and isinstance(k.value, (int, float)):
                kv = Fraction(k.value).limit_denominator(16)
            elif isinstance(k, ast.UnaryOp) and isinstance(k.op, ast.USub) and isinstance(k.operand, ast.Constant):
                kv = -Fraction(k.operand.value).limit_denominator(16)
            return a * kv if (isinstance(a, Fraction) and kv is not None) else (a if a == MIXED else None)
        if a == MIXED or b == MIXED:
            return MIXED
        if a is None or b is None:
            return None
        if isinstance(e.op, (ast.Mult, ast.MatMult)):
            return a + b
        if isinstance(e.op, ast.Div):
            return a - b
        if isinstance(e.op, (ast.Add, ast.Sub)):
            return a if a == b else MIXED
        return None
    if isinstance(e, ast.Call):
        cn = (call_name(e) or "")
        last = cn.rsplit(".", 1)[-1] if cn else (e.func.attr if isinstance(e.func, ast.Attribute) else "")
        if isinstance(e.func, ast.Attribute) and not cn:
            last = e.func.attr
        recv = e.func.value if isinstance(e.func, ast.Attribute) else None
        is_lib = recv is not None and path_of(recv) in ("np", "numpy", "spa", "sp", "sp.sparse", "scipy.sparse", "nplinalg", "np.linalg", "splinalg", "sp.linalg",
                                                        "spa.linalg", "scipy.linalg", "skchol", "LA")
        arg0 = e.args[0] if e.args else None
        subject = arg0 if (is_lib or recv is None) else recv          # np.f(x) / f(x)  vs  x.f()
        if cn.startswith("skchol.") and last == "cholesky":
            return degree(arg0, env) if arg0 is not None else None      # scikit-sparse returns a Factor object standing for the matrix itself
        if last == "L" and recv is not None:                            # Factor.L(): the Cholesky factor of that matrix
            d = degree(recv, env)
            return d / 2 if isinstance(d, Fraction) else d
        if last == "sqrt":
            d = degree(subject, env)
            return d / 2 if isinstance(d, Fraction) else d
        if last in CHOL_CALLS:
            d = degree(subject, env)
            return d / 2 if isinstance(d, Fraction) else d
        if last in INV_CALLS:
            d = degree(subject, env)
            return -d if isinstance(d, Fraction) else d
        if last in ZERO_CALLS:
            return Fraction(0)
        if last in KEEP_CALLS:
            return degree(subject, env) if subject is not None else None
        if last in ("multiply", "matmul", "dot") and len(e.args) == 2:
            a, b = degree(e.args[0], env), degree(e.args[1], env)
            return (a + b) if isinstance(a, Fraction) and isinstance(b, Fraction) else (MIXED if MIXED in (a, b) else None)
        if last == "divide" and len(e.args) == 2:
            a, b = degree(e.args[0], env), degree(e.args[1], env)
            return (a - b) if isinstance(a, Fraction) and isinstance(b, Fraction) else None
        return None
    return None
