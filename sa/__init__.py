"""Static analyser for CUQIpy properties C01-C20 (stdlib ast only; never imports cuqi)."""
