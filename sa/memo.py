"""Memoised results are shared objects. A function decorated with functools.lru_cache / functools.cache returns THE SAME object to every caller that
passes equal arguments; a caller that writes into what it received (subscript store, augmented assignment, in-place method) changes the value every
other caller - past and future - works with. The scan follows the result through local names and through conversions that may return their operand
unchanged (`.tocsr()` on a CSR matrix, `.astype(..., copy=False)`, `.T`, `.reshape(...)`, `np.asarray`, ...); an explicit copy (`.copy()`,
`.toarray()`, `.todense()`, `np.array(...)`, `copy.copy/deepcopy`) ends the trace."""
from __future__ import annotations
import ast
from typing import List, Set, Tuple

from .astutil import call_name

COPIES = {"copy", "toarray", "todense", "deepcopy", "tolist", "A"}
MUTATORS = {"sort", "fill", "resize", "setdiag", "put", "itemset", "append", "extend", "insert", "pop", "remove", "clear", "update", "setdefault",
            "eliminate_zeros", "sum_duplicates", "sort_indices", "prune", "__setitem__"}


def _memoised(tree) -> Set[str]:
    out = set()
    for fn in ast.walk(tree):
        if isinstance(fn, (ast.FunctionDef, ast.AsyncFunctionDef)):
            for d in fn.decorator_list:
                t = ast.unparse(d.func if isinstance(d, ast.Call) else d)
                if t.split(".")[-1] in ("lru_cache", "cache"):
                    out.add(fn.name)
    return out


def _root_is_memo_call(e, memo: Set[str], tainted: Set[str]) -> bool:
    """e is (a possibly-aliasing chain on) a call of a memoised function or a tainted name"""
    while True:
        if isinstance(e, ast.Call):
            cn = call_name(e) or ""
            last = cn.split(".")[-1]
            if last in memo and (cn == last or cn == f"self.{last}" or cn.count(".") == 1):
                return True
            if isinstance(e.func, ast.Attribute):
                if e.func.attr in COPIES:
                    return False
                e = e.func.value            # x.tocsr(), x.astype(...), x.reshape(...): may return x itself / a view
                continue
            if cn in ("np.asarray", "np.asanyarray", "np.ascontiguousarray", "np.atleast_1d", "np.atleast_2d", "np.squeeze", "np.ravel", "np.reshape", "np.transpose") and e.args:
                e = e.args[0]
                continue
            return False
        if isinstance(e, ast.Attribute):
            if e.attr in COPIES:
                return False
            e = e.value
            continue
        if isinstance(e, ast.Subscript):
            e = e.value                      # a slice of an array is a view
            continue
        if isinstance(e, ast.Name):
            return e.id in tainted
        return False


def scan(tree) -> List[Tuple[ast.AST, str]]:
    memo = _memoised(tree)
    out = []
    if not memo:
        return out
    for fn in ast.walk(tree):
        if not isinstance(fn, (ast.FunctionDef, ast.AsyncFunctionDef)):
            continue
        tainted: Set[str] = set()
        for _ in range(3):                      # flow-insensitive closure over local aliases
            for s in ast.walk(fn):
                if isinstance(s, ast.Assign) and _root_is_memo_call(s.value, memo, tainted):
                    for t in s.targets:
                        if isinstance(t, ast.Name):
                            tainted.add(t.id)
        for s in ast.walk(fn):
            tg = []
            if isinstance(s, ast.Assign):
                tg = [t for t in s.targets if isinstance(t, (ast.Subscript, ast.Attribute))]
            elif isinstance(s, ast.AugAssign):
                tg = [s.target]
            for t in tg:
                base = t.value if isinstance(t, (ast.Subscript, ast.Attribute)) else t
                if _root_is_memo_call(base, memo, tainted):
                    out.append((s, ast.unparse(base)[:40]))
            if isinstance(s, ast.Expr) and isinstance(s.value, ast.Call) and isinstance(s.value.func, ast.Attribute) and s.value.func.attr in MUTATORS \
                    and _root_is_memo_call(s.value.func.value, memo, tainted):
                out.append((s, ast.unparse(s.value.func.value)[:40]))
    return out


_CONTROL = '''
from functools import lru_cache

@lru_cache(maxsize=None)
def _stencil(n):
    return make(n).tocsr()

def periodic(n):
    D = _stencil(n).tocsr()
    D[0, -1] = -1
    return D

def zero(n):
    D = _stencil(n).copy()
    D[0, 0] = 2
    return D

def plain(n):
    return _stencil(n) @ x
'''


def memo_rule(chk, repo, rule: str, prefixes) -> int:
    from .index import AnchorError
    hits = scan(ast.parse(_CONTROL))
    if [h[0].lineno for h in hits] != [10]:
        raise AnchorError(f"memoised-result positive control did not fire as expected: {[h[0].lineno for h in hits]}")
    n = nm = 0
    for rel in sorted(repo.modules):
        if not rel.startswith(tuple(prefixes)):
            continue
        m = repo.modules[rel]
        repo.consulted[rel] = m.digest
        n += 1
        nm += len(_memoised(m.tree))
        for s, what in scan(m.tree):
            chk.fail(rule, f"{rel}/memoised-result-mutated@{what}", f"{rel}:{s.lineno}",
                     f"`{ast.unparse(s)[:70]}` writes into `{what}`, which is (a possibly non-copying conversion of) the result of a memoised function: the cached "
                     f"object is shared by every caller with equal arguments, so operators built earlier or later silently change with it", s)
    chk.ok(rule, "memoised-functions", "", f"{n} modules scanned, {nm} memoised function(s); no caller writes into a memoised result")
    return n
