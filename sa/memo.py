"""Memoised results are shared objects. A function decorated with functools.lru_cache / functools.cache returns THE SAME object to every caller that
passes equal arguments; a caller that writes into what it received (subscript store, augmented assignment, in-place method) changes the value every
other caller - past and future - works with. The scan follows the result through local names and through conversions that may return their operand
unchanged (`.tocsr()` on a CSR matrix, `.astype(..., copy=False)`, `.T`, `.reshape(...)`, `np.asarray`, ...); an explicit copy (`.copy()`,
`.toarray()`, `.todense()`, `np.array(...)`, `copy.copy/deepcopy`) ends the trace."""
from __future__ import annotations
import ast
from typing import List, Set, Tuple

from .astutil import call_name

COPIES = {"copy", "toarray", "todense", "deepcopy", "tolist", "A"}
MUTATORS = {"sort", "fill", "resize", "setdiag", "put", "itemset", "append", "extend", "insert", "pop", "remove", "clear", "update", "setdefault",
            "eliminate_zeros", "sum_duplicates", "sort_indices", "prune", "__setitem__"}


def _memoised(tree) -> Set[str]:
    out = set()
    for fn in ast.walk(tree):
        if isinstance(fn, (ast.FunctionDef, ast.AsyncFunctionDef)):
            for d in fn.decorator_list:
                t = ast.unparse(d.func if isinstance(d, ast.Call) else d)
                if t.split(".")[-1] in ("lru_cache", "cache"):
                    out.add(fn.name)
    return out


def _root_is_memo_call(e, memo: Set[str], tainted: Set[str]) -> bool:
    """e is (a possibly-aliasing chain on) a call of a memoised function or a tainted name"""
    while True:
        if isinstance(e, ast.Call):
            cn = call_name(e) or ""
            last = cn.split(".")[-1]
            if last in memo and (cn == last or cn == f"self.{last}" or cn.count(".") >= 1):
                return True
            if isinstance(e.func, ast.Attribute):
                if e.func.attr in COPIES:
                    return False
                e = e.func.value            # x.tocsr(), x.astype(...), x.reshape(...): may return x itself / a view
                continue
            if cn in ("np.asarray", "np.asanyarray", "np.ascontiguousarray", "np.atleast_1d", "np.atleast_2d", "np.squeeze", "np.ravel", "np.reshape", "np.transpose") and e.args:
                e = e.args[0]
                continue
            return False
        if isinstance(e, ast.Attribute):
            if e.attr in COPIES:
                return False
            e = e.value
            continue
        if isinstance(e, ast.Subscript):
            e = e.value                      # a slice of an array is a view
            continue
        if isinstance(e, ast.Name):
            return e.id in tainted
        return False


def scan(tree, handouts: Set[str] = frozenset()) -> List[Tuple[ast.AST, str]]:
    """`handouts`: names of accessor methods known to return the object's own stored array/matrix (e.g. Operator.get_matrix): their result is as
    shared as a memoised one"""
    memo = _memoised(tree) | set(handouts)
    out = []
    if not memo:
        return out
    for fn in ast.walk(tree):
        if not isinstance(fn, (ast.FunctionDef, ast.AsyncFunctionDef)):
            continue
        tainted: Set[str] = set()
        for _ in range(3):                      # flow-insensitive closure over local aliases
            for s in ast.walk(fn):
                if isinstance(s, ast.Assign) and _root_is_memo_call(s.value, memo, tainted):
                    for t in s.targets:
                        if isinstance(t, ast.Name):
                            tainted.add(t.id)
        for s in ast.walk(fn):
            tg = []
            if isinstance(s, ast.Assign):
                tg = [t for t in s.targets if isinstance(t, (ast.Subscript, ast.Attribute))]
            elif isinstance(s, ast.AugAssign):
                tg = [s.target]
            for t in tg:
                base = t.value if isinstance(t, (ast.Subscript, ast.Attribute)) else t
                if _root_is_memo_call(base, memo, tainted):
                    out.append((s, ast.unparse(base)[:40]))
            if isinstance(s, ast.Expr) and isinstance(s.value, ast.Call) and isinstance(s.value.func, ast.Attribute) and s.value.func.attr in MUTATORS \
                    and _root_is_memo_call(s.value.func.value, memo, tainted):
                out.append((s, ast.unparse(s.value.func.value)[:40]))
    return out


_CONTROL = '''
from functools import lru_cache

@lru_cache(maxsize=None)
def _stencil(n):
    return make(n).tocsr()

def periodic(n):
    D = _stencil(n).tocsr()
    D[0, -1] = -1
    return D

def zero(n):
    D = _stencil(n).copy()
    D[0, 0] = 2
    return D

def plain(n):
    return _stencil(n) @ x
'''


def handout_methods(repo, specs) -> Set[str]:
    """names of the accessor methods in `specs` (class qualifier, method) whose every return hands out a stored attribute of self unchanged"""
    out = set()
    for qual, meth in specs:
        try:
            fn = repo.method(repo.cls(qual), meth)[1]
        except Exception:
            continue
        rets = [r for r in ast.walk(fn) if isinstance(r, ast.Return) and r.value is not None]
        if rets and all(isinstance(r.value, ast.Attribute) and isinstance(r.value.value, ast.Name) and r.value.value.id == "self" for r in rets):
            out.add(meth)
    return out


def memo_rule(chk, repo, rule: str, prefixes, handouts: Set[str] = frozenset()) -> int:
    from .index import AnchorError
    hits = scan(ast.parse(_CONTROL))
    if [h[0].lineno for h in hits] != [10]:
        raise AnchorError(f"memoised-result positive control did not fire as expected: {[h[0].lineno for h in hits]}")
    n = nm = 0
    for rel in sorted(repo.modules):
        if not rel.startswith(tuple(prefixes)):
            continue
        m = repo.modules[rel]
        repo.consulted[rel] = m.digest
        n += 1
        nm += len(_memoised(m.tree))
        for s, what in scan(m.tree, handouts):
            chk.fail(rule, f"{rel}/memoised-result-mutated@{what}", f"{rel}:{s.lineno}",
                     f"`{ast.unparse(s)[:70]}` writes into `{what}`, which is (a possibly non-copying conversion of) the result of a memoised function or of an "
                     f"accessor that hands out the object's own stored matrix ({sorted(handouts)}): the object is shared with every other user of it, "
                     f"so operators / precisions built earlier or later silently change with it", s)
    chk.ok(rule, "memoised-functions", "", f"{n} modules scanned, {nm} memoised function(s), shared accessors {sorted(handouts)}; no caller writes into their results")
    return n


# ----------------------------------------------------------------------------------------------------------- module-level keyed caches
def _module_dicts(tree) -> Set[str]:
    out = set()
    for s in tree.body:
        if isinstance(s, ast.Assign) and len(s.targets) == 1 and isinstance(s.targets[0], ast.Name):
            v = s.value
            if (isinstance(v, ast.Dict) and not v.keys) or (isinstance(v, ast.Call) and call_name(v) in ("dict", "OrderedDict", "collections.OrderedDict") and not v.args):
                out.add(s.targets[0].id)
    return out


def _self_reads(fn, resolve, seen=None) -> Set[str]:
    """fields of self a method reads: `self.x` loads, through self.m() calls and property getters (resolve(name) -> ('method'|'property', FunctionDef))"""
    seen = seen if seen is not None else set()
    if id(fn) in seen:
        return set()
    seen.add(id(fn))
    out = set()
    for n in ast.walk(fn):
        if isinstance(n, ast.Attribute) and isinstance(n.value, ast.Name) and n.value.id == "self" and isinstance(n.ctx, ast.Load):
            r = resolve(n.attr)
            if r is None:
                out.add(n.attr)
            else:
                out |= _self_reads(r[1], resolve, seen)
    return out


def _returns_field(fn) -> str:
    rets = [r for r in ast.walk(fn) if isinstance(r, ast.Return) and r.value is not None]
    if len(rets) == 1 and isinstance(rets[0].value, ast.Attribute) and isinstance(rets[0].value.value, ast.Name) and rets[0].value.value.id == "self":
        return rets[0].value.attr
    return ""


def scan_keyed_caches(tree, resolver_for_class):
    """(method, cache name, key text, uncovered fields) for every `if KEY not in CACHE: <produce>; CACHE[KEY] = ...` in a method, CACHE a module-level
    dict: the fields of self the producing statements read must each appear in KEY as `self.<field>` (or through a property that returns the field
    unchanged); a derived quantity such as a product of sizes does not determine its inputs."""
    caches = _module_dicts(tree)
    out = []
    if not caches:
        return out
    for cls in [c for c in ast.walk(tree) if isinstance(c, ast.ClassDef)]:
        resolve = resolver_for_class(cls)
        for fn in [f for f in cls.body if isinstance(f, ast.FunctionDef)]:
            keys = {s.targets[0].id: s.value for s in ast.walk(fn) if isinstance(s, ast.Assign) and len(s.targets) == 1 and isinstance(s.targets[0], ast.Name)}
            for iff in [s for s in ast.walk(fn) if isinstance(s, ast.If)]:
                t = iff.test
                neg = isinstance(t, ast.Compare) and len(t.ops) == 1 and isinstance(t.ops[0], ast.NotIn)
                pos = isinstance(t, ast.Compare) and len(t.ops) == 1 and isinstance(t.ops[0], ast.In)
                if not (neg or pos) or not (isinstance(t.comparators[0], ast.Name) and t.comparators[0].id in caches):
                    continue
                cache = t.comparators[0].id
                block = iff.body if neg else iff.orelse
                if not any(isinstance(s, ast.Assign) and isinstance(s.targets[0], ast.Subscript) and isinstance(s.targets[0].value, ast.Name)
                           and s.targets[0].value.id == cache for b in block for s in ast.walk(b)):
                    continue
                key = t.left
                key = keys.get(key.id, key) if isinstance(key, ast.Name) else key
                elts = key.elts if isinstance(key, ast.Tuple) else [key]
                covered = set()
                for e in elts:
                    if isinstance(e, ast.Attribute) and isinstance(e.value, ast.Name) and e.value.id == "self":
                        r = resolve(e.attr)
                        covered.add(_returns_field(r[1]) if r is not None else e.attr)
                        covered.add(e.attr)
                reads = set()
                wrapper = ast.Module(body=block, type_ignores=[])
                reads |= _self_reads(wrapper, resolve)
                writes = {n.attr for b in block for n in ast.walk(b) if isinstance(n, ast.Attribute) and isinstance(n.value, ast.Name) and n.value.id == "self" and isinstance(n.ctx, ast.Store)}
                # fields written by the produced methods themselves are outputs, not inputs
                for b in block:
                    for c in ast.walk(b):
                        if isinstance(c, ast.Call) and isinstance(c.func, ast.Attribute) and isinstance(c.func.value, ast.Name) and c.func.value.id == "self":
                            r = resolve(c.func.attr)
                            if r is not None:
                                writes |= {n.attr for n in ast.walk(r[1]) if isinstance(n, ast.Attribute) and isinstance(n.value, ast.Name) and n.value.id == "self" and isinstance(n.ctx, ast.Store)}
                missing = sorted(reads - covered - writes)
                out.append((fn, cache, ast.unparse(key), missing, iff))
    return out


_CONTROL3 = '''
_CACHE = {}

class Op:
    def __init__(self, n, bc):
        self._n = n
        self._bc = bc
        key = (type(self), self.dim, self._bc)
        if key not in _CACHE:
            self._build()
            _CACHE[key] = self._m
        self._m = _CACHE[key]

    @property
    def dim(self):
        return prod(self._n)

    def _build(self):
        self._m = make(self._n, self._bc)

class Good:
    def __init__(self, n, bc):
        self._n = n
        self._bc = bc
        key = (self._n, self.bc)
        if key not in _CACHE:
            self._build()
            _CACHE[key] = self._m
        self._m = _CACHE[key]

    @property
    def bc(self):
        return self._bc

    def _build(self):
        self._m = make(self._n, self._bc)
'''


def _simple_resolver(cls):
    table = {}
    for f in cls.body:
        if isinstance(f, ast.FunctionDef):
            is_prop = any(ast.unparse(d) == "property" for d in f.decorator_list)
            if is_prop or not f.decorator_list:
                table.setdefault(f.name, ("property" if is_prop else "method", f))
    return lambda name: table.get(name)


def keyed_cache_rule(chk, repo, rule: str, prefixes) -> int:
    from .index import AnchorError
    ctl = scan_keyed_caches(ast.parse(_CONTROL3), _simple_resolver)
    if [(f.name, m) for f, c, k, m, i in ctl] != [("__init__", ["_n"]), ("__init__", [])]:
        raise AnchorError(f"keyed-cache positive control did not fire as expected: {[(f.name, m) for f, c, k, m, i in ctl]}")

    def repo_resolver(m):
        def for_class(cls):
            ci = next((c for c in m.classes.values() if c.node is cls), None)

            def resolve(name):
                if ci is None:
                    return None
                p = ci.lookup_prop(name)
                if p is not None and p.getter is not None:
                    return ("property", p.getter)
                r = ci.lookup(name)
                if r is not None and isinstance(r[1], ast.FunctionDef):
                    return ("method", r[1])
                return None
            return resolve
        return for_class
    n = found = 0
    for rel in sorted(repo.modules):
        if not rel.startswith(tuple(prefixes)):
            continue
        m = repo.modules[rel]
        repo.consulted[rel] = m.digest
        n += 1
        for fn, cache, key, missing, iff in scan_keyed_caches(m.tree, repo_resolver(m)):
            found += 1
            chk.add(rule, f"{rel}/{fn.name}/{cache}", not missing, f"{rel}:{iff.lineno}", f"key `{key}` contains every field the cached value is computed from",
                    f"the module-level cache `{cache}` is keyed by `{key}`, but the cached value is computed from `self.{', self.'.join(missing)}` as well: two objects that "
                    f"agree on the key and differ there (e.g. a 1-D grid of N*N nodes and an N x N grid have the same dim) share one entry, so whichever is "
                    f"built first decides the matrix of the other", iff)
    chk.ok(rule, "module-level-caches", "", f"{n} modules scanned, {found} keyed module-level cache(s)")
    return n
