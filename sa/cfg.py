"""Statement-level control-flow graph for one function, with short-circuit tests split into
separate test nodes, reachability / must-pass-through queries and reaching definitions.

Implicit exceptions (any call may raise) are modelled only inside `try` bodies (edge from every
statement of the body to every handler); elsewhere only explicit `raise` leaves the function.
"""
from __future__ import annotations
import ast
from collections import defaultdict
from typing import Callable, Dict, Iterable, List, Optional, Set, Tuple


class Node:
    __slots__ = ("id", "kind", "ast", "label")

    def __init__(self, id, kind, astnode=None, label=""):
        self.id = id
        self.kind = kind      # entry | exit | raise | stmt | test | iter | return | except | with
        self.ast = astnode
        self.label = label

    @property
    def lineno(self):
        return getattr(self.ast, "lineno", 0)

    def __repr__(self):
        src = ""
        if self.ast is not None:
            try:
                src = ast.unparse(self.ast).split("\n")[0][:60]
            except Exception:
                pass
        return f"<{self.id}:{self.kind}@{self.lineno} {src}>"


class CFG:
    def __init__(self, fn):
        self.fn = fn
        self.nodes: List[Node] = []
        self.succ: Dict[int, List[Tuple[int, str]]] = defaultdict(list)
        self.pred: Dict[int, List[Tuple[int, str]]] = defaultdict(list)
        self.entry = self._new("entry")
        self.exit = self._new("exit")          # normal exit: return / fall off the end
        self.rexit = self._new("raise")        # exceptional exit
        self.by_ast: Dict[int, List[Node]] = defaultdict(list)
        self._loops: List[Tuple[Node, list]] = []   # (continue target, break collectors)
        self._handlers: List[List[Node]] = []
        self.falls_off_end = False
        body = fn.body if not isinstance(fn, ast.Lambda) else [ast.Return(value=fn.body)]
        ends = self._block(body, [(self.entry, "")])
        if ends:
            self.falls_off_end = True
            fall = self._new("falloff")
            for e, lab in ends:
                self._edge(e, fall, lab)
            self._edge(fall, self.exit, "")
            self.falloff = fall
        else:
            self.falloff = None

    # ------------------------------------------------------------ construction
    def _new(self, kind, astnode=None, label=""):
        n = Node(len(self.nodes), kind, astnode, label)
        self.nodes.append(n)
        if astnode is not None:
            self.by_ast[id(astnode)].append(n)
        return n

    def _edge(self, a: Node, b: Node, label=""):
        self.succ[a.id].append((b.id, label))
        self.pred[b.id].append((a.id, label))

    def _connect(self, preds, n: Node):
        for p, lab in preds:
            self._edge(p, n, lab)

    def _may_raise_to_handlers(self, n: Node):
        if self._handlers:
            for h in self._handlers[-1]:
                self._edge(n, h, "exc")

    def _cond(self, test: ast.expr, preds, owner):
        """Build test nodes for `test`; returns (true_ends, false_ends)."""
        if isinstance(test, ast.BoolOp) and isinstance(test.op, ast.And):
            t_ends, f_all = preds, []
            for v in test.values:
                t_ends, f = self._cond(v, t_ends, owner)
                f_all += f
            return t_ends, f_all
        if isinstance(test, ast.BoolOp) and isinstance(test.op, ast.Or):
            f_ends, t_all = preds, []
            for v in test.values:
                t, f_ends = self._cond(v, f_ends, owner)
                t_all += t
            return t_all, f_ends
        if isinstance(test, ast.UnaryOp) and isinstance(test.op, ast.Not):
            t, f = self._cond(test.operand, preds, owner)
            return f, t
        n = self._new("test", test)
        n.label = owner
        self._connect(preds, n)
        self._may_raise_to_handlers(n)
        return [(n, "T")], [(n, "F")]

    def _block(self, stmts, preds):
        for s in stmts:
            if not preds:
                break   # unreachable code
            preds = self._stmt(s, preds)
        return preds

    def _stmt(self, s, preds):
        if isinstance(s, ast.If):
            t, f = self._cond(s.test, preds, s)
            e1 = self._block(s.body, t)
            e2 = self._block(s.orelse, f) if s.orelse else f
            return e1 + e2
        if isinstance(s, (ast.For, ast.AsyncFor)):
            it = self._new("iter", s)
            self._connect(preds, it)
            self._may_raise_to_handlers(it)
            brk = []
            self._loops.append((it, brk))
            ends = self._block(s.body, [(it, "T")])
            self._loops.pop()
            self._connect(ends, it)
            out = self._block(s.orelse, [(it, "F")]) if s.orelse else [(it, "F")]
            return out + brk
        if isinstance(s, ast.While):
            head = self._new("stmt", None, "while-head")
            self._connect(preds, head)
            t, f = self._cond(s.test, [(head, "")], s)
            brk = []
            self._loops.append((head, brk))
            ends = self._block(s.body, t)
            self._loops.pop()
            self._connect(ends, head)
            if isinstance(s.test, ast.Constant) and s.test.value:
                f = []
            out = self._block(s.orelse, f) if s.orelse else f
            return out + brk
        if isinstance(s, (ast.Try,)) or s.__class__.__name__ == "TryStar":
            hnodes = [self._new("except", h) for h in s.handlers]
            self._handlers.append(hnodes)
            b_ends = self._block(s.body, preds)
            self._handlers.pop()
            # an exception may also occur before the first statement completes
            for h in hnodes:
                for p, lab in preds:
                    self._edge(p, h, "exc")
            e_ends = self._block(s.orelse, b_ends) if s.orelse else b_ends
            h_ends = []
            for hn, h in zip(hnodes, s.handlers):
                h_ends += self._block(h.body, [(hn, "")])
            ends = e_ends + h_ends
            if s.finalbody:
                ends = self._block(s.finalbody, ends)
            return ends
        if isinstance(s, (ast.With, ast.AsyncWith)):
            n = self._new("with", s)
            self._connect(preds, n)
            self._may_raise_to_handlers(n)
            return self._block(s.body, [(n, "")])
        if isinstance(s, ast.Return):
            n = self._new("return", s)
            self._connect(preds, n)
            self._may_raise_to_handlers(n)
            self._edge(n, self.exit, "")
            return []
        if isinstance(s, ast.Raise):
            n = self._new("raisestmt", s)
            self._connect(preds, n)
            if self._handlers:
                for h in self._handlers[-1]:
                    self._edge(n, h, "exc")
            else:
                self._edge(n, self.rexit, "")
            return []
        if isinstance(s, ast.Break):
            n = self._new("stmt", s)
            self._connect(preds, n)
            if self._loops:
                self._loops[-1][1].append((n, ""))
            return []
        if isinstance(s, ast.Continue):
            n = self._new("stmt", s)
            self._connect(preds, n)
            if self._loops:
                self._edge(n, self._loops[-1][0], "")
            return []
        if isinstance(s, ast.Match):
            n = self._new("stmt", s)
            self._connect(preds, n)
            ends = []
            for c in s.cases:
                ends += self._block(c.body, [(n, "case")])
            return ends + [(n, "nomatch")]
        if isinstance(s, ast.Assert):
            n = self._new("test", s.test)
            n.label = s
            self._connect(preds, n)
            self._edge(n, self.rexit, "F")
            return [(n, "T")]
        # plain statement (Assign, AugAssign, AnnAssign, Expr, Pass, FunctionDef, ClassDef, Import, Delete, Global ...)
        n = self._new("stmt", s)
        self._connect(preds, n)
        self._may_raise_to_handlers(n)
        return [(n, "")]

    # ------------------------------------------------------------ queries
    def node_of(self, astnode) -> Node:
        """CFG node for a statement (or a test expression)."""
        lst = self.by_ast.get(id(astnode))
        if not lst:
            raise KeyError(f"no CFG node for {ast.dump(astnode)[:80]}")
        return lst[0]

    def stmt_node_containing(self, astnode) -> Optional[Node]:
        """CFG node of the innermost statement/test containing `astnode`."""
        cur = astnode
        while cur is not None:
            lst = self.by_ast.get(id(cur))
            if lst:
                return lst[0]
            cur = getattr(cur, "_parent", None)
            if cur is self.fn:
                return None
        return None

    def reachable_from(self, start: Iterable[int], avoid_nodes: Set[int] = frozenset(),
                       avoid_edges: Set[Tuple[int, str]] = frozenset()) -> Set[int]:
        seen = set()
        stack = [s for s in start if s not in avoid_nodes]
        while stack:
            n = stack.pop()
            if n in seen:
                continue
            seen.add(n)
            for m, lab in self.succ[n]:
                if (n, lab) in avoid_edges or m in avoid_nodes or m in seen:
                    continue
                stack.append(m)
        return seen

    def must_pass(self, target: Node, pred: Callable[[Node], bool]) -> bool:
        """Every path entry -> target passes (strictly before target) a node satisfying pred."""
        avoid = {n.id for n in self.nodes if n.id != target.id and pred(n)}
        return target.id not in self.reachable_from([self.entry.id], avoid_nodes=avoid)

    def dominates(self, a: Node, b: Node) -> bool:
        return a.id == b.id or b.id not in self.reachable_from([self.entry.id], avoid_nodes={a.id})

    def requires_edge(self, target: Node, test: Node, label: str) -> bool:
        """target is reachable only through the `label` ('T'/'F') out-edge of `test`."""
        other = "F" if label == "T" else "T"
        return target.id not in self.reachable_from([self.entry.id], avoid_edges={(test.id, label)}) and \
            target.id in self.reachable_from([self.entry.id])

    def exit_reachable_avoiding(self, pred: Callable[[Node], bool], exit_node: Optional[Node] = None) -> bool:
        ex = exit_node or self.exit
        avoid = {n.id for n in self.nodes if pred(n)}
        return ex.id in self.reachable_from([self.entry.id], avoid_nodes=avoid)

    def reaches(self, a: Node, b: Node, avoid_nodes=frozenset()) -> bool:
        """b reachable from a by a non-empty path."""
        starts = [m for m, _ in self.succ[a.id]]
        return b.id in self.reachable_from(starts, avoid_nodes=avoid_nodes)

    def tests(self) -> List[Node]:
        return [n for n in self.nodes if n.kind == "test"]

    def guards_of(self, target: Node) -> List[Tuple[Node, str]]:
        """All (test, polarity) such that target is only reachable via that out-edge of the test."""
        base = self.reachable_from([self.entry.id])
        out = []
        if target.id not in base:
            return out
        for t in self.tests():
            if t.id == target.id:
                continue
            for lab in ("T", "F"):
                if target.id not in self.reachable_from([self.entry.id], avoid_edges={(t.id, lab)}):
                    out.append((t, lab))
        return out

    def returns(self) -> List[Node]:
        return [n for n in self.nodes if n.kind == "return"]

    def statements(self) -> List[Node]:
        return [n for n in self.nodes if n.ast is not None]


# ---------------------------------------------------------------------------- reaching definitions
def path_of(e: ast.expr) -> Optional[str]:
    """'x' for Name, 'self.a.b' for attribute chains rooted at a Name; None otherwise."""
    if isinstance(e, ast.Name):
        return e.id
    if isinstance(e, ast.Attribute):
        b = path_of(e.value)
        return None if b is None else f"{b}.{e.attr}"
    return None


def _targets(t: ast.expr) -> Iterable[ast.expr]:
    if isinstance(t, (ast.Tuple, ast.List)):
        for el in t.elts:
            yield from _targets(el)
    elif isinstance(t, ast.Starred):
        yield from _targets(t.value)
    else:
        yield t


def defs_of_node(n: Node) -> List[Tuple[str, ast.AST]]:
    """(path, defining ast) pairs written (rebinding) by CFG node n. Subscript stores are not rebinds."""
    out = []
    a = n.ast
    if a is None:
        return out
    if n.kind == "iter":
        for t in _targets(a.target):
            p = path_of(t)
            if p:
                out.append((p, a))
        return out
    if n.kind == "with":
        for it in a.items:
            if it.optional_vars is not None:
                for t in _targets(it.optional_vars):
                    p = path_of(t)
                    if p:
                        out.append((p, a))
        return out
    if n.kind == "except":
        if a.name:
            out.append((a.name, a))
        return out
    if isinstance(a, ast.Assign):
        for tgt in a.targets:
            for t in _targets(tgt):
                p = path_of(t)
                if p:
                    out.append((p, a))
    elif isinstance(a, (ast.AugAssign, ast.AnnAssign)):
        if isinstance(a, ast.AnnAssign) and a.value is None:
            return out
        p = path_of(a.target)
        if p:
            out.append((p, a))
    elif isinstance(a, (ast.FunctionDef, ast.AsyncFunctionDef, ast.ClassDef)):
        out.append((a.name, a))
    elif isinstance(a, (ast.Import, ast.ImportFrom)):
        for al in a.names:
            out.append(((al.asname or al.name).split(".")[0], a))
    # walrus inside expressions
    for sub in ast.walk(a) if not isinstance(a, (ast.FunctionDef, ast.AsyncFunctionDef, ast.ClassDef)) else []:
        if isinstance(sub, ast.NamedExpr):
            out.append((sub.target.id, sub))
    return out


class ReachingDefs:
    """Classic forward may-analysis. A definition is (path, cfg node id); node id of `entry` stands for
    'value on function entry' (parameter or attribute state before the call)."""

    def __init__(self, cfg: CFG):
        self.cfg = cfg
        self.gen: Dict[int, Dict[str, int]] = {}
        paths = set()
        for n in cfg.nodes:
            d = {}
            for p, _ in defs_of_node(n):
                d[p] = n.id
                paths.add(p)
            self.gen[n.id] = d
        self.paths = paths
        # IN[n]: path -> set(def node ids)
        self.IN: Dict[int, Dict[str, Set[int]]] = {n.id: {} for n in cfg.nodes}
        self.OUT: Dict[int, Dict[str, Set[int]]] = {n.id: {} for n in cfg.nodes}
        self._solve()

    def _kills(self, written: str, other: str) -> bool:
        # writing self.a kills self.a and self.a.b ; writing x kills x and x.attr...
        return other == written or other.startswith(written + ".")

    def _solve(self):
        cfg = self.cfg
        entry = cfg.entry.id
        reach = cfg.reachable_from([entry])
        visited: Set[int] = set()
        order = [n.id for n in cfg.nodes if n.id in reach]
        changed = True
        while changed:
            changed = False
            for nid in order:
                if nid == entry:
                    inn = {path: {entry} for path in self.paths}
                else:
                    inn: Dict[str, Set[int]] = {}
                    preds = [p for p, _ in cfg.pred[nid] if p in visited]
                    if not preds:
                        continue
                    for p in preds:
                        for path, ds in self.OUT[p].items():
                            inn.setdefault(path, set()).update(ds)
                out = {k: set(v) for k, v in inn.items()}
                for written, d in self.gen[nid].items():
                    for other in list(out.keys()):
                        if self._kills(written, other):
                            del out[other]
                    out[written] = {d}
                if nid not in visited or out != self.OUT[nid] or inn != self.IN[nid]:
                    visited.add(nid)
                    self.IN[nid] = inn
                    self.OUT[nid] = out
                    changed = True

    def reaching(self, node: Node, path: str) -> Set[int]:
        """Def node ids of `path` that may reach the *start* of node (entry id = value at function entry).
        A read of `self.a.b` is also affected by writes to `self.a`."""
        inn = self.IN[node.id]
        cands = [path]
        parts = path.split(".")
        for i in range(len(parts) - 1, 0, -1):
            cands.append(".".join(parts[:i]))
        # most specific binding first: a definition of the full path is not affected by older definitions of a prefix
        # (a later write to the prefix kills the longer path, see _kills)
        for c in cands:
            if c in inn:
                return set(inn[c])
        return {self.cfg.entry.id}

    def upward_exposed(self, path: str) -> List[Node]:
        """Nodes that read `path` while the function-entry value may still reach them."""
        out = []
        for n in self.cfg.nodes:
            if n.ast is None:
                continue
            if path in reads_of_node(n) and self.cfg.entry.id in self.reaching(n, path):
                out.append(n)
        return out


def reads_of_node(n: Node) -> Set[str]:
    """Paths read by CFG node n (attribute chains and names in Load context; AugAssign target counts as read)."""
    a = n.ast
    out: Set[str] = set()
    if a is None:
        return out
    roots: List[ast.AST] = []
    if n.kind == "iter":
        roots = [a.iter]
    elif n.kind == "with":
        roots = [it.context_expr for it in a.items]
    elif n.kind == "except":
        roots = [a.type] if a.type is not None else []
    elif isinstance(a, (ast.FunctionDef, ast.AsyncFunctionDef, ast.ClassDef)):
        roots = []   # closures are handled by callers that need them
    else:
        roots = [a]
    for r in roots:
        out |= reads_in(r)
    return out


def reads_in(r: ast.AST) -> Set[str]:
    out: Set[str] = set()

    def visit(e, in_store=False):
        if isinstance(e, ast.Attribute):
            p = path_of(e)
            if p is not None:
                if isinstance(e.ctx, ast.Load):
                    out.add(p)
                else:
                    # store to a.b reads a
                    bp = path_of(e.value)
                    if bp:
                        out.add(bp)
                return
            visit(e.value)
            return
        if isinstance(e, ast.Name):
            if isinstance(e.ctx, ast.Load):
                out.add(e.id)
            return
        if isinstance(e, ast.AugAssign):
            p = path_of(e.target)
            if p:
                out.add(p)
            elif isinstance(e.target, ast.Subscript):
                visit(e.target.value)
                visit(e.target.slice)
            visit(e.value)
            return
        if isinstance(e, ast.Subscript) and isinstance(e.ctx, ast.Store):
            # x[i] = v reads x (and i)
            b = path_of(e.value)
            if b:
                out.add(b)
            else:
                visit(e.value)
            visit(e.slice)
            return
        if isinstance(e, (ast.Lambda,)):
            # free variables of the lambda are read when it is created (conservative)
            bound = {a.arg for a in e.args.args + e.args.kwonlyargs}
            sub = reads_in(e.body)
            out.update(p for p in sub if p.split(".")[0] not in bound)
            return
        if isinstance(e, (ast.ListComp, ast.SetComp, ast.GeneratorExp, ast.DictComp)):
            bound = set()
            for g in e.generators:
                for t in _targets(g.target):
                    p = path_of(t)
                    if p:
                        bound.add(p.split(".")[0])
            sub: Set[str] = set()
            for ch in ast.iter_child_nodes(e):
                if isinstance(ch, ast.comprehension):
                    sub |= reads_in(ch.iter)
                    for c in ch.ifs:
                        sub |= reads_in(c)
                else:
                    sub |= reads_in(ch)
            out.update(p for p in sub if p.split(".")[0] not in bound)
            return
        for ch in ast.iter_child_nodes(e):
            visit(ch)

    visit(r)
    return out
