"""setup_cmd: parse the repository, validate MANIFEST/known-findings, run the positive controls."""
from __future__ import annotations
import json, sys
from .index import Repo, AnchorError
from .report import VERIF, KNOWN_FILE


def selfcheck(root: str) -> int:
    try:
        repo = Repo(root)
    except AnchorError as e:
        print(f"ANALYSIS-ERROR selfcheck: {e}")
        return 2
    print("index:", repo.stats())
    man = json.loads((VERIF / "MANIFEST.json").read_text())
    known = json.loads(KNOWN_FILE.read_text())
    for k in known["findings"]:
        for f in ("property", "rule", "status", "key", "what"):
            if f not in k:
                print(f"known_findings.json: entry lacks {f}: {k}")
                return 2
        if k["status"] not in ("known", "fixed"):
            print(f"known_findings.json: bad status {k['status']}")
            return 2
    try:
        import jsonschema  # optional
        schema = json.load(open("/root/.vp/MANIFEST.schema.json"))
        jsonschema.validate(man, schema)
        print("MANIFEST.json validates against the schema")
    except ImportError:
        for f in ("version", "setup_cmd", "hooks", "checks"):
            assert f in man
        print("MANIFEST.json has the required keys (jsonschema not available here)")
    except FileNotFoundError:
        pass
    from .controls import run_controls
    rc = run_controls()
    print("selfcheck", "OK" if rc == 0 else "FAILED")
    return rc
