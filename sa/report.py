"""Obligations, verdicts, evidence files, known findings, exit codes."""
from __future__ import annotations
import ast, hashlib, json, os, re, sys, time, traceback
from dataclasses import dataclass, field
from pathlib import Path
from typing import Any, Dict, List, Optional

VERIF = Path(__file__).resolve().parent.parent
EVIDENCE_DIR = VERIF / "evidence"
REPLAY_DIR = EVIDENCE_DIR / "replay"
KNOWN_FILE = VERIF / "known_findings.json"


def norm_src(node_or_text) -> str:
    """Whitespace-insensitive, comment-free rendering used in finding keys."""
    if isinstance(node_or_text, ast.AST):
        text = ast.unparse(node_or_text)
    else:
        text = str(node_or_text)
    return re.sub(r"\s+", " ", text).strip()


@dataclass
class Obligation:
    rule: str
    instance: str            # e.g. cuqi/x.py:Class.method[/construct]
    ok: bool
    site: str = ""           # file:line
    reason: str = ""
    construct: str = ""      # normalised source of the offending / deciding construct
    info: bool = False       # informational only (never a violation)

    @property
    def key(self) -> str:
        return f"{self.instance}"

    def to_json(self):
        return {"rule": self.rule, "instance": self.instance, "site": self.site,
                "verdict": "discharged" if self.ok else "VIOLATED", "reason": self.reason,
                "construct": self.construct}


class Check:
    """One run of the rules of one property."""

    def __init__(self, prop: str, tier: str, root: str, seed: int = 0):
        self.prop = prop
        self.tier = tier
        self.root = root
        self.seed = seed
        self.t0 = time.time()
        self.obligations: List[Obligation] = []
        self.unknowns: List[Obligation] = []
        self.notes: List[str] = []
        self.rules_desc: Dict[str, str] = {}
        self.floors: Dict[str, int] = {}
        self.extra: Dict[str, Any] = {}
        self.assumptions: List[str] = []
        self.known = load_known()

    # -------------------------------------------------------------- recording
    def rule(self, rid: str, desc: str, floor: int = 1):
        self.rules_desc[rid] = desc
        self.floors[rid] = floor

    def ok(self, rule, instance, site="", reason="", construct=""):
        self.obligations.append(Obligation(rule, instance, True, site, reason, norm_src(construct) if construct else ""))

    def fail(self, rule, instance, site="", reason="", construct=""):
        self.obligations.append(Obligation(rule, instance, False, site, reason, norm_src(construct) if construct else ""))

    def add(self, rule, instance, cond: bool, site="", reason_ok="", reason_fail="", construct=""):
        if cond:
            self.ok(rule, instance, site, reason_ok, construct)
        else:
            self.fail(rule, instance, site, reason_fail, construct)
        return cond

    def unknown(self, rule, instance, site="", reason="", construct=""):
        """the construct the rule is about was not recognised in any normal form: neither discharged nor violated -> exit 2"""
        self.unknowns.append(Obligation(rule, instance, False, site, reason, norm_src(construct) if construct else ""))

    def decide(self, rule, instance, holds: bool, recognised: bool, site="", reason_ok="", reason_fail="", construct=""):
        """holds -> discharged; recognised but not holding -> violation; not recognised -> unknown idiom (analysis error, never a false alarm)"""
        if holds:
            self.ok(rule, instance, site, reason_ok, construct)
        elif recognised:
            self.fail(rule, instance, site, reason_fail, construct)
        else:
            self.unknown(rule, instance, site, "construct not recognised in any normal form (" + reason_fail[:160] + ")", construct)
        return holds

    def note(self, text: str):
        self.notes.append(text)

    # -------------------------------------------------------------- finishing
    def finish(self, repo=None, partial_error: Optional[str] = None) -> int:
        """partial_error: the analysis stopped at an unrecognised construct. Violations established before that point are still firm
        (each obligation is decided on its own), so they are reported with exit 1; with none, the run is an analysis error (exit 2)."""
        from .index import AnchorError
        # floors: a rule matching fewer sites than confirmed by hand is an analysis error
        counts: Dict[str, int] = {}
        for o in self.obligations + self.unknowns:
            counts[o.rule] = counts.get(o.rule, 0) + 1
        if partial_error is None and self.unknowns:
            partial_error = "; ".join(f"{u.rule} {u.instance}: {u.reason}" for u in self.unknowns[:4]) + \
                (f" (+{len(self.unknowns) - 4} more)" if len(self.unknowns) > 4 else "")
            if not any((not o.ok) and self._known_entry(o) is None for o in self.obligations):
                for u in self.unknowns:
                    print(f"{u.site} rule={u.rule} instance={u.instance} UNRECOGNISED: {u.reason}")
                print(f"ANALYSIS-ERROR property={self.prop}: {len(self.unknowns)} construct(s) not recognised")
                self._write_evidence(repo, [], [], error=partial_error)
                return 2
            print(f"ANALYSIS-INCOMPLETE property={self.prop}: {partial_error} (violations found are reported)")
        if partial_error is None:
            for rid, fl in self.floors.items():
                if counts.get(rid, 0) < fl:
                    raise AnchorError(f"rule {rid} matched {counts.get(rid, 0)} instance(s), floor confirmed by hand is {fl}")
        elif self.unknowns and any((not o.ok) and self._known_entry(o) is None for o in self.obligations):
            pass
        elif not any((not o.ok) and self._known_entry(o) is None for o in self.obligations):
            print(f"ANALYSIS-ERROR property={self.prop}: {partial_error}")
            self._write_evidence(repo, [], [], error=partial_error)
            return 2
        else:
            print(f"ANALYSIS-INCOMPLETE property={self.prop}: {partial_error} (violations found before this point are reported)")
        violations, known_hits = [], []
        for o in self.obligations:
            if o.ok:
                continue
            k = self._known_entry(o)
            if k is not None:
                known_hits.append((o, k))
            else:
                violations.append(o)
        for o, k in known_hits:
            print(f"KNOWN-FINDING: property={self.prop} rule={o.rule} {o.instance} — {k.get('what', o.reason)}")
        replay_paths = []
        for o in violations:
            print(f"{o.site} rule={o.rule} instance={o.instance} {o.reason}")
            if o.construct:
                print(f"    construct: {o.construct[:300]}")
            path = self._write_replay(o)
            replay_paths.append(path)
            print(f"VIOLATION property={self.prop} replay={path}")
        self._write_evidence(repo, violations, known_hits, error=partial_error)
        n = len(self.obligations)
        print(f"[{self.prop}] tier={self.tier} obligations={n} discharged={n - len(violations) - len(known_hits)} "
              f"known={len(known_hits)} violations={len(violations)} wall={time.time() - self.t0:.2f}s")
        return 1 if violations else 0

    def _known_entry(self, o: Obligation):
        for k in self.known:
            if k.get("status") != "known":
                continue
            if k.get("property") == self.prop and k.get("rule") == o.rule and k.get("key") == o.key:
                return k
        return None

    def _write_replay(self, o: Obligation) -> str:
        if os.environ.get("VERIF_NO_EVIDENCE"):
            return "(scratch run: no replay file)"
        REPLAY_DIR.mkdir(parents=True, exist_ok=True)
        h = hashlib.sha1(f"{self.prop}|{o.rule}|{o.key}".encode()).hexdigest()[:10]
        path = REPLAY_DIR / f"{self.prop}-{o.rule}-{h}.json"
        data = {"property": self.prop, "rule": o.rule, "rule_text": self.rules_desc.get(o.rule, ""),
                "instance": o.instance, "site": o.site, "reason": o.reason, "construct": o.construct,
                "root": self.root, "rerun": f"./check {self.prop} --replay {path}"}
        path.write_text(json.dumps(data, indent=1))
        return str(path)

    def _write_evidence(self, repo, violations, known_hits, error: Optional[str] = None):
        if os.environ.get("VERIF_NO_EVIDENCE"):
            return      # scratch/mutant runs must not overwrite the evidence of the real tree
        EVIDENCE_DIR.mkdir(parents=True, exist_ok=True)
        n = len(self.obligations)
        per_rule: Dict[str, Dict[str, int]] = {}
        for o in self.obligations:
            d = per_rule.setdefault(o.rule, {"obligations": 0, "discharged": 0})
            d["obligations"] += 1
            d["discharged"] += 1 if o.ok else 0
        distinct = len({(o.rule, o.instance) for o in self.obligations})
        samples = [o.to_json() for o in self.obligations[:400]]
        explanation = (
            f"Static analysis (stdlib ast) of {self.root}/cuqi on this run: "
            f"{n} obligations instantiated from rule templates at sites discovered in the source; "
            f"{n - len(violations) - len(known_hits)} discharged, {len(known_hits)} match known findings, "
            f"{len(violations)} violated. Nothing from the repository is imported or executed. "
            "What is decided is the structural clause named by each rule (a necessary condition of the "
            "property), not the numerical/distributional behaviour."
        )
        if error:
            explanation = f"ANALYSIS-ERROR: {error} || " + explanation
        cov = {
            "explanation": explanation,
            "obligations": n,
            "discharged": n - len(violations) - len(known_hits),
            "evaluations": max(n, 0),
            "distinct_nontrivial": distinct,
            "rule": "one obligation per (rule, site) discovered in the parsed repository; distinct = distinct (rule, instance) pairs; "
                    "non-trivial = the rule's predicate was actually evaluated on a construct found in the source",
            "rules": {rid: {"text": self.rules_desc.get(rid, ""), **per_rule.get(rid, {"obligations": 0, "discharged": 0}),
                            "floor": self.floors.get(rid, 0)} for rid in self.rules_desc},
            "samples": samples,
            "known_findings_reported": [f"{o.rule} {o.instance}" for o, _ in known_hits],
            "notes": self.notes,
            "exhaustive": False,
        }
        if repo is not None:
            cov["files_consulted"] = dict(sorted(repo.consulted.items()))
            cov["index"] = repo.stats()
        cov.update(self.extra)
        ev = {
            "property_id": self.prop,
            "tier": self.tier,
            "seed": int(self.seed),
            "level": "other",
            "coverage": cov,
            "assumptions": self.assumptions + [
                "CPython ast parser; attribute names are not computed dynamically except through setattr/getattr over _STATE_KEYS / mutable-variable lists (modelled)",
                "user callables, NumPy and SciPy are opaque and side-effect free on their arguments apart from documented in-place methods",
                "hand-confirmed idiom tables inside the checker (each entry carries its reason)",
            ],
            "wall_s": round(time.time() - self.t0, 3),
            "violations": len(violations),
        }
        (EVIDENCE_DIR / f"{self.prop}.json").write_text(json.dumps(ev, indent=1, default=str))


def load_known() -> List[dict]:
    if KNOWN_FILE.exists():
        return json.loads(KNOWN_FILE.read_text()).get("findings", [])
    return []


def site(mod, node) -> str:
    return f"{mod.rel}:{getattr(node, 'lineno', 0)}"
