"""C10 — conjugate and direct samplers draw from the exact conditional.

 R1 validation reaches every accept path: whenever the conjugate sampler stores a target, _set_conjugatepair and
    validate_target run unconditionally (for a non-None target); the pair's validate_target checks family, Gamma prior,
    dim == 1, exactly one occurrence of the hyper-parameter, and the functional form (probing helpers); the key dispatch
    is exhaustive (cov / prec / else raise)
 R2 dispatch tables agree: _set_conjugatepair's isinstance table and each pair's validate_target accept the same families
 R3 Direct.step: new state is self.target.sample() unmodified
 R4 Gamma update: shape = m/2 + alpha with m the number of *data* entries (len(b) / count_nonzero(b)), rate =
    ||L(Ax - b)||^2/2 + beta with L the square-root precision at unit hyper-parameter; sibling (legacy) formula agrees
"""
from __future__ import annotations
import ast
from typing import Dict, List

from ..index import Repo, AnchorError
from ..cfg import CFG, path_of
from ..astutil import unparse, call_name, func_params, walk_no_nested
from .common import site

EXP = "cuqi/experimental/mcmc/_conjugate.py"
LEG = "cuqi/sampler/_conjugate.py"


def _norm(e) -> str:
    from .common import vstr
    return vstr(e)


def run(chk, repo: Repo):
    chk.rule("C10-R1", "storing a target always runs pair selection and structural validation; validation covers family, Gamma, dim 1, "
                       "single occurrence and functional form; key dispatch exhaustive", floor=6)
    chk.rule("C10-R2", "pair selection table and the pairs' own validation accept the same families", floor=2)
    chk.rule("C10-R3", "Direct.step installs target.sample() unmodified", floor=1)
    chk.rule("C10-R4", "Gamma(shape = m/2 + alpha, rate = ||L(Ax-b)||^2/2 + beta) with m counted on the data and L at unit hyper-parameter", floor=3)
    conj = repo.cls(f"{EXP}:Conjugate")
    _r1(chk, repo, conj)
    _r1_legacy(chk, repo)
    _r2(chk, repo, conj)
    _r3(chk, repo)
    _r4(chk, repo)
    chk.rule("C10-R5", "closures of the conjugate samplers are not called after a variable they read was bound again (one name re-used for the smoothing "
                       "constant and the Gamma rate)", floor=2)
    from ..latebind import rebound_rule
    rebound_rule(chk, repo, "C10-R5", ("cuqi/experimental/mcmc/_conjugate", "cuqi/sampler/_conjugate"))


def _r1(chk, repo, conj):
    p = conj.lookup_prop("target")
    if p is None or p.setter is None:
        raise AnchorError("Conjugate.target setter not found")
    fn = p.setter
    g = CFG(fn)
    v = func_params(fn)[1]
    stores = [n for n in g.nodes if isinstance(n.ast, ast.Assign) and path_of(n.ast.targets[0]) == "self._target"]
    sel = [n for n in g.nodes if n.ast is not None and n.kind == "stmt" and _norm(n.ast) == "self._set_conjugatepair()"]
    val = [n for n in g.nodes if n.ast is not None and n.kind == "stmt" and _norm(n.ast) == "self.validate_target()"]
    problems = []
    if len(stores) != 1:
        problems.append("expected exactly one store of the target")
    if len(sel) != 1 or len(val) != 1:
        problems.append("pair selection / validation call missing")
    else:
        # every path from the store to the normal exit on which the target is not None passes selection and validation
        none_edges = {(t.id, "F") for t in g.tests() if _norm(t.ast) in ("self._targetisnotNone", f"{v}isnotNone")} | \
                     {(t.id, "T") for t in g.tests() if _norm(t.ast) in ("self._targetisNone", f"{v}isNone")}
        for what, node in (("_set_conjugatepair()", sel[0]), ("validate_target()", val[0])):
            reach = g.reachable_from([g.entry.id], avoid_nodes={node.id}, avoid_edges=none_edges)
            if g.exit.id in reach:
                problems.append(f"a non-None target can be stored without {what} being run (validation is skipped on some path)")
        if not g.dominates(sel[0], val[0]):
            problems.append("validation does not follow pair selection")
    chk.add("C10-R1", f"{conj.qual}.@target=", not problems, site(repo, fn), "store -> _set_conjugatepair() -> validate_target(), unconditionally for a non-None target",
            "; ".join(problems), fn)
    # no other function stores the target or swaps the pair's target
    other = []
    for m in (repo.mod(EXP), repo.mod("cuqi/experimental/mcmc/_conjugate_approx.py")):
        for f in [x for x in ast.walk(m.tree) if isinstance(x, ast.FunctionDef)]:
            if f is fn or f.name == "__init__":
                continue
            for n in walk_no_nested(f):
                if isinstance(n, ast.Assign):
                    for t in n.targets:
                        pth = path_of(t) or ""
                        if pth in ("self._target", "self._conjugatepair.target") or pth.endswith("_conjugatepair.target"):
                            other.append(f"{m.rel}:{f.name}:{n.lineno}")
    chk.add("C10-R1", f"{conj.qual}/other-target-stores", not other, "", "the target reaches the conjugate pair only through its constructor",
            f"a target is swapped into the sampler / existing pair outside the validating setter: {other}")
    vt = repo.method(conj, "validate_target")[1]
    from .common import method_effects
    eff = method_effects(repo, conj, vt)
    ok = bool(eff) and all(e["kind"] in ("fall", "return") and e["calls"] == ["self._ensure_target_is_posterior()", "self._conjugatepair.validate_target()"] and not e["stores"] for e in eff)
    chk.add("C10-R1", f"{conj.qual}.validate_target", ok, site(repo, vt),
            "posterior check, then the pair's structural validation", f"validate_target does {eff}", vt)
    # the pairs
    for pair, fams in (("_GaussianGammaPair", "(Gaussian,GMRF)"), ("_RegularizedGaussianGammaPair", "(RegularizedGaussian,RegularizedGMRF)")):
        ci = repo.cls(f"{EXP}:{pair}")
        f_src = repo.method(ci, "validate_target")[1]
        from .common import canon_fn
        # checks shared by the pairs may live in a private method of the base class: inlined (the probing helpers the rule names are module functions)
        from .common import canon_keep
        f = canon_keep(repo, ci, f_src, set(repo.mod(EXP).functions), subst=True)
        g = CFG(f)
        tests = {_norm(t.ast): t for t in g.tests()}
        problems = []
        need = {
            "likelihood family": [(f"isinstance(self.target.likelihood.distribution,{fams})", "F")],
            "Gamma prior": [("isinstance(self.target.prior,Gamma)", "F")],
            "univariate Gamma": [("self.target.prior.dim!=1", "T"), ("self.target.prior.dim==1", "F"), ("1!=self.target.prior.dim", "T"), ("1==self.target.prior.dim", "F")],
        }
        for what, alts in need.items():
            # the failing edge of the test leads only to a raise (the normal end of the function is not reachable through it)
            okn = False
            for txt, lab in alts:
                t = tests.get(txt)
                if t is not None:
                    tgt = [m for m, l in g.succ[t.id] if l == lab]
                    if tgt and g.exit.id not in g.reachable_from(tgt):
                        okn = True
            if not okn:
                problems.append(f"{what} is not enforced (`{alts[0][0]}` -> raise)")
        gp = [n for n in g.nodes if n.ast is not None and n.kind == "stmt" and isinstance(n.ast, ast.Assign) and isinstance(n.ast.value, ast.Call)
              and _norm(n.ast.value) == "_get_conjugate_parameter(self.target)"]
        if len(gp) != 1:
            problems.append("the hyper-parameter's occurrence is not extracted with _get_conjugate_parameter")
        # functional form: decided path-sensitively on the value of `key` (cov / prec / anything else). For each case the tests on `key`
        # are evaluated, the CFG is pruned accordingly, and the normal exit must be unreachable unless the matching probe returned True.
        if gp:
            # functional form, as a table over the variable the hyper-parameter enters through: for `cov` / `prec` the validation must not complete
            # when the matching probe says False; for any other variable it must not complete at all. The dispatch may be an if/elif chain or a
            # literal table (variable -> probe) looked up with the key; named tests and unpacked table rows are resolved along each path.
            from .common import case_valuation, OTHER
            from ..pathtable import walk_paths
            from .. import pathtable as _pt
            from ..pattern import norm as pn
            CALLTXT = "_get_conjugate_parameter(self.target)"
            ktxt, vtxt = f"{CALLTXT}[0]", f"{CALLTXT}[1]"
            probes = {"cov": "_check_conjugate_parameter_is_scalar_reciprocal", "prec": "_check_conjugate_parameter_is_scalar_identity"}
            local_tables = {}
            for a_ in ast.walk(f):
                if isinstance(a_, ast.Assign) and len(a_.targets) == 1 and isinstance(a_.targets[0], ast.Name) and isinstance(a_.value, ast.Dict) \
                        and a_.value.keys and all(isinstance(k_, ast.Constant) for k_ in a_.value.keys):
                    local_tables[a_.targets[0].id] = {k_.value for k_ in a_.value.keys}
            for case in ("cov", "prec", OTHER):
                val = case_valuation(f, ktxt, case, consts=local_tables)
                # spellings of the key test on the unpacked name are covered by case_valuation (it resolves locals); the probe is assumed to FAIL
                if case is not OTHER:
                    val[pn(f"{probes[case]}({vtxt})")] = False
                _pt.EQUALITIES.clear()
                if case is not OTHER:
                    _pt.EQUALITIES[pn(ktxt)] = case
                try:
                    ends = walk_paths(f, val, pn, limit=128)
                finally:
                    _pt.EQUALITIES.clear()
                done = [k_ for k_, _ in ends if k_ in ("fall", "return")]
                unk = [r_ for k_, r_ in ends if k_ in ("unknown", "loop")]
                if unk:
                    problems.append(f"validation paths for key == {case!r} are not decidable: {str(unk[0])[:100]}")
                elif done:
                    if case is OTHER:
                        problems.append("a hyper-parameter entering through another variable than cov/prec is accepted")
                    else:
                        problems.append(f"functional form for `{case}` is not probed by {probes[case]} with refusal on failure "
                                        f"(validation can succeed for key == '{case}' although the probe did not return True)")
        chk.add("C10-R1", f"{ci.qual}.validate_target", not problems, site(repo, f_src), "family, Gamma, dim 1, occurrence, functional form, exhaustive key dispatch",
                "; ".join(problems), f_src)
    _count_rule(chk, repo)
    for name, kind in (("_check_conjugate_parameter_is_scalar_identity", "identity"), ("_check_conjugate_parameter_is_scalar_reciprocal", "reciprocal")):
        f = repo.func(f"{EXP}:{name}")
        why = _probe_ok(repo, f, kind)
        chk.add("C10-R1", f"{EXP}:{name}", why is None, site(repo, f), f"probes f at three or more scales against the {kind} map",
                f"probe helper does not compare f at three scales against the required form: {why}", f)


def _eval_key_test(e, kname: str, case: str):
    """truth of a test on the dispatch key for key == case ('<other>' = neither of the literals compared with); None if e is not about the key"""
    if isinstance(e, ast.Compare) and len(e.ops) == 1:
        l, r = e.left, e.comparators[0]
        if isinstance(r, ast.Name) and r.id == kname and isinstance(l, ast.Constant):
            l, r = r, l
        if not (isinstance(l, ast.Name) and l.id == kname):
            return None
        if isinstance(r, ast.Constant) and isinstance(e.ops[0], (ast.Eq, ast.NotEq)):
            v = (case == r.value)
            return v if isinstance(e.ops[0], ast.Eq) else not v
        if isinstance(r, (ast.Tuple, ast.List, ast.Set)) and all(isinstance(x, ast.Constant) for x in r.elts) and isinstance(e.ops[0], (ast.In, ast.NotIn)):
            v = case in [x.value for x in r.elts]
            return v if isinstance(e.ops[0], ast.In) else not v
    return None


def _count_rule(chk, repo):
    """_get_conjugate_parameter: over ALL mutable variables of the likelihood distribution, the callables that take the hyper-parameter are
    collected; exactly one -> returned, none or several -> raise. Decided path-sensitively on the number found (0, 1, 2)."""
    from .common import canon_fn
    from ..flow import Expander
    gcp_src = repo.func(f"{EXP}:_get_conjugate_parameter")
    gcp = canon_fn(repo, None, gcp_src, 1, rel=EXP)
    ex = Expander(gcp)
    g = ex.cfg
    problems = []
    app = [n for n in g.nodes if n.ast is not None and n.kind == "stmt" and isinstance(n.ast, ast.Expr) and isinstance(n.ast.value, ast.Call)
           and isinstance(n.ast.value.func, ast.Attribute) and n.ast.value.func.attr == "append"]
    lst = None
    if len(app) == 1:
        lst = path_of(app[0].ast.value.func.value)
        gs = [(unparse(ex.expand(t.ast, t)).replace(" ", ""), lab) for t, lab in g.guards_of(app[0])]
        if not any(tx.startswith("callable(getattr(") and lab == "T" for tx, lab in gs):
            problems.append("a non-callable attribute can be counted")
        if not any("inget_non_default_args(" in tx and lab == "T" for tx, lab in gs):
            problems.append("a callable that does not take the hyper-parameter can be counted")
        loops = [n for n in g.nodes if n.kind == "iter" and g.dominates(n, app[0])]
        it = unparse(ex.expand(loops[-1].ast.iter, loops[-1])).replace(" ", "") if loops else "?"
        if it != "target.likelihood.distribution.get_mutable_variables()":
            problems.append(f"candidates are collected over `{it}`, not over all mutable variables of the likelihood distribution")
    else:
        # comprehension form
        comp = [n for n in ast.walk(gcp) if isinstance(n, ast.Assign) and isinstance(n.value, ast.ListComp)]
        if len(comp) == 1:
            lst = path_of(comp[0].targets[0])
        else:
            chk.unknown("C10-R1", f"{EXP}:_get_conjugate_parameter", site(repo, gcp_src), "collection of the candidate (variable, callable) pairs not recognised", gcp_src)
            return
    for count in (0, 1, 2):
        avoid = set()
        for t in g.tests():
            e = ex.expand(t.ast, t, stop=frozenset({lst}))
            core, flip = e, False
            while isinstance(core, ast.UnaryOp) and isinstance(core.op, ast.Not):
                core, flip = core.operand, not flip
            tv = _eval_len_test(core, lst, count)
            if tv is None:
                continue
            tv = (not tv) if flip else tv
            avoid.add((t.id, "F" if tv else "T"))
        # loop edges: ignore the collection loop itself (counts are a hypothesis about its result)
        reach = g.reachable_from([g.entry.id], avoid_edges=avoid)
        rets = [r for r in g.returns() if r.id in reach]
        if count == 1:
            if not rets or not all(unparse(r.ast.value).replace(" ", "") == f"{lst}[0]" for r in rets):
                problems.append(f"with exactly one occurrence the function does not return that pair ({[unparse(r.ast.value) for r in rets]})")
        elif rets:
            problems.append(f"with {'no' if count == 0 else 'several'} occurrence(s) of the hyper-parameter the function returns `{unparse(rets[0].ast.value)}` instead of raising")
    chk.add("C10-R1", f"{EXP}:_get_conjugate_parameter", not problems, site(repo, gcp_src), "exactly one mutable variable may depend on the hyper-parameter; 0 or >1 -> raise",
            "occurrences of the hyper-parameter are not counted over all mutable variables with refusal of 0 or several: " + "; ".join(problems), gcp_src)


def _eval_len_test(e, lst: str, n: int):
    """truth of a comparison of len(lst) (or of lst's truthiness) with an integer constant, for len == n (n = 2 stands for 'several')"""
    def side(x):
        if isinstance(x, ast.Call) and call_name(x) == "len" and len(x.args) == 1 and path_of(x.args[0]) == lst:
            return "len"
        if isinstance(x, ast.Constant) and isinstance(x.value, int) and not isinstance(x.value, bool):
            return x.value
        return None
    if isinstance(e, ast.Compare) and len(e.ops) == 1:
        a, b = side(e.left), side(e.comparators[0])
        if a == "len" and isinstance(b, int):
            L, R = n, b
        elif b == "len" and isinstance(a, int):
            L, R = a, n
        else:
            return None
        if n == 2 and isinstance(e.ops[0], (ast.Eq,)) and ((a == "len" and b > 2) or (b == "len" and a > 2)):
            return None
        op = e.ops[0]
        return {ast.Eq: L == R, ast.NotEq: L != R, ast.Lt: L < R, ast.LtE: L <= R, ast.Gt: L > R, ast.GtE: L >= R}.get(type(op))
    if path_of(e) == lst:
        return n > 0
    return None


def _probe_ok(repo, f, kind: str):
    """None if the helper compares f(v) with v (identity) / 1/v (reciprocal) for every v of a literal collection of >= 3 distinct positive numbers and
    returns the conjunction; otherwise the reason"""
    from .common import canon_fn
    fv = canon_fn(repo, None, f, 1, rel=EXP)
    fname = func_params(f)[0]
    mod = repo.mod(EXP)

    def values_of(it):
        if isinstance(it, ast.Name):
            for s_ in mod.tree.body:
                if isinstance(s_, ast.Assign) and path_of(s_.targets[0]) == it.id:
                    return values_of(s_.value)
            for s_ in ast.walk(fv):
                if isinstance(s_, ast.Assign) and path_of(s_.targets[0]) == it.id:
                    return values_of(s_.value)
            return None
        if isinstance(it, (ast.List, ast.Tuple)) and all(isinstance(x, ast.Constant) and isinstance(x.value, (int, float)) for x in it.elts):
            return [float(x.value) for x in it.elts]
        return None

    def cmp_ok(c, var):
        if not (isinstance(c, ast.Call) and call_name(c) in ("np.allclose", "math.isclose", "np.isclose") and len(c.args) >= 2):
            return False
        a, b = c.args[0], c.args[1]
        if _norm(a) != f"{fname}({var})":
            a, b = b, a
        if _norm(a) != f"{fname}({var})":
            return False
        want = (var,) if kind == "identity" else (f"1.0/{var}", f"1/{var}", f"{var}**-1", f"{var}**(-1)")
        return _norm(b) in want

    # all(<cmp> for v in VALUES)
    for r in ast.walk(fv):
        if isinstance(r, ast.Return) and isinstance(r.value, ast.Call) and call_name(r.value) == "all" and len(r.value.args) == 1 \
                and isinstance(r.value.args[0], (ast.GeneratorExp, ast.ListComp)):
            ge = r.value.args[0]
            var = path_of(ge.generators[0].target)
            vals = values_of(ge.generators[0].iter)
            if not cmp_ok(ge.elt, var):
                return f"the compared expression is `{unparse(ge.elt)}`"
            if not vals or len(set(vals)) < 3 or min(vals) <= 0:
                return f"probe values are {vals}"
            return None
    # for v in VALUES: if not <cmp>: return False ; return True
    loops = [n for n in ast.walk(fv) if isinstance(n, ast.For)]
    if len(loops) == 1:
        lp = loops[0]
        var = path_of(lp.target)
        vals = values_of(lp.iter)
        g = CFG(fv)
        rets = g.returns()
        rf = [r for r in rets if isinstance(r.ast.value, ast.Constant) and r.ast.value.value is False]
        rt = [r for r in rets if isinstance(r.ast.value, ast.Constant) and r.ast.value.value is True]
        tests = [t for t in g.tests() if cmp_ok(t.ast.operand if isinstance(t.ast, ast.UnaryOp) else t.ast, var)]
        if len(tests) == 1 and len(rf) == 1 and len(rt) == 1 and len(rets) == 2:
            neg = isinstance(tests[0].ast, ast.UnaryOp)
            fail_edge = "T" if neg else "F"
            if g.requires_edge(rf[0], tests[0], fail_edge) and not vals is None and len(set(vals)) >= 3 and min(vals) > 0 \
                    and not any(isinstance(x, ast.Break) for x in ast.walk(lp)):
                return None
            return f"probe values are {vals} / a failed comparison does not return False"
    return "neither `all(isclose(f(v), form(v)) for v in values)` nor the equivalent loop"


def _r1_legacy(chk, repo):
    leg = repo.cls(f"{LEG}:Conjugate")
    init = repo.method(leg, "__init__")[1]
    g = CFG(init)
    store = [n for n in g.nodes if isinstance(n.ast, ast.Assign) and path_of(n.ast.targets[0]) == "self.target"]
    if len(store) != 1:
        raise AnchorError("legacy Conjugate.__init__: store of the target not found")
    # decision table over (plain family, regularized family, Gamma prior, univariate): the target is stored exactly when the family is one of the four,
    # the prior is a Gamma and it is univariate; everything else raises. Validation split off into a helper is inlined; named tests are resolved.
    import itertools
    from .common import canon_fn
    from ..pathtable import walk_paths
    from ..pattern import norm as pn
    v = canon_fn(repo, leg, init, 2)
    tp = func_params(init)[1]
    D_, P_ = f"{tp}.likelihood.distribution", f"{tp}.prior"
    miss, und = [], []
    for A, B, G, U in itertools.product((True, False), repeat=4):
        val = {pn(f"isinstance({D_},(Gaussian,GMRF))"): A, pn(f"isinstance({D_},(RegularizedGaussian,RegularizedGMRF))"): B,
               pn(f"isinstance({D_},(Gaussian,GMRF,RegularizedGaussian,RegularizedGMRF))"): A or B,
               pn(f"isinstance({P_},Gamma)"): G, pn(f"{P_}.dim==1"): U, pn(f"{P_}.dim!=1"): not U}
        ends = walk_paths(v, val, pn, stop_pred=lambda a_: isinstance(a_, ast.Assign) and path_of(a_.targets[0]) == "self.target")
        stored = any(k_ == "stop" for k_, _ in ends)
        if any(k_ in ("unknown", "loop") for k_, _ in ends):
            und.append(str([r_ for k_, r_ in ends if k_ in ("unknown", "loop")][:1]))
            continue
        should = (A or B) and G and U
        if stored and not should:
            miss.append(f"[plain family={A}, regularized family={B}, Gamma prior={G}, univariate={U}] the target is stored")
        if should and not stored:
            miss.append(f"[plain family={A}, regularized family={B}, Gamma prior={G}, univariate={U}] a supported pair is refused on every path")
    chk.decide("C10-R1", f"{leg.qual}.__init__/family", not miss and not und, bool(miss) or not und, site(repo, init),
               "family, Gamma prior and dim == 1 are required before the target is stored",
               f"legacy Conjugate validation table: {'; '.join(miss[:3]) or und[:1]}", init)
    probed = any(isinstance(c, ast.Call) and (call_name(c) or "").split(".")[-1] in
                 ("_get_conjugate_parameter", "_check_conjugate_parameter_is_scalar_identity", "_check_conjugate_parameter_is_scalar_reciprocal")
                 for c in ast.walk(init))
    chk.add("C10-R1", f"{leg.qual}.__init__/functional-form", probed, site(repo, init), "dependence of cov/prec on the hyper-parameter is probed",
            "legacy Conjugate never checks HOW the Gaussian depends on the hyper-parameter (the experimental sampler probes the callable): "
            "a posterior with cov = 1/s**2, cov = s or several occurrences of s is accepted and sampled with the Gamma update of cov = 1/s", init)


def _isinstance_tables(fn) -> List[str]:
    out = []
    for n in ast.walk(fn):
        if isinstance(n, ast.Call) and call_name(n) == "isinstance" and _norm(n.args[0]) == "self.target.likelihood.distribution":
            out.append(_norm(n.args[1]))
    return out


def _r2(chk, repo, conj):
    """Pair selection as a decision table. Atoms: `isinstance(<likelihood distribution>, F)` for every family tuple F tested (locals replaced by their
    definitions) and `isinstance(<prior>, Gamma)`. For every valuation the path through _set_conjugatepair is followed to the store of
    self._conjugatepair (or a raise); a stored pair P must be constructed on self.target, under a Gamma prior, for a family that P.validate_target
    itself accepts; anything else must raise."""
    import itertools
    from .common import canon_fn
    from ..pathtable import walk, _Sub, NONNULL_NAMES
    from ..pattern import norm as pn
    from ..flow import Expander
    from ..canon import clone as _clone
    scp_src = repo.method(conj, "_set_conjugatepair")[1]
    scp = canon_fn(repo, conj, scp_src, 1)
    NONNULL_NAMES.update(repo.mod(EXP).classes.keys())
    ex = Expander(scp)
    DIST, PRIOR = "self.target.likelihood.distribution", "self.target.prior"
    fams, gamma_atom = [], pn(f"isinstance({PRIOR},Gamma)")
    for n in ast.walk(scp):
        if isinstance(n, ast.Call) and call_name(n) == "isinstance" and len(n.args) == 2:
            node = ex.cfg.node_of(n) if hasattr(ex.cfg, "node_of") else None
            try:
                subj = pn(ex.expand(n.args[0], ex.cfg.stmt_node_containing(n)))
            except Exception:
                subj = pn(n.args[0])
            if subj == DIST and pn(n.args[1]) not in fams:
                fams.append(pn(n.args[1]))
    problems, undec, seen_pairs = [], [], set()
    if len(fams) < 2:
        raise AnchorError("Conjugate._set_conjugatepair: family tests on the likelihood distribution not found")
    atoms = [pn(f"isinstance({DIST},{f})") for f in fams] + [gamma_atom]
    for bits in itertools.product((True, False), repeat=len(atoms)):
        val = dict(zip(atoms, bits))
        kind, res = walk(scp, val, pn, stop_pred=lambda a_: isinstance(a_, ast.Assign) and path_of(a_.targets[0]) == "self._conjugatepair")
        case = ", ".join(f"{'is' if b_ else 'not'} {f}" for f, b_ in zip(fams, bits[:-1])) + f", prior {'is' if bits[-1] else 'not'} Gamma"
        if kind in ("unknown", "loop"):
            undec.append(f"[{case}] {res if isinstance(res, str) else kind}")
        elif kind == "stop":
            v = _Sub(res[0]).visit(_clone(res[1].value))
            pair = call_name(v) if isinstance(v, ast.Call) else None
            if pair is None or pair not in repo.mod(EXP).classes:
                problems.append(f"[{case}] stores `{pn(v)}`, not a conjugate pair")
                continue
            seen_pairs.add(pair)
            if pn(v) != f"{pair}(self.target)":
                problems.append(f"{pair} is not constructed on the sampler's target")
            if not bits[-1]:
                problems.append(f"{pair} is selected without requiring a Gamma prior")
            vfam = _isinstance_tables(repo.method(repo.cls(f"{EXP}:{pair}"), "validate_target")[1])
            true_f = [f for f, b_ in zip(fams, bits[:-1]) if b_]
            if not any(f in vfam for f in true_f):
                problems.append(f"{pair} is selected for {true_f or 'no tested family'} but validates {vfam}")
        elif kind != "raise":
            problems.append(f"[{case}] an unsupported pair does not raise ({kind})")
    if len(seen_pairs) != 2:
        problems.append(f"expected two conjugate pairs, found {sorted(seen_pairs)}")
    problems = sorted(set(problems))
    chk.decide("C10-R2", f"{conj.qual}._set_conjugatepair", not problems and not undec, not undec, site(repo, scp_src),
               "selection table matches each pair's validation; else raise", "; ".join(problems or undec), scp_src)
    scp = scp_src
    ens = [n for n in scp.body if isinstance(n, ast.Expr) and _norm(n) == "self._ensure_target_is_posterior()"]
    chk.add("C10-R2", f"{conj.qual}._set_conjugatepair/posterior-first", bool(ens) and scp.body.index(ens[0]) <= 1, site(repo, scp),
            "posterior check precedes the dispatch", "dispatch reads target.likelihood before the posterior check", scp)


def _r3(chk, repo):
    d = repo.cls("cuqi/experimental/mcmc/_direct.py:Direct")
    st = repo.method(d, "step")[1]
    from .common import method_effects
    eff = method_effects(repo, d, st, level=2)          # private helpers inlined
    ok = len(eff) == 1 and eff[0]["kind"] == "return" and eff[0]["ret"] == "1" and eff[0]["stores"] == {"self.current_point": "self.target.sample()"} and not eff[0]["calls"]
    chk.add("C10-R3", f"{d.qual}.step", ok, site(repo, st), "current_point = target.sample()", f"Direct.step does {eff}", st)


def _gamma_update(repo, ci, fn, counts) -> List[str]:
    """the value returned is one draw of Gamma(shape = m/2 + alpha, rate = ||L(Ax - b)||^2/2 + beta) with every quantity read from the target's likelihood
    and prior: decided on the CLOSED FORM of the returned expression (locals replaced by their definitions), so that neither the names of the locals nor
    how the target's parts are held in them matter"""
    from ..flow import Expander, clone as clone_
    from ..pattern import norm as pn
    from ..canon import _SymOrder
    from .common import canon_fn, expected_text
    v = canon_fn(repo, ci, fn, 1)
    ex = Expander(v)
    rets = [r for r in ex.cfg.returns() if r.ast.value is not None]
    if len(rets) != 1:
        return [f"{len(rets)} value returns: the update is not one draw"]
    got = ex.expand(rets[0].ast.value, rets[0])

    def nt(e):
        return pn(_SymOrder().visit(clone_(e)))
    LK = "self.target.likelihood"
    UNIT = f"{LK}.distribution(np.array([1]))"
    B, AX, LL, AL, BE = f"{LK}.data", f"{LK}.distribution.mean", f"{UNIT}.sqrtprec", "self.target.prior.shape", "self.target.prior.rate"
    cnts = [c.replace("$U", UNIT).replace("(b)", f"({B})") for c in counts]
    shapes = {expected_text(f"{c}/2+{AL}") for c in cnts}
    rate = expected_text(f"0.5*np.linalg.norm({LL}@({AX}-{B}))**2+{BE}")
    if not (isinstance(got, ast.Call) and isinstance(got.func, ast.Attribute) and got.func.attr == "sample" and not got.args and not got.keywords
            and isinstance(got.func.value, ast.Call) and (call_name(got.func.value) or "").rsplit(".", 1)[-1] == "Gamma"):
        return [f"update is `{unparse(got)[:160]}`, not Gamma(shape=m/2+alpha, rate=0.5*||L(Ax-b)||^2+beta) drawn once"]
    gc = got.func.value
    kw = {k.arg: k.value for k in gc.keywords if k.arg}
    for nm, a in zip(("shape", "rate"), gc.args):
        kw.setdefault(nm, a)
    problems = []
    if set(kw) != {"shape", "rate"} or len(gc.args) + len(gc.keywords) != 2:
        return [f"update is `{unparse(gc)[:160]}`: the Gamma is not given exactly a shape and a rate"]
    if nt(kw["shape"]) not in shapes:
        problems.append(f"the Gamma shape is `{unparse(kw['shape'])[:200]}`: it must be ({' or '.join(cnts)})/2 + the prior's shape "
                        f"(the exponent of the hyper-parameter in the likelihood's density is rank/2; a vector length may differ from it: a scalar mean is "
                        f"stored with length 1, an improper GMRF has rank dim-1)")
    if nt(kw["rate"]) != rate:
        problems.append(f"the Gamma rate is `{unparse(kw['rate'])[:240]}`, not 0.5*||L(Ax-b)||^2 + the prior's rate with data, mean and unit-parameter "
                        f"sqrt-precision read from the target's likelihood")
    return problems


def _r4(chk, repo):
    for pair, cnt in (("_GaussianGammaPair", ("$U.rank",)), ("_RegularizedGaussianGammaPair", ("np.count_nonzero(b)",))):
        ci = repo.cls(f"{EXP}:{pair}")
        f = repo.method(ci, "sample")[1]
        pr = _gamma_update(repo, ci, f, cnt)
        chk.add("C10-R4", f"{ci.qual}.sample", not pr, site(repo, f), "Gamma(m/2+alpha, ||L(Ax-b)||^2/2+beta), m = rank of the unit-parameter Gaussian (non-zero data entries for the regularized pair)", "; ".join(pr), f)
    leg = repo.cls(f"{LEG}:Conjugate")
    f = repo.method(leg, "step")[1]
    pr = _gamma_update(repo, leg, f, ("self._calc_m_for_Gaussians(b)",))
    from .common import canon_fn
    cm = canon_fn(repo, leg, repo.method(leg, "_calc_m_for_Gaussians")[1], 3)        # a local naming the likelihood's distribution read through
    rets = [_norm(n.value) for n in ast.walk(cm) if isinstance(n, ast.Return)]
    if rets != ["self.target.likelihood.distribution(np.array([1])).rank", "np.count_nonzero(b)"]:
        pr.append(f"_calc_m_for_Gaussians returns {rets}")
    chk.add("C10-R4", f"{leg.qual}.step", not pr, site(repo, f), "same update as the experimental pairs (sibling agreement)", "; ".join(pr), f)
    # the rank the update counts is the exponent the densities use for the hyper-parameter
    gm = repo.cls("cuqi/distribution/_gmrf.py:GMRF")
    rp = gm.props.get("rank")
    lp = repo.method(gm, "logpdf")[1]
    pr = []
    if rp is None or rp.getter is None:
        pr.append("GMRF has no `rank` property (the conjugate update reads <unit-parameter Gaussian>.rank)")
    else:
        rets = [_norm(r.value) for r in ast.walk(rp.getter) if isinstance(r, ast.Return)]
        fld = rets[0] if len(rets) == 1 else None
        if fld is None or not fld.startswith("self."):
            pr.append(f"GMRF.rank returns {rets}")
        elif f"{fld}*(np.log(self.prec)" not in _norm(lp) and f"{fld}*np.log(self.prec)" not in _norm(lp):
            pr.append(f"GMRF.rank returns `{fld}` but GMRF.logpdf does not multiply log(prec) by that field: the density's exponent of the precision "
                      f"and the count used by the conjugate update would differ")
    chk.add("C10-R4", f"{gm.qual}.@rank", not pr, site(repo, lp), "GMRF.rank is the multiplier of log(prec) in GMRF.logpdf", "; ".join(pr), lp)
    ga = repo.cls("cuqi/distribution/_gaussian.py:Gaussian")
    rp = ga.props.get("rank")
    pr = []
    rets = [_norm(r.value) for r in ast.walk(rp.getter) if isinstance(r, ast.Return)] if rp is not None and rp.getter is not None else []
    lpg = _norm(repo.method(ga, "logpdf")[1])
    if rets != ["self._rank"] or "self.rank*np.log(2*np.pi)" not in lpg:
        pr.append(f"Gaussian.rank returns {rets}; logpdf normalises with `{'self.rank' if 'self.rank' in lpg else '?'}`")
    chk.add("C10-R4", f"{ga.qual}.@rank", not pr, site(repo, rp.getter if rp and rp.getter else ga.node), "Gaussian.rank is the count in Gaussian.logpdf's normalising constant", "; ".join(pr), None)
    step = repo.method(repo.cls(f"{EXP}:Conjugate"), "step")[1]
    from .common import method_effects
    eff = method_effects(repo, repo.cls(f"{EXP}:Conjugate"), step, level=2)          # private helpers inlined
    ok = len(eff) == 1 and eff[0]["kind"] == "return" and eff[0]["ret"] == "1" and eff[0]["stores"] == {"self.current_point": "self._conjugatepair.sample()"} and not eff[0]["calls"]
    chk.add("C10-R4", f"{EXP}:Conjugate.step", ok, site(repo, step), "current_point = pair.sample()", f"Conjugate.step does {eff}", step)
