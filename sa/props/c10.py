"""C10 — conjugate and direct samplers draw from the exact conditional.

 R1 validation reaches every accept path: whenever the conjugate sampler stores a target, _set_conjugatepair and
    validate_target run unconditionally (for a non-None target); the pair's validate_target checks family, Gamma prior,
    dim == 1, exactly one occurrence of the hyper-parameter, and the functional form (probing helpers); the key dispatch
    is exhaustive (cov / prec / else raise)
 R2 dispatch tables agree: _set_conjugatepair's isinstance table and each pair's validate_target accept the same families
 R3 Direct.step: new state is self.target.sample() unmodified
 R4 Gamma update: shape = m/2 + alpha with m the number of *data* entries (len(b) / count_nonzero(b)), rate =
    ||L(Ax - b)||^2/2 + beta with L the square-root precision at unit hyper-parameter; sibling (legacy) formula agrees
"""
from __future__ import annotations
import ast
from typing import Dict, List

from ..index import Repo, AnchorError
from ..cfg import CFG, path_of
from ..astutil import unparse, call_name, func_params, walk_no_nested
from .common import site

EXP = "cuqi/experimental/mcmc/_conjugate.py"
LEG = "cuqi/sampler/_conjugate.py"


def _norm(e) -> str:
    return unparse(e).replace(" ", "").replace("\n", "")


def run(chk, repo: Repo):
    chk.rule("C10-R1", "storing a target always runs pair selection and structural validation; validation covers family, Gamma, dim 1, "
                       "single occurrence and functional form; key dispatch exhaustive", floor=6)
    chk.rule("C10-R2", "pair selection table and the pairs' own validation accept the same families", floor=2)
    chk.rule("C10-R3", "Direct.step installs target.sample() unmodified", floor=1)
    chk.rule("C10-R4", "Gamma(shape = m/2 + alpha, rate = ||L(Ax-b)||^2/2 + beta) with m counted on the data and L at unit hyper-parameter", floor=3)
    conj = repo.cls(f"{EXP}:Conjugate")
    _r1(chk, repo, conj)
    _r1_legacy(chk, repo)
    _r2(chk, repo, conj)
    _r3(chk, repo)
    _r4(chk, repo)


def _r1(chk, repo, conj):
    p = conj.lookup_prop("target")
    if p is None or p.setter is None:
        raise AnchorError("Conjugate.target setter not found")
    fn = p.setter
    g = CFG(fn)
    v = func_params(fn)[1]
    stores = [n for n in g.nodes if isinstance(n.ast, ast.Assign) and path_of(n.ast.targets[0]) == "self._target"]
    sel = [n for n in g.nodes if n.ast is not None and n.kind == "stmt" and _norm(n.ast) == "self._set_conjugatepair()"]
    val = [n for n in g.nodes if n.ast is not None and n.kind == "stmt" and _norm(n.ast) == "self.validate_target()"]
    problems = []
    if len(stores) != 1:
        problems.append("expected exactly one store of the target")
    if len(sel) != 1 or len(val) != 1:
        problems.append("pair selection / validation call missing")
    else:
        # every path from the store to the normal exit on which the target is not None passes selection and validation
        none_edges = {(t.id, "F") for t in g.tests() if _norm(t.ast) in ("self._targetisnotNone", f"{v}isnotNone")} | \
                     {(t.id, "T") for t in g.tests() if _norm(t.ast) in ("self._targetisNone", f"{v}isNone")}
        for what, node in (("_set_conjugatepair()", sel[0]), ("validate_target()", val[0])):
            reach = g.reachable_from([g.entry.id], avoid_nodes={node.id}, avoid_edges=none_edges)
            if g.exit.id in reach:
                problems.append(f"a non-None target can be stored without {what} being run (validation is skipped on some path)")
        if not g.dominates(sel[0], val[0]):
            problems.append("validation does not follow pair selection")
    chk.add("C10-R1", f"{conj.qual}.@target=", not problems, site(repo, fn), "store -> _set_conjugatepair() -> validate_target(), unconditionally for a non-None target",
            "; ".join(problems), fn)
    # no other function stores the target or swaps the pair's target
    other = []
    for m in (repo.mod(EXP), repo.mod("cuqi/experimental/mcmc/_conjugate_approx.py")):
        for f in [x for x in ast.walk(m.tree) if isinstance(x, ast.FunctionDef)]:
            if f is fn or f.name == "__init__":
                continue
            for n in walk_no_nested(f):
                if isinstance(n, ast.Assign):
                    for t in n.targets:
                        pth = path_of(t) or ""
                        if pth in ("self._target", "self._conjugatepair.target") or pth.endswith("_conjugatepair.target"):
                            other.append(f"{m.rel}:{f.name}:{n.lineno}")
    chk.add("C10-R1", f"{conj.qual}/other-target-stores", not other, "", "the target reaches the conjugate pair only through its constructor",
            f"a target is swapped into the sampler / existing pair outside the validating setter: {other}")
    vt = repo.method(conj, "validate_target")[1]
    body = [_norm(s) for s in vt.body]
    chk.add("C10-R1", f"{conj.qual}.validate_target", body == ["self._ensure_target_is_posterior()", "self._conjugatepair.validate_target()"], site(repo, vt),
            "posterior check, then the pair's structural validation", f"validate_target is {body}", vt)
    # the pairs
    for pair, fams in (("_GaussianGammaPair", "(Gaussian,GMRF)"), ("_RegularizedGaussianGammaPair", "(RegularizedGaussian,RegularizedGMRF)")):
        ci = repo.cls(f"{EXP}:{pair}")
        f = repo.method(ci, "validate_target")[1]
        g = CFG(f)
        tests = {_norm(t.ast): t for t in g.tests()}
        problems = []
        need = {
            f"isinstance(self.target.likelihood.distribution,{fams})": ("F", "likelihood family"),
            "isinstance(self.target.prior,Gamma)": ("F", "Gamma prior"),
            "self.target.prior.dim!=1": ("T", "univariate Gamma"),
        }
        for txt, (lab, what) in need.items():
            t = tests.get(txt)
            if t is None or not all(g.nodes[m].kind == "raisestmt" for m, l in g.succ[t.id] if l == lab):
                problems.append(f"{what} is not enforced (`{txt}` -> raise)")
        gp = [n for n in g.nodes if n.ast is not None and _norm(n.ast) == "key,value=_get_conjugate_parameter(self.target)"]
        if len(gp) != 1:
            problems.append("the hyper-parameter's occurrence is not extracted with _get_conjugate_parameter")
        for key, helper in (("cov", "_check_conjugate_parameter_is_scalar_reciprocal(value)"), ("prec", "_check_conjugate_parameter_is_scalar_identity(value)")):
            kt = tests.get(f"key=='{key}'")
            ht = tests.get(helper)
            if kt is None or ht is None or not g.requires_edge(ht, kt, "T") or \
                    not all(g.nodes[m].kind == "raisestmt" for m, l in g.succ[ht.id] if l == "F"):
                problems.append(f"functional form for `{key}` is not probed by {helper.split('(')[0]} with refusal on failure")
        # exhaustive: neither cov nor prec -> raise
        kc, kp = tests.get("key=='cov'"), tests.get("key=='prec'")
        if kc is not None and kp is not None:
            reach = g.reachable_from([g.entry.id], avoid_edges={(kc.id, "T"), (kp.id, "T")})
            if g.exit.id in reach:
                problems.append("a hyper-parameter entering through another variable than cov/prec is accepted")
        # every path to the normal exit passes one of the probing helpers
        if gp and g.exit_reachable_avoiding(lambda n: n.kind == "test" and "_check_conjugate_parameter_is_scalar" in _norm(n.ast)):
            problems.append("validation can succeed without the functional form having been probed")
        chk.add("C10-R1", f"{ci.qual}.validate_target", not problems, site(repo, f), "family, Gamma, dim 1, occurrence, functional form, exhaustive key dispatch",
                "; ".join(problems), f)
    gcp = repo.func(f"{EXP}:_get_conjugate_parameter")
    g = CFG(gcp)
    t1 = [t for t in g.tests() if _norm(t.ast) == "len(found_parameter_pairs)==1"]
    t2 = [t for t in g.tests() if _norm(t.ast) == "len(found_parameter_pairs)>1"]
    ok = len(t1) == 1 and len(t2) == 1 and all(g.nodes[m].kind == "raisestmt" for m, l in g.succ[t2[0].id]) and \
        all(r.kind == "return" and g.requires_edge(r, t1[0], "T") for r in g.returns())
    app = [n for n in g.nodes if n.ast is not None and n.kind == "stmt" and "found_parameter_pairs.append" in _norm(n.ast)]
    ok = ok and len(app) == 1 and any("callable(attr)" in _norm(t.ast) and lab == "T" for t, lab in g.guards_of(app[0])) \
        and any("par_nameinget_non_default_args(attr)" in _norm(t.ast) and lab == "T" for t, lab in g.guards_of(app[0]))
    lp = [n for n in ast.walk(gcp) if isinstance(n, ast.For)]
    ok = ok and len(lp) == 1 and _norm(lp[0].iter) == "mutable_likelihood_vars"
    chk.add("C10-R1", f"{EXP}:_get_conjugate_parameter", ok, site(repo, gcp), "exactly one mutable variable may depend on the hyper-parameter; 0 or >1 -> raise",
            "occurrences of the hyper-parameter are not counted over all mutable variables with refusal of 0 or several", gcp)
    for name, val in (("_check_conjugate_parameter_is_scalar_identity", "x"), ("_check_conjugate_parameter_is_scalar_reciprocal", "1.0/x")):
        f = repo.func(f"{EXP}:{name}")
        t = _norm(f)
        ok = ("[1.0,10.0,100.0]" in t) and (f"np.allclose(f(x),{val})" in t or f"math.isclose(f(x),{val})" in t) and "all(" in t
        chk.add("C10-R1", f"{EXP}:{name}", ok, site(repo, f), f"probes f at 1, 10, 100 against {val}", "probe helper does not compare f at three scales against the required form", f)


def _r1_legacy(chk, repo):
    leg = repo.cls(f"{LEG}:Conjugate")
    init = repo.method(leg, "__init__")[1]
    g = CFG(init)
    store = [n for n in g.nodes if isinstance(n.ast, ast.Assign) and path_of(n.ast.targets[0]) == "self.target"]
    if len(store) != 1:
        raise AnchorError("legacy Conjugate.__init__: store of the target not found")
    guards = {(_norm(t.ast), lab) for t, lab in g.guards_of(store[0])}
    basic = [("isinstance(target.likelihood.distribution,(Gaussian,GMRF,RegularizedGaussian,RegularizedGMRF))", "T"),
             ("isinstance(target.prior,Gamma)", "T"), ("target.prior.dim==1", "T")]
    miss = [b[0] for b in basic if b not in guards]
    chk.add("C10-R1", f"{leg.qual}.__init__/family", not miss, site(repo, init), "family, Gamma prior and dim == 1 are required before the target is stored",
            f"legacy Conjugate stores its target without requiring {miss}", init)
    probed = any(isinstance(c, ast.Call) and (call_name(c) or "").split(".")[-1] in
                 ("_get_conjugate_parameter", "_check_conjugate_parameter_is_scalar_identity", "_check_conjugate_parameter_is_scalar_reciprocal")
                 for c in ast.walk(init))
    chk.add("C10-R1", f"{leg.qual}.__init__/functional-form", probed, site(repo, init), "dependence of cov/prec on the hyper-parameter is probed",
            "legacy Conjugate never checks HOW the Gaussian depends on the hyper-parameter (the experimental sampler probes the callable): "
            "a posterior with cov = 1/s**2, cov = s or several occurrences of s is accepted and sampled with the Gamma update of cov = 1/s", init)


def _isinstance_tables(fn) -> List[str]:
    out = []
    for n in ast.walk(fn):
        if isinstance(n, ast.Call) and call_name(n) == "isinstance" and _norm(n.args[0]) == "self.target.likelihood.distribution":
            out.append(_norm(n.args[1]))
    return out


def _r2(chk, repo, conj):
    scp = repo.method(conj, "_set_conjugatepair")[1]
    g = CFG(scp)
    assigns = [n for n in g.nodes if isinstance(n.ast, ast.Assign) and path_of(n.ast.targets[0]) == "self._conjugatepair"]
    problems = []
    for n in assigns:
        pair = call_name(n.ast.value)
        fam = [_norm(t.ast.args[1]) for t, lab in g.guards_of(n) if lab == "T" and isinstance(t.ast, ast.Call) and call_name(t.ast) == "isinstance"
               and _norm(t.ast.args[0]) == "self.target.likelihood.distribution"]
        pci = repo.cls(f"{EXP}:{pair}")
        vfam = _isinstance_tables(repo.method(pci, "validate_target")[1])
        if not fam or fam[0] not in vfam:
            problems.append(f"{pair} is selected for {fam} but validates {vfam}")
        if _norm(n.ast.value) != f"{pair}(self.target)":
            problems.append(f"{pair} is not constructed on the sampler's target")
        if not any(_norm(t.ast) == "isinstance(self.target.prior,Gamma)" and lab == "T" for t, lab in g.guards_of(n)):
            problems.append(f"{pair} is selected without requiring a Gamma prior")
    if len(assigns) != 2:
        problems.append(f"expected two conjugate pairs, found {len(assigns)}")
    if g.falls_off_end and g.exit_reachable_avoiding(lambda n: n in assigns):
        problems.append("an unsupported pair does not raise")
    chk.add("C10-R2", f"{conj.qual}._set_conjugatepair", not problems, site(repo, scp), "selection table matches each pair's validation; else raise", "; ".join(problems), scp)
    ens = [n for n in scp.body if isinstance(n, ast.Expr) and _norm(n) == "self._ensure_target_is_posterior()"]
    chk.add("C10-R2", f"{conj.qual}._set_conjugatepair/posterior-first", bool(ens) and scp.body.index(ens[0]) <= 1, site(repo, scp),
            "posterior check precedes the dispatch", "dispatch reads target.likelihood before the posterior check", scp)


def _r3(chk, repo):
    d = repo.cls("cuqi/experimental/mcmc/_direct.py:Direct")
    st = repo.method(d, "step")[1]
    body = [_norm(s) for s in st.body]
    chk.add("C10-R3", f"{d.qual}.step", body == ["self.current_point=self.target.sample()", "return1"], site(repo, st),
            "current_point = target.sample()", f"Direct.step is {body}", st)


def _gamma_update(fn, count_expr) -> List[str]:
    """Gamma(shape = m/2 + alpha, rate = ||L(Ax - b)||^2/2 + beta), matched modulo renaming of the locals"""
    from ..pattern import statements, unify
    S = statements(fn)
    problems = []
    UNIT = "self.target.likelihood.distribution(np.array([1]))"
    core = ["$b=self.target.likelihood.data", "$Ax=self.target.likelihood.distribution.mean",
            f"$L={UNIT}.sqrtprec", "$al=self.target.prior.shape", "$be=self.target.prior.rate"]
    bnd, fail = unify(core, S)
    if bnd is None:      # same quantities with the unit-parameter Gaussian held in a local
        core = ["$b=self.target.likelihood.data", f"$U={UNIT}", "$Ax=self.target.likelihood.distribution.mean",
                "$L=$U.sqrtprec", "$al=self.target.prior.shape", "$be=self.target.prior.rate"]
        bnd, fail = unify(core, S)
    if bnd is None:
        return [f"`{core[fail]}` not found: data, mean, unit-parameter sqrt-precision and Gamma shape/rate must come from the target's likelihood and prior"]
    mb = None
    for ce in count_expr:
        if "$U" in ce and "U" not in bnd:
            ce = ce.replace("$U", UNIT)
        mb, _ = unify(["$m=" + ce.replace("b)", "$b)")], S, bnd)
        if mb is not None:
            break
    if mb is None:
        shown = [t for t, a in S if "len(" in t or "count_nonzero" in t or ".rank" in t or "_rank" in t]
        problems.append(f"the count entering the Gamma shape is `{shown[0] if shown else '?'}`: it must be {' or '.join(count_expr)} "
                        f"(the exponent of the hyper-parameter in the likelihood's density is rank/2; a vector length may differ from it: a scalar mean is "
                        f"stored with length 1, an improper GMRF has rank dim-1)")
        mb = dict(bnd)
        mb["m"] = shown[0].split("=")[0] if shown else "m"
    db, _ = unify(["$dist=Gamma(shape=$m/2+$al,rate=0.5*np.linalg.norm($L@($Ax-$b))**2+$be)", "return $dist.sample()"], S, mb)
    if db is None:
        shown = [t for t, a in S if "Gamma(" in t]
        problems.append(f"update is `{shown[0] if shown else '?'}`, not Gamma(shape=m/2+alpha, rate=0.5*||L(Ax-b)||^2+beta) drawn once")
    return problems


def _r4(chk, repo):
    for pair, cnt in (("_GaussianGammaPair", ("$U.rank",)), ("_RegularizedGaussianGammaPair", ("np.count_nonzero(b)",))):
        ci = repo.cls(f"{EXP}:{pair}")
        f = repo.method(ci, "sample")[1]
        pr = _gamma_update(f, cnt)
        chk.add("C10-R4", f"{ci.qual}.sample", not pr, site(repo, f), "Gamma(m/2+alpha, ||L(Ax-b)||^2/2+beta), m = rank of the unit-parameter Gaussian (non-zero data entries for the regularized pair)", "; ".join(pr), f)
    leg = repo.cls(f"{LEG}:Conjugate")
    f = repo.method(leg, "step")[1]
    pr = _gamma_update(f, ("self._calc_m_for_Gaussians(b)",))
    cm = repo.method(leg, "_calc_m_for_Gaussians")[1]
    rets = [_norm(n.value) for n in ast.walk(cm) if isinstance(n, ast.Return)]
    if rets != ["self.target.likelihood.distribution(np.array([1])).rank", "np.count_nonzero(b)"]:
        pr.append(f"_calc_m_for_Gaussians returns {rets}")
    chk.add("C10-R4", f"{leg.qual}.step", not pr, site(repo, f), "same update as the experimental pairs (sibling agreement)", "; ".join(pr), f)
    # the rank the update counts is the exponent the densities use for the hyper-parameter
    gm = repo.cls("cuqi/distribution/_gmrf.py:GMRF")
    rp = gm.props.get("rank")
    lp = repo.method(gm, "logpdf")[1]
    pr = []
    if rp is None or rp.getter is None:
        pr.append("GMRF has no `rank` property (the conjugate update reads <unit-parameter Gaussian>.rank)")
    else:
        rets = [_norm(r.value) for r in ast.walk(rp.getter) if isinstance(r, ast.Return)]
        fld = rets[0] if len(rets) == 1 else None
        if fld is None or not fld.startswith("self."):
            pr.append(f"GMRF.rank returns {rets}")
        elif f"{fld}*(np.log(self.prec)" not in _norm(lp) and f"{fld}*np.log(self.prec)" not in _norm(lp):
            pr.append(f"GMRF.rank returns `{fld}` but GMRF.logpdf does not multiply log(prec) by that field: the density's exponent of the precision "
                      f"and the count used by the conjugate update would differ")
    chk.add("C10-R4", f"{gm.qual}.@rank", not pr, site(repo, lp), "GMRF.rank is the multiplier of log(prec) in GMRF.logpdf", "; ".join(pr), lp)
    ga = repo.cls("cuqi/distribution/_gaussian.py:Gaussian")
    rp = ga.props.get("rank")
    pr = []
    rets = [_norm(r.value) for r in ast.walk(rp.getter) if isinstance(r, ast.Return)] if rp is not None and rp.getter is not None else []
    lpg = _norm(repo.method(ga, "logpdf")[1])
    if rets != ["self._rank"] or "self.rank*np.log(2*np.pi)" not in lpg:
        pr.append(f"Gaussian.rank returns {rets}; logpdf normalises with `{'self.rank' if 'self.rank' in lpg else '?'}`")
    chk.add("C10-R4", f"{ga.qual}.@rank", not pr, site(repo, rp.getter if rp and rp.getter else ga.node), "Gaussian.rank is the count in Gaussian.logpdf's normalising constant", "; ".join(pr), None)
    step = repo.method(repo.cls(f"{EXP}:Conjugate"), "step")[1]
    body = [_norm(s) for s in step.body]
    chk.add("C10-R4", f"{EXP}:Conjugate.step", body == ["self.current_point=self._conjugatepair.sample()", "return1"], site(repo, step),
            "current_point = pair.sample()", f"Conjugate.step is {body}", step)
