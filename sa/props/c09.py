"""C09 — Gibbs sweeps draw each block from its conditional given the current other blocks.

 R1 the sweep iterates the complete parameter-name list of the joint target
 R2 the conditional of block p is the joint conditioned on the *live* value mapping over all names != p, rebuilt
    inside the loop before the block's transitions
 R3 the block's new value is written back to the live mapping on every path through the loop body; the block sampler
    starts from the block's current value and is advanced num_sampling_steps[p] times
 R4 every sweep is followed by a store of all blocks; legacy continuation resumes from the last stored sample column
    (warm-up column only if no sample was ever stored)
 R5 constructors work on target() (shared with C11-R5)
 R6 cache coherence: state keys computed from the target at initialisation must not be restored from a state captured
    under a previous conditional after the target has been replaced
"""
from __future__ import annotations
import ast
from typing import Dict, List, Optional, Set

from ..index import Repo, ClassInfo, AnchorError
from ..cfg import CFG, path_of
from ..flow import Expander
from ..astutil import unparse, call_name, func_params, walk_no_nested
from .common import site, top_level_index, concrete_experimental_samplers

HG = "cuqi/experimental/mcmc/_gibbs.py:HybridGibbs"
LG = "cuqi/sampler/_gibbs.py:Gibbs"


def run(chk, repo: Repo):
    chk.rule("C09-R1", "sweep loop iterates the full list target.get_parameter_names()", floor=2)
    chk.rule("C09-R2", "block target = joint(**{all other names: live current values}), re-created inside the loop before the block's step", floor=2)
    chk.rule("C09-R3", "new block value written back to the live mapping on every path of the loop body; sampler starts from the "
                       "current value (legacy: every step override reads its current-value parameter or is a tabled closed-form draw); advanced num_sampling_steps times", floor=4)
    chk.rule("C09-R4", "each sweep is followed by a store of every block; continuation resumes from the last stored sample; sample/warmup have no effect on the sampler outside the sweep loop", floor=5)
    chk.rule("C09-R5", "samplers are constructed on target() (see C11-R5)", floor=2)
    chk.rule("C09-R6", "target-derived cached state is not restored across a change of the block sampler's target; what the initialisation hooks "
                       "(_initialize, _pre_warmup, _pre_sample) derive does not depend on the value the attribute had before: after HybridGibbs re-targets a "
                       "block and reinitialises it, its state is that of a fresh sampler on the new conditional", floor=1)
    _hybrid(chk, repo)
    _r6_fresh_initialisation(chk, repo)
    _legacy(chk, repo)


def _single_loop(fn, label) -> ast.For:
    loops = [n for n in fn.body if isinstance(n, ast.For)]
    if len(loops) != 1:
        raise AnchorError(f"{label}: expected exactly one top-level loop, found {len(loops)}")
    return loops[0]


def _par_names_source(repo, ci, chk, rule):
    init = repo.method(ci, "__init__")[1]
    from .common import assigned_values
    asg = [n for n in ast.walk(init) if isinstance(n, ast.Assign) and path_of(n.targets[0]) == "self.par_names"]
    tp = func_params(init)[1]
    vals = assigned_values(repo, ci, init, "self.par_names")
    ok = len(vals) == 1 and vals[0] in ("self.target.get_parameter_names()", f"{tp}().get_parameter_names()")
    others = []
    for kind, name, fn in ci.all_functions():
        for n in ast.walk(fn):
            if isinstance(n, (ast.Assign, ast.AugAssign)) and fn is not init:
                tg = n.targets if isinstance(n, ast.Assign) else [n.target]
                if any(path_of(t) == "self.par_names" for t in tg):
                    others.append(f"{name}:{n.lineno}")
    chk.add(rule, f"{ci.qual}.__init__/par_names", ok and not others, site(repo, init),
            "par_names = target.get_parameter_names(), assigned once", f"par_names is not the joint's full parameter list (other writes: {others})",
            asg[0] if asg else init)


def _every_path_through_body_passes(g: CFG, loop_iter_node, pred) -> bool:
    """Every path from the loop head's T edge back to the head (or out of the loop by falling through) passes pred."""
    starts = [m for m, lab in g.succ[loop_iter_node.id] if lab == "T"]
    avoid = {n.id for n in g.nodes if pred(n)}
    reach = g.reachable_from(starts, avoid_nodes=avoid)
    return loop_iter_node.id not in reach


# a stored value may read the attribute it replaces only to normalise the CONFIGURED value (same information, other shape)
_SELF_READ_OK = {("CWMH", "_initialize", "scale"): "a scalar scale is broadcast to one entry per component; the value is the configured one"}


def _r6_fresh_initialisation(chk, repo):
    from .common import canon_fn
    n, bad = 0, []
    for ci in repo.classes_in("cuqi/experimental/mcmc/"):
        for name in ("_initialize", "initialize", "_pre_warmup", "_pre_sample"):
            if name not in ci.methods:
                continue
            fn = ci.methods[name]
            v = canon_fn(repo, ci, fn, 2)
            ex = Expander(v)
            for nd in ex.cfg.nodes:
                a = nd.ast
                if nd.kind != "stmt" or not isinstance(a, (ast.Assign, ast.AugAssign)):
                    continue
                for t in (a.targets if isinstance(a, ast.Assign) else [a.target]):
                    p = path_of(t)
                    if not (p and p.startswith("self.") and p.count(".") == 1):
                        continue
                    n += 1
                    attr = p[5:]
                    e = ex.expand(a.value, nd)
                    reads = isinstance(a, ast.AugAssign) or any(path_of(x) == p for x in ast.walk(e)) or any(
                        isinstance(c, ast.Call) and call_name(c) == "getattr" and len(c.args) >= 2 and path_of(c.args[0]) == "self"
                        and isinstance(c.args[1], ast.Constant) and c.args[1].value == attr for c in ast.walk(e))
                    if reads and (ci.name, name, attr) not in _SELF_READ_OK:
                        bad.append((ci, fn, a, attr))
    for ci, fn, a, attr in bad:
        chk.fail("C09-R6", f"{ci.qual}.{fn.name}/fresh:{attr}", site(repo, a),
                 f"`{unparse(a)[:90]}` derives `{attr}` from the value it had before the (re)initialisation: a block sampler that HybridGibbs re-targets and "
                 f"reinitialises every sweep carries information from every earlier conditional (e.g. a running minimum of a step size) into the current one, "
                 f"so the block update is not the update of a fresh sampler on the current conditional", a)
    if not bad:
        chk.ok("C09-R6", "cuqi/experimental/mcmc/*/fresh-initialisation", "", f"{n} attribute stores in initialisation hooks, none reads the attribute it replaces "
               f"({len(_SELF_READ_OK)} tabled normalisation)")
    if n < 30:
        raise AnchorError(f"{n} attribute stores in the initialisation hooks of the experimental samplers found, at least 30 confirmed by hand")


def _hybrid(chk, repo):
    from .common import canon_fn, canon_keep
    from ..pattern import norm as pn
    ci = repo.cls(HG)
    step_src = repo.method(ci, "step")[1]
    # structural normal form; private helpers inlined except the ones the rules are about
    step = canon_keep(repo, ci, step_src, keep={"_set_target", "_store_samples", "_set_targets"}, subst="bool")      # named booleans folded into their tests
    g = CFG(step)
    loop = _single_loop(step, f"{ci.qual}.step")
    pv = loop.target.id if isinstance(loop.target, ast.Name) else None
    # R1
    chk.add("C09-R1", f"{ci.qual}.step", unparse(loop.iter) == "self.par_names" and pv is not None, site(repo, loop),
            "for par_name in self.par_names", f"sweep iterates `{unparse(loop.iter)}`", loop)
    _par_names_source(repo, ci, chk, "C09-R1")
    # R2: first top-level statement of the body re-targets the block
    body = loop.body
    st = [i for i, s in enumerate(body) if isinstance(s, ast.Expr) and isinstance(s.value, ast.Call) and call_name(s.value) == "self._set_target"]
    steps = [c for c in ast.walk(loop) if isinstance(c, ast.Call) and isinstance(c.func, ast.Attribute) and c.func.attr == "step"]
    ok = len(st) == 1 and [unparse(a) for a in body[st[0]].value.args] == [pv]
    if ok and steps:
        i_step = top_level_index(body, steps[0])
        ok = st[0] < i_step
    problems = [] if ok else ["_set_target(par_name) is not called unconditionally in the loop body before the block's step"]
    stf_src = repo.method(ci, "_set_target")[1]
    stf = canon_fn(repo, ci, stf_src, 3)       # loops that fill the dict become comprehensions, temporaries are substituted
    p = func_params(stf)[1]
    asg = [n for n in ast.walk(stf) if isinstance(n, ast.Assign) and isinstance(n.targets[0], ast.Attribute) and n.targets[0].attr == "target"]
    if len(asg) != 1:
        raise AnchorError(f"{ci.qual}._set_target: expected one target assignment")
    want = pn(f"self.samplers[{p}].target=self.target(**{{_k0:self.current_samples[_k0] for _k0 in self.par_names if _k0!={p}}})")
    got = pn(asg[0])
    if got != want:
        dcs = [n for n in ast.walk(asg[0]) if isinstance(n, ast.DictComp)]
        if not dcs:
            problems.append(f"block target is `{unparse(asg[0])[:120]}`: not the joint conditioned on a mapping of the other blocks' values")
        else:
            d = dcs[0]
            gen = d.generators[0]
            if pn(gen.iter) != "self.par_names":
                problems.append(f"conditioning dict iterates `{unparse(gen.iter)}`, not all parameter names")
            if [pn(c) for c in gen.ifs] != [pn(f"_k0!={p}")]:
                problems.append(f"conditioning dict filter is {[unparse(c) for c in gen.ifs]}, expected [other != {p}]")
            if pn(d.value) != "self.current_samples[_k0]":
                problems.append(f"conditioning values are `{unparse(d.value)}`, not the live self.current_samples[other]")
            if not problems:
                problems.append(f"block target is `{unparse(asg[0])[:160]}`, expected self.samplers[{p}].target = self.target(**<that mapping>)")
    chk.add("C09-R2", f"{ci.qual}.step/_set_target", not problems, site(repo, stf_src),
            "block target = self.target(**{other: self.current_samples[other]}) rebuilt inside the loop", "; ".join(problems), stf)
    # R3a: write-back on every path through the loop body
    itn = g.node_of(loop)

    def is_writeback(n):
        a = n.ast
        return isinstance(a, ast.Assign) and isinstance(a.targets[0], ast.Subscript) and \
            unparse(a.targets[0]) == f"self.current_samples[{pv}]"
    wbs = [n for n in g.nodes if n.ast is not None and is_writeback(n)]
    ok = bool(wbs) and _every_path_through_body_passes(g, itn, is_writeback)
    _exw = Expander(step)
    # ... whichever definition of a local holding it reaches the store (`p = sampler.current_point; if ..: p = p.reshape(-1); store p`)
    vals_ok = all(any(w_ in unparse(x_) for w_ in ("sampler.current_point", f"self.samplers[{pv}].current_point"))
                  for n in wbs for x_ in _exw.expand_all(n.ast.value, _exw.cfg.stmt_node_containing(n.ast) or n))
    chk.add("C09-R3", f"{ci.qual}.step/write-back", ok and vals_ok, site(repo, wbs[0].ast if wbs else loop),
            f"self.current_samples[{pv}] = sampler.current_point on every path through the loop body",
            "some path through the loop body reaches the next block without writing the block's new value back to current_samples "
            "(later blocks would be conditioned on a stale value)" if not ok else "written value is not the sampler's current point", loop)
    # R3b: sampler is self.samplers[par_name]; advanced num_sampling_steps[par_name] times; step unconditional in inner loop
    ex = Expander(step, g)
    problems = []
    inner = [s for s in body if isinstance(s, ast.For)]
    if len(inner) != 1 or unparse(ex.expand(inner[0].iter, g.node_of(inner[0]))) != f"range(self.num_sampling_steps[{pv}])":
        problems.append("block transitions are not run in `for _ in range(self.num_sampling_steps[par_name])`")
    else:
        calls = [s for s in inner[0].body if isinstance(s, ast.Assign) and isinstance(s.value, ast.Call) and unparse(s.value) == "sampler.step()"]
        if len(calls) != 1:
            problems.append("inner loop does not call sampler.step() exactly once per iteration, unconditionally")
        accs = [s for s in inner[0].body if isinstance(s, ast.Expr) and unparse(s.value).startswith("sampler._acc.append(")]
        if len(accs) != 1:
            problems.append("acceptance indicator is not appended once per transition")
    sdef = [s for s in body if isinstance(s, ast.Assign) and path_of(s.targets[0]) == "sampler"]
    if len(sdef) != 1 or unparse(sdef[0].value) != f"self.samplers[{pv}]":
        problems.append("`sampler` is not self.samplers[par_name]")
    chk.add("C09-R3", f"{ci.qual}.step/transitions", not problems, site(repo, inner[0] if inner else loop),
            "self.samplers[par_name].step() x num_sampling_steps[par_name]", "; ".join(problems), loop)
    # R3b': the configured counts survive initialisation: defaults are written only where the user gave none
    _configured_counts(chk, repo, ci)
    # R3c: state carried across the reinitialisation (starts from the block's current value)
    problems = []
    import re as _re
    sname = "sampler"
    reinit = [n for n in g.nodes if n.ast is not None and n.kind == "stmt" and _re.fullmatch(r"[A-Za-z_]\w*\.reinitialize\(\)", unparse(n.ast))]
    if not reinit:
        raise AnchorError(f"{ci.qual}.step: expected sampler.reinitialize()")
    sname = unparse(reinit[0].ast).split(".")[0]
    rn = reinit[0]
    # on every path to reinitialize either (get_state & get_history) or (initial_point = current_point) happened
    def carried(n):
        return n.ast is not None and n.kind == "stmt" and (_re.fullmatch(rf"[A-Za-z_]\w* = {sname}\.get_state\(\)", unparse(n.ast)) is not None
                                                           or unparse(n.ast) == f"{sname}.initial_point = {sname}.current_point")
    if not all(g.must_pass(r_, carried) for r_ in reinit):
        problems.append("some path reaches sampler.reinitialize() without capturing the block's current state")
    setst = [n for n in g.nodes if n.ast is not None and n.kind == "stmt" and _re.fullmatch(rf"{sname}\.set_state\([A-Za-z_]\w*\)", unparse(n.ast))]
    nuts_guard = [t for t in g.tests() if unparse(t.ast) == f"isinstance({sname}, NUTS)"]
    first_inner = g.node_of(inner[0]) if inner else None
    for r_ in reinit:
        if any(t in nuts_guard and lab == "T" for t, lab in g.guards_of(r_)):
            continue          # NUTS branch exempt (restarted from initial_point = current_point)
        if not any(g.dominates(r_, s_) for s_ in setst):
            problems.append("captured state is not restored after reinitialize()")
            continue
        if first_inner is not None:
            # every non-NUTS path from reinitialize to the first transition passes set_state
            avoid_edges = {(t.id, "T") for t in nuts_guard if g.dominates(r_, t)}
            reach = g.reachable_from([m for m, _ in g.succ[r_.id]], avoid_nodes={s_.id for s_ in setst}, avoid_edges=avoid_edges)
            if first_inner.id in reach:
                problems.append("a non-NUTS sampler can reach its transitions without its state having been restored")
    chk.add("C09-R3", f"{ci.qual}.step/start-point", not problems, site(repo, step_src),
            "state captured before and restored after reinitialize (NUTS: initial_point = current_point)", "; ".join(problems), step_src)
    # R4: sample / warmup
    for m in ("sample", "warmup"):
        fn_src = repo.method(ci, m)[1]
        fn = fn_src
        if not [n for n in fn.body if isinstance(n, (ast.For, ast.While))]:
            # the sweep loop moved into a private helper shared by sample and warmup: inlined again (a default such as tune_interval=None is folded)
            from .common import canon_keep
            fn = canon_keep(repo, ci, fn_src, {"step", "tune", "_store_samples", "_set_targets", "_set_target"}, subst="bool")
        lp = _single_loop(fn, f"{ci.qual}.{m}")
        idx = [(i, unparse(s)) for i, s in enumerate(lp.body) if isinstance(s, ast.Expr)]
        i_step = [i for i, t in idx if t == "self.step()"]
        i_store = [i for i, t in idx if t == "self._store_samples()"]
        nested = [c for c in ast.walk(lp) if isinstance(c, ast.Call) and call_name(c) in ("self.step", "self._store_samples")]
        ok = len(i_step) == 1 and len(i_store) == 1 and i_step[0] < i_store[0] and len(nested) == 2
        chk.add("C09-R4", f"{ci.qual}.{m}", ok, site(repo, lp), "step() then _store_samples(), once each, unconditionally per sweep",
                "a sweep is not followed by exactly one unconditional store of the current values", lp)
        # nothing but the sweeps changes the sampler: outside the loop no statement has an effect on self or on an object reached from self
        # (re-targeting a block sampler runs its validate_target, which for Direct draws a sample: N then M sweeps would differ from N+M)
        eff = []
        for st in fn.body:
            if st is lp or any(st is x for x in ast.walk(lp)):
                continue
            for why in _deep_effects(ci, st):
                eff.append(f"`{unparse(st)[:60]}`: {why}")
        chk.add("C09-R4", f"{ci.qual}.{m}/outside-loop", not eff, site(repo, fn), "statements outside the sweep loop are effect-free",
                f"{'; '.join(eff[:3])} -- {m}() changes sampler state (or consumes random numbers through the block samplers' target validation) besides its "
                f"sweeps, so drawing N then M sweeps no longer equals drawing N+M", fn)
    ss_src = repo.method(ci, "_store_samples")[1]
    ss = canon_fn(repo, ci, ss_src, 3)
    lp = _single_loop(ss, f"{ci.qual}._store_samples")
    v = lp.target.id
    ok = unparse(lp.iter) == "self.par_names" and len(lp.body) == 1 and unparse(lp.body[0]) == f"self.samples[{v}].append(self.current_samples[{v}])"
    chk.add("C09-R4", f"{ci.qual}._store_samples", ok, site(repo, ss_src), "appends current_samples[p] for every p", "not every block's current value is stored", ss_src)
    # R5
    init = repo.method(ci, "__init__")[1]
    asg = [n for n in ast.walk(init) if isinstance(n, ast.Assign) and path_of(n.targets[0]) == "self.target"]
    from .common import assigned_values as _av
    chk.add("C09-R5", f"{ci.qual}.__init__", _av(repo, ci, init, "self.target") == [f"{func_params(init)[1]}()"], site(repo, init),
            "self.target = target()", "sampler does not work on a conditioned copy of the joint", init)
    # R6: cache coherence
    derived = _target_derived_keys(repo)
    # sampler classes that are excluded from the state restore by an isinstance test on the way to set_state()
    excluded = set()
    if setst:
        for t, lab in g.guards_of(setst[0]):
            core, neg = t.ast, False
            while isinstance(core, ast.UnaryOp) and isinstance(core.op, ast.Not):
                core, neg = core.operand, not neg
            if isinstance(core, ast.Call) and call_name(core) == "isinstance" and len(core.args) == 2 and (lab == "F") != neg:
                cls_ = core.args[1].elts if isinstance(core.args[1], ast.Tuple) else [core.args[1]]
                excluded |= {unparse(c_).split(".")[-1] for c_ in cls_}
    affected = sorted(k for k, v in derived.items() if v and k not in excluded)
    stale = bool(setst) and bool(affected)
    # a recomputation after set_state would discharge the obligation
    recomputed = False
    if setst:
        for n in g.nodes:
            if n.ast is not None and n.kind == "stmt" and g.dominates(setst[0], n) and n.id != setst[0].id:
                t = unparse(n.ast)
                if any(f"sampler.{k}" in t and "=" in t for ks in derived.values() for k in ks) or "_recompute" in t or "_update_cache" in t:
                    recomputed = True
    chk.add("C09-R6", f"{ci.qual}.step/set_state-after-retarget({'|'.join(affected)})", not stale or recomputed, site(repo, setst[0].ast if setst else step),
            "target-derived caches are recomputed under the new conditional",
            f"set_state() restores {sorted({k for ks in derived.values() for k in ks})} captured under the previous conditional after "
            f"_set_target()/reinitialize() had recomputed them for the new one (samplers affected: {affected}): the next Metropolis ratio "
            f"uses a cached log-density/gradient that does not belong to the current target", setst[0].ast if setst else step)


def _target_derived_keys(repo) -> Dict[str, Set[str]]:
    """per experimental sampler class: state keys assigned during initialisation from an evaluation of the target"""
    out = {}
    for ci in concrete_experimental_samplers(repo):
        keys = repo.fold_keys(ci, "_STATE_KEYS")
        found = set()
        # everything initialisation runs: initialize / _initialize and the own methods they call (template-method hooks, super() chains), in every
        # definition along the MRO
        names, work = set(), ["initialize", "_initialize"]
        while work:
            mname = work.pop()
            if mname in names:
                continue
            names.add(mname)
            for c in ci.mro():
                fn = c.methods.get(mname)
                if fn is None:
                    continue
                for x in ast.walk(fn):
                    if isinstance(x, ast.Call) and isinstance(x.func, ast.Attribute) and isinstance(x.func.value, (ast.Name, ast.Call)):
                        recv = x.func.value
                        if (isinstance(recv, ast.Name) and recv.id == "self") or (isinstance(recv, ast.Call) and call_name(recv) == "super"):
                            if x.func.attr.startswith("_") and not x.func.attr.startswith("__"):
                                work.append(x.func.attr)
        for mname in sorted(names):
            for c in ci.mro():
                fn = c.methods.get(mname)
                if fn is None:
                    continue
                for n in walk_no_nested(fn):
                    if isinstance(n, ast.Assign):
                        tg = [t for T in n.targets for t in (T.elts if isinstance(T, ast.Tuple) else [T])]
                        txt = unparse(n.value)
                        if "self.target." in txt or "self._loglikelihood(" in txt or "self._nuts_target(" in txt:
                            for t in tg:
                                p = path_of(t)
                                if p and p.startswith("self.") and p[5:] in keys:
                                    found.add(p[5:])
        out[ci.name] = found
    return out


# legacy block samplers whose `step` may ignore the block's current value, with the reason
LEGACY_STATELESS_STEP = {
    "cuqi/sampler/_conjugate.py:Conjugate": "closed-form draw from the exact conditional (Gamma): no solver, no dependence on the current value",
    "cuqi/sampler/_conjugate_approx.py:ConjugateApprox": "closed-form draw from the approximate conditional (Gamma): no solver, no dependence on the current value",
}


_PURE_METHODS = {"get", "keys", "values", "items", "copy", "index", "count", "get_density", "get_parameter_names", "format", "join"}
_PURE_FUNCS = {"max", "min", "int", "float", "len", "range", "tqdm", "isinstance", "abs", "round", "bool", "str", "print", "enumerate", "zip", "list", "tuple", "dict",
               "sorted", "hasattr", "getattr", "ValueError", "TypeError", "NotImplementedError", "warnings.warn", "np.ceil", "np.floor", "np.array", "np.asarray"}


def _deep_effects(ci, node, seen=None, depth=0):
    """reasons why executing `node` (a statement of a method of ci) may change self or an object reached from self: stores / deletes / in-place
    operations on a self-rooted path, mutator or unknown method calls on self-rooted objects, calls of own methods that have such effects"""
    from ..astutil import MUTATOR_METHODS
    seen = seen if seen is not None else set()
    out = []
    aliases = set()          # locals bound to self-rooted objects in this node
    def rooted(e):
        while isinstance(e, (ast.Attribute, ast.Subscript, ast.Call)):
            e = e.value if not isinstance(e, ast.Call) else e.func
        return isinstance(e, ast.Name) and (e.id == "self" or e.id in aliases)
    for n in ast.walk(node):
        if isinstance(n, (ast.For, ast.comprehension)) and rooted(n.iter):
            aliases |= {t.id for t in ast.walk(n.target) if isinstance(t, ast.Name)}
        if isinstance(n, ast.Assign) and rooted(n.value) and not isinstance(n.value, ast.Call):
            aliases |= {t.id for T in n.targets for t in ast.walk(T) if isinstance(t, ast.Name) and isinstance(T, ast.Name)}
    for n in ast.walk(node):
        tg = []
        if isinstance(n, ast.Assign):
            tg = [t for T in n.targets for t in (T.elts if isinstance(T, (ast.Tuple, ast.List)) else [T])]
        elif isinstance(n, (ast.AugAssign, ast.AnnAssign)):
            tg = [n.target]
        elif isinstance(n, ast.Delete):
            tg = n.targets
        for t in tg:
            if isinstance(t, (ast.Attribute, ast.Subscript)) and rooted(t):
                out.append(f"writes `{unparse(t)}`")
        if isinstance(n, ast.Call):
            cn = call_name(n) or ""
            if cn in ("setattr", "delattr") and n.args and rooted(n.args[0]):
                out.append(f"`{unparse(n)[:50]}`")
            elif isinstance(n.func, ast.Attribute) and rooted(n.func.value):
                m = n.func.attr
                if cn.startswith("self.") and cn.count(".") == 1 and ci.lookup(m) is not None:
                    if (ci.qual, m) in seen or depth > 6:
                        continue
                    seen.add((ci.qual, m))
                    sub = []
                    for st in ci.lookup(m)[1].body:
                        sub += _deep_effects(ci, st, seen, depth + 1)
                    if sub:
                        out.append(f"self.{m}() {sub[0]}")
                elif m in MUTATOR_METHODS:
                    out.append(f"`{unparse(n)[:50]}` mutates in place")
                elif m not in _PURE_METHODS:
                    out.append(f"calls `{unparse(n.func)}` on an object owned by the sampler")
    return out


def _legacy_steps_start_from_current(chk, repo):
    """Every legacy sampler's `step(x)` starts the transition at x: the generic Sampler.step stores x as x0 before sampling; an override either
    lets its current-value parameter flow into the body or is a tabled closed-form conditional draw."""
    n = 0
    for ci in repo.classes_in("cuqi/sampler/"):
        fn = ci.methods.get("step")
        if fn is None or ci.qual == LG:
            continue
        n += 1
        inst = f"{ci.qual}.step"
        params = func_params(fn)
        cur = params[1] if len(params) > 1 else None
        reads = cur is not None and any(isinstance(x, ast.Name) and x.id == cur and isinstance(x.ctx, ast.Load) for x in ast.walk(fn))
        if ci.qual in LEGACY_STATELESS_STEP:
            chk.add("C09-R3", inst, True, site(repo, fn), f"tabled state-free step: {LEGACY_STATELESS_STEP[ci.qual]}", "", fn)
            continue
        chk.add("C09-R3", inst, reads, site(repo, fn), f"the transition reads the block's current value `{cur}`",
                f"step ignores the current value `{cur}` handed over by the Gibbs sweep: the block's transition (e.g. a truncated inner solve) is started from the sampler's "
                f"construction-time default instead of the block's current value", fn)
    if n < 3:
        raise AnchorError(f"legacy step methods: found {n}, expected at least 3 (Sampler, Conjugate, ConjugateApprox)")


def _legacy(chk, repo):
    _legacy_steps_start_from_current(chk, repo)
    from .common import canon_fn, pmatch
    from ..pattern import norm as pn
    ci = repo.cls(LG)
    step_src = repo.method(ci, "step")[1]
    step = canon_fn(repo, ci, step_src, 2)       # structural normal form (loops that fill a dict become comprehensions), helpers inlined
    cs = func_params(step)[1]
    loop = _single_loop(step, f"{ci.qual}.step")
    pv = loop.target.id
    ex = Expander(step)
    g = ex.cfg
    itn = g.node_of(loop)
    names_src = unparse(ex.expand(loop.iter, itn))
    ok = names_src == "self.par_names"
    chk.add("C09-R1", f"{ci.qual}.step", ok, site(repo, step_src), "for par_name in self.par_names", f"sweep iterates `{names_src}`", step_src)
    _par_names_source(repo, ci, chk, "C09-R1")
    # R2 + R3: the value written back for block p, with every local replaced by its definition
    WANT = f"self.samplers[{pv}](self.target(**{{_k0:{cs}[_k0] for _k0 in self.par_names if _k0!={pv}}})).step({cs}[{pv}])"
    wb_nodes = [n for n in g.nodes if n.kind == "stmt" and isinstance(n.ast, ast.Assign) and pn(n.ast.targets[0]) == pn(f"{cs}[{pv}]")]
    if not wb_nodes:
        raise AnchorError(f"{ci.qual}.step: no write-back `{cs}[{pv}] = ...` in the sweep")
    problems = []
    good = []
    for n in wb_nodes:
        e = ex.expand(n.ast.value, n, stop=frozenset({cs, pv}))
        t = pn(e)
        if t == pn(f"{cs}[{pv}].reshape(-1)"):
            continue                         # re-shaping of the value just written
        core = t[:-len(".reshape(-1)")] if t.endswith(".reshape(-1)") else t
        if core == pn(WANT):
            good.append(n)
        else:
            # name what differs
            if ".step(" not in core:
                problems.append(f"`{unparse(n.ast)[:70]}` is not the result of the block sampler's step")
            elif not core.endswith(pn(f".step({cs}[{pv}])")):
                problems.append(f"the block's transition does not start from its current value {cs}[{pv}]: `{unparse(e)[-60:]}`")
            else:
                problems.append(f"block sampler is `{unparse(e)[:150]}`, expected self.samplers[p](self.target(**{{other: {cs}[other] for other in self.par_names if other != p}})): "
                                f"it must be built inside the loop on the joint conditioned on the LIVE values of all other blocks")
    chk.add("C09-R2", f"{ci.qual}.step", bool(good) and not problems, site(repo, step_src), "sampler built on self.target(**{other: current[other]}) inside the loop",
            "; ".join(problems) or "no write-back of a block transition found", step_src)

    def is_wb(n):
        return any(n is x for x in good)
    ok = len(good) == 1 and _every_path_through_body_passes(g, itn, is_wb)
    chk.add("C09-R3", f"{ci.qual}.step/write-back", ok, site(repo, step_src),
            f"{cs}[p] = sampler.step({cs}[p]) on every path (starts from the block's current value, result written back)",
            "the block's transition does not start from its current value or its result is not written back on every path", step_src)
    rets = [n for n in step.body if isinstance(n, ast.Return)]
    chk.add("C09-R3", f"{ci.qual}.step/return", len(rets) == 1 and path_of(rets[0].value) == cs, site(repo, step_src),
            "returns the updated mapping", "step does not return the updated mapping", step_src)
    # R4: sample loops
    smp = repo.method(ci, "sample")[1]
    loops = [n for n in smp.body if isinstance(n, ast.For)]
    if len(loops) != 2:
        raise AnchorError(f"{ci.qual}.sample: expected warm-up and sampling loops")
    for lp, fname, store in ((loops[0], "self.step_tune", "self.samples_warmup"), (loops[1], "self.step", "self.samples")):
        i = lp.target.id
        b = [unparse(s) for s in lp.body]
        ok = len(b) >= 2 and b[0] == f"current_samples = {fname}(current_samples)" and b[1] == f"self._store_samples({store}, current_samples, {i})"
        chk.add("C09-R4", f"{ci.qual}.sample/{fname.split('.')[-1]}-loop", ok, site(repo, lp),
                "sweep then store of all blocks at the sweep's index", f"loop body is {b[:2]}", lp)
    init_ok = any(isinstance(s, ast.Assign) and unparse(s) == "current_samples = self._get_initial_points()" for s in smp.body)
    ss_src = repo.method(ci, "_store_samples")[1]
    ss = canon_fn(repo, ci, ss_src, 4)          # loop normal forms (while / indexed loops -> for e in S), aliases of self.par_names substituted
    lp = _single_loop(ss, f"{ci.qual}._store_samples")
    ps = func_params(ss)
    ok = unparse(lp.iter) == "self.par_names" and len(lp.body) == 1 and \
        unparse(lp.body[0]) == f"{ps[1]}[{lp.target.id}][:, {ps[3]}] = {ps[2]}[{lp.target.id}]"
    chk.add("C09-R4", f"{ci.qual}._store_samples", ok and init_ok, site(repo, ss_src), "stores every block's value in column i",
            "not every block is stored, or sampling does not start from _get_initial_points()", ss_src)
    # ... and the number of stored sweeps is the number of COLUMNS of the (dim x N) storage of a block (len() would be its dimension)
    from .common import closed_outcomes, expected_text
    for pname, store in (("_Ns", "samples"), ("_Nb", "samples_warmup")):
        pr = ci.lookup_prop(pname)
        if pr is None or pr.getter is None:
            raise AnchorError(f"{ci.qual}.{pname}: property not found")
        outs = closed_outcomes(repo, ci, pr.getter, level=2)          # private helpers inlined
        cols = {expected_text(f"self.{store}[self.par_names[0]].shape[{k}]") for k in ("-1", "1")}
        vals = {t for k_, t in outs if k_ == "return"}
        ok = all(k_ == "return" for k_, _ in outs) and len(vals) == 2 and "0" in vals and bool(vals & cols)
        chk.add("C09-R4", f"{ci.qual}.@{pname}", ok, site(repo, pr.getter), f"number of columns of self.{store}[first block], 0 before the first call",
                f"`{pname}` is {sorted(vals)}: not the number of stored columns of the (dim x N) block storage - a continued run computes its column offsets from it, so "
                f"new sweeps overwrite stored ones / leave zero columns", pr.getter)
    # a second warm-up is refused once warm-up storage exists (a continuation with Nb = 0 re-creates that storage with zero columns, so a test on the
    # number of stored warm-up sweeps forgets that warm-up was run): with the storage present and Nb != 0 every path raises
    from .common import method_effects
    aw = repo.method(ci, "_allocate_samples_warmup")[1]
    nb = func_params(aw)[1]
    val = {pn("hasattr(self,'samples_warmup')"): True, pn(f"{nb}!=0"): True, pn(f"{nb}==0"): False, pn(f"0<{nb}"): True, pn(f"{nb}>0"): True}
    eff = method_effects(repo, ci, aw, valuation=val, view=canon_fn(repo, ci, aw, 3))          # helpers inlined, (boolean) temporaries substituted
    kinds = sorted({e["kind"] for e in eff})
    chk.decide("C09-R4", f"{ci.qual}._allocate_samples_warmup/second-warm-up", kinds == ["raise"], bool(eff) and "unknown" not in kinds, site(repo, aw),
               "warm-up storage present and Nb != 0 -> refused on every path",
               f"with warm-up storage present and Nb != 0 the paths end as {kinds}: a further warm-up after a continued run is accepted; its transitions start from the last "
               f"recorded state and are stored only in the warm-up arrays, so the returned chain silently skips them", aw)
    # continuation: the history of a further call is the stored sweeps FOLLOWED by the new columns (sweeps are stored at absolute indices Ns_old + i)
    from .common import match as _match, stmts as _stmts
    al = repo.method(ci, "_allocate_samples")[1]
    joins = []
    for c_ in ast.walk(al):
        if isinstance(c_, ast.Call) and (call_name(c_) or "") in ("np.hstack", "np.concatenate", "np.append", "np.column_stack", "np.c_"):
            seq = c_.args[0].elts if c_.args and isinstance(c_.args[0], (ast.Tuple, ast.List)) else list(c_.args)
            pos = [i_ for i_, e_ in enumerate(seq) if any(isinstance(x_, ast.Subscript) and path_of(x_.value) == "self.samples" for x_ in ast.walk(e_))]
            if pos:
                joins.append((c_, pos, len(seq)))
    recc = bool(joins)
    okc = recc and all(pos == [0] and n_ >= 2 for _, pos, n_ in joins)
    chk.decide("C09-R4", f"{ci.qual}._allocate_samples/append", okc, recc, site(repo, al), "continuation history = [stored sweeps, new columns]",
               "on a continuation call the new (empty) columns are not appended BEHIND the stored sweeps: the sweeps are then written over earlier ones "
               "and the recorded history is not the sequence of states the sampler visited", al)
    # continuation priority
    gip_src = repo.method(ci, "_get_initial_points")[1]
    gip = canon_fn(repo, ci, gip_src, 1)
    g2 = CFG(gip)
    problems = []
    def reads(n, attr):
        if n.ast is None or n.kind not in ("stmt", "return") or not isinstance(n.ast, (ast.Assign, ast.Return)) or n.ast.value is None:
            return False
        return f"self.{attr}[" in unparse(n.ast.value)
    s_nodes = [n for n in g2.nodes if reads(n, "samples")]
    w_nodes = [n for n in g2.nodes if reads(n, "samples_warmup")]
    if len(s_nodes) != 1 or len(w_nodes) != 1:
        raise AnchorError(f"{ci.qual}._get_initial_points: expected one read of samples and one of samples_warmup")
    if "[:, -1]" not in unparse(s_nodes[0].ast.value) or "[:, -1]" not in unparse(w_nodes[0].ast.value):
        problems.append("continuation does not read the last stored column [:, -1]")
    # the warm-up column may only be used when no sample has been stored: the warm-up read must require the 'absent' edge
    # of a test about the stored samples
    def samples_test(t):
        txt = unparse(t.ast)
        return ("'samples'" in txt and "hasattr" in txt) or "self._Ns" in txt
    tests = [t for t in g2.tests() if samples_test(t)]
    req = [t for t in tests if g2.requires_edge(w_nodes[0], t, "F")]
    if not req:
        problems.append("the last warm-up state can be used as continuation point although samples have been stored "
                        "(the stored-samples branch does not take priority)")
    sreq = [t for t in tests if g2.requires_edge(s_nodes[0], t, "T")]
    if not sreq:
        problems.append("the stored-samples branch is not selected by a test on the stored samples")
    chk.add("C09-R4", f"{ci.qual}._get_initial_points", not problems, site(repo, gip_src),
            "resume from samples[:, -1]; warm-up column only if no sample was ever stored", "; ".join(problems), gip_src)
    init = repo.method(ci, "__init__")[1]
    asg = [n for n in ast.walk(init) if isinstance(n, ast.Assign) and path_of(n.targets[0]) == "self.target"]
    from .common import assigned_values as _av
    chk.add("C09-R5", f"{ci.qual}.__init__", _av(repo, ci, init, "self.target") == [f"{func_params(init)[1]}()"], site(repo, init),
            "self.target = target()", "sampler does not work on a conditioned copy of the joint", init)


def _configured_counts(chk, repo, ci):
    """num_sampling_steps: the constructor stores the user's mapping; every later write to it (whole mapping or one key) either is guarded by
    `is None` / `not in` on that mapping, or is a dict merge in which the user's mapping comes LAST (later entries win in {**a, **b})."""
    FIELD = "self.num_sampling_steps"
    init = repo.method(ci, "__init__")[1]
    stored = [s for s in ast.walk(init) if isinstance(s, ast.Assign) and path_of(s.targets[0]) == FIELD]
    params = func_params(init)
    if len(stored) != 1 or path_of(stored[0].value) not in params:
        raise AnchorError(f"{ci.qual}.__init__: storing of the num_sampling_steps argument not recognised")
    problems = []
    n_writes = 0
    for kind, name, fn in ci.all_functions():
        if fn is init:
            continue
        g = None
        for s in ast.walk(fn):
            tgt = None
            if isinstance(s, ast.Assign):
                t = s.targets[0]
                if path_of(t) == FIELD:
                    tgt = "whole"
                elif isinstance(t, ast.Subscript) and path_of(t.value) == FIELD:
                    tgt = "key"
            elif isinstance(s, ast.Expr) and isinstance(s.value, ast.Call) and (call_name(s.value) or "") in (FIELD + ".update", FIELD + ".setdefault"):
                tgt = "update" if call_name(s.value).endswith("update") else None
            if tgt is None:
                continue
            n_writes += 1
            if g is None:
                g = CFG(fn)
            node = g.node_of(s)
            guards = g.guards_of(node)
            gtxt = [(unparse(t.ast), lab) for t, lab in guards]
            if tgt == "whole":
                v = s.value
                if any(tx == f"{FIELD} is None" and lab == "T" for tx, lab in gtxt) or any(tx == f"{FIELD} is not None" and lab == "F" for tx, lab in gtxt):
                    continue
                if isinstance(v, ast.Dict) and any(k is None for k in v.keys):
                    # {**a, **b}: the LAST unpacked mapping mentioning the field must come after every other unpacked mapping
                    spreads = [val for k, val in zip(v.keys, v.values) if k is None]
                    idx = [i for i, sp in enumerate(spreads) if FIELD in {path_of(a) for a in ast.walk(sp) if isinstance(a, (ast.Attribute, ast.Name))}]
                    if idx and idx[-1] == len(spreads) - 1:
                        continue
                    problems.append(f"{name}: `{unparse(s)[:90]}` merges the defaults AFTER the configured mapping; later entries win, so every configured "
                                    f"count is replaced by the default")
                    continue
                problems.append(f"{name}: `{unparse(s)[:80]}` replaces the configured mapping without an `is None` guard")
            elif tgt == "key":
                key = unparse(s.targets[0].slice)
                if any(tx == f"{key} not in {FIELD}" and lab == "T" for tx, lab in gtxt) or any(tx == f"{key} in {FIELD}" and lab == "F" for tx, lab in gtxt):
                    continue
                problems.append(f"{name}: `{unparse(s)[:80]}` overwrites a possibly configured count (no `not in` guard)")
            else:
                problems.append(f"{name}: `{unparse(s)[:80]}` updates the configured mapping in bulk")
    if n_writes == 0:
        raise AnchorError(f"{ci.qual}: no default initialisation of num_sampling_steps found")
    chk.add("C09-R3", f"{ci.qual}/configured-counts", not problems, site(repo, init),
            f"{n_writes} writes of defaults, each guarded so that configured counts win", "; ".join(problems), init)
