"""C11 — conditioning, evaluating and sampling never alter the objects they start from.

 R1 write inventory: in every function of the density/distribution/likelihood/implicit-prior/model/samples/array/geometry/
    problem layers that is not a mutator by contract, no attribute store, setattr or in-place operation reaches an object
    that is not fresh (created in this call) -- except recognised idempotent caches and tabled sites.
 R2 every _condition returns a fresh object on every path (EvaluatedDensity: immutable, tabled).
 R3 copy-before-write chain of JointDistribution: the factor list is copied, every element is unconditionally replaced by a
    conditioned copy, only then reduced; _add_constants_to_density (which writes to its argument) is applied only to a new
    Posterior or to an element of that replaced list.
 R4 a conditioned copy keeps the name of its original (_make_copy back pointer, name getter, setter refuses on copies).
 R5 both Gibbs samplers work on target() (a conditioned copy), never on the caller's joint.
 R7 no in-place write in sampler code reaches an object owned by the target (shared with the user's original by the shallow copies).
 R6 lazy caches accepted by R1 are coherent: every writer of a field the cached value was computed from resets the cache, and no
    such field is a plain public attribute (conditioning re-binds those on a shallow copy that inherits the filled cache).
"""
from __future__ import annotations
import ast
from typing import Dict, List, Optional, Set, Tuple

from ..index import Repo, ClassInfo, AnchorError, parents
from ..alias import FnAlias, shallow_copy_source
from ..cfg import CFG, path_of
from ..astutil import unparse, call_name, func_params, walk_no_nested, is_abstract
from .common import site

SCOPE = ["cuqi/density/", "cuqi/distribution/", "cuqi/likelihood/", "cuqi/implicitprior/", "cuqi/model/",
         "cuqi/samples/", "cuqi/array/", "cuqi/geometry/", "cuqi/problem/"]

CONTRACT_MUTATORS = {"__init__", "__new__", "__array_finalize__", "__setitem__", "__setattr__", "__setstate__",
                     "enable_FD", "disable_FD"}

# (module, Class.function, attribute-or-root) -> reason.  One line of reason per exception, confirmed by reading.
TABLE = {
    ("cuqi/distribution/_distribution.py", "Distribution.geometry", "geometry"):
        "default-geometry inference: only when the stored default geometry has no dimension yet (par_dim is None) it is "
        "replaced by one of the inferred dimension; idempotent and value-independent of which copy runs it first",
    ("cuqi/distribution/_distribution.py", "Distribution.geometry", "_geometry._variable_name"):
        "label only (variable name shown in plots); does not enter logd/gradient/sample",
    ("cuqi/distribution/_gaussian.py", "Gaussian.compute_cov", "_cov"):
        "explicit user request to materialise the covariance; feeds cdf/cov only, never logd/gradient/sample",
    ("cuqi/distribution/_lognormal.py", "Lognormal._normal", "_Gaussian.mean"):
        "re-synchronises the inner Gaussian from self on every access, so whichever copy reads last wrote its own values",
    ("cuqi/distribution/_lognormal.py", "Lognormal._normal", "_Gaussian.cov"):
        "same as _Gaussian.mean",
    ("cuqi/geometry/_geometry.py", "Geometry._all_values_equal", "param:obj._variable_name"):
        "adds a missing `_variable_name = None` label to the other operand of ==; label only",
    ("cuqi/implicitprior/_regularizedGaussian.py", "RegularizedGaussian.gaussian", "_gaussian._name"):
        "propagates the (identical) name to the inner Gaussian; same value for all copies",
    ("cuqi/distribution/_joint_distribution.py", "JointDistribution._add_constants_to_density", "param:density._constant"):
        "writes to its argument by contract; rule C11-R3 proves every caller passes a fresh object",
    ("cuqi/geometry/_geometry.py", "Geometry.variables", "variables"):
        "lazy default of the variable names through the public setter, guarded by `not hasattr(self, '_variables')`",
}


def _in_scope(rel: str) -> bool:
    return any(rel.startswith(s) for s in SCOPE)


def _is_contract_mutator(ci: ClassInfo, kind: str, name: str) -> Optional[str]:
    if kind == "setter":
        return "property setter"
    if name in CONTRACT_MUTATORS:
        return "mutator by contract"
    if name.startswith("set_"):
        return "set_* mutator by contract"
    if name.startswith("plot") or name.startswith("_plot") or name == "_process_is_par_kwarg":
        return "plotting helper (outside the read API of the property)"
    # a private method whose every caller in the class hierarchy is a plotting function is part of the plotting code
    if name.startswith("_") and not name.startswith("__"):
        callers = set()
        for c in ci.mro():
            for k_, nm, f in c.all_functions():
                if nm == name:
                    continue
                for x in ast.walk(f):
                    if isinstance(x, ast.Call) and (call_name(x) or "") in (f"self.{name}", f"{c.name}.{name}", f"type(self).{name}"):
                        callers.add(nm)
        if callers and all(nm.startswith("plot") or nm.startswith("_plot") for nm in callers):
            return "plotting helper (called only from plotting functions)"
    return None


def _constructor_helpers(ci: ClassInfo) -> Set[str]:
    """methods that are only ever called (via self.) from __init__/setters/other constructor helpers of the class hierarchy"""
    callers: Dict[str, Set[str]] = {}
    for c in ci.mro():
        for kind, name, fn in c.all_functions():
            tag = f"{kind}:{name}"
            for n in ast.walk(fn):
                if isinstance(n, ast.Call) and isinstance(n.func, ast.Attribute) and path_of(n.func.value) == "self":
                    callers.setdefault(n.func.attr, set()).add(tag)
    helpers: Set[str] = set()
    changed = True
    while changed:
        changed = False
        for m, cs in callers.items():
            if m in helpers or m not in ci.methods:
                continue
            if cs and all(c == "method:__init__" or c.startswith("setter:") or c.split(":")[1] in helpers for c in cs):
                helpers.add(m)
                changed = True
    return helpers


def _cache_guard(fa: FnAlias, node, attr: str) -> Optional[str]:
    """Lazy-cache idiom: every path to the write first inspects the state of the very attribute it writes
    (hasattr(self, 'x') / self.x is None / len(self.x) != n ...), i.e. the write only fills or refreshes a cache."""
    names = {attr, attr.lstrip("_"), "_" + attr.lstrip("_")}
    hits = []

    def in_attr_try(a) -> bool:
        """inside the body of a try whose handler catches AttributeError (or everything): a failed read of the attribute leads to the handler"""
        child = a
        for anc in parents(a):
            if isinstance(anc, ast.Try) and any(child is s for s in anc.body):
                for h in anc.handlers:
                    if h.type is None or "AttributeError" in unparse(h.type) or unparse(h.type) == "Exception":
                        return True
            child = anc
        return False

    def mentions(n):
        if n.ast is None:
            return False
        if n.kind != "test":
            # `try: return self.x  except AttributeError: <compute and store>` is the same lazy-cache idiom spelled with an exception:
            # the handler is entered only because reading the attribute failed (the try body is that single read)
            if n.kind == "except" and isinstance(n.ast, ast.ExceptHandler):
                tr = getattr(n.ast, "_parent", None)
                if isinstance(tr, ast.Try) and len(tr.body) == 1 and (n.ast.type is None or "AttributeError" in unparse(n.ast.type)):
                    return any(isinstance(sub, ast.Attribute) and path_of(sub) in {f"self.{nm}" for nm in names} for sub in ast.walk(tr.body[0]))
            return False
        txt = unparse(n.ast)
        for nm in names:
            if f"hasattr(self, '{nm}')" in txt or f'hasattr(self, "{nm}")' in txt or f"getattr(self, '{nm}'" in txt or f'getattr(self, "{nm}"' in txt:
                return True
            for sub in ast.walk(n.ast):
                if isinstance(sub, ast.Attribute) and path_of(sub) == f"self.{nm}":
                    return True
        return False

    tests = [n for n in fa.cfg.nodes if mentions(n)]
    if tests and fa.cfg.must_pass(node, mentions):
        return "every path to the write first tests " + " / ".join(sorted({"`" + unparse(t.ast) + "`" for t in tests}))
    return None


def _fresh_at_call_sites(repo, m, ci, name: str, fn, pname: str) -> bool:
    """private helper `name` writes into its parameter `pname`: acceptable iff every call site (same class hierarchy / module) passes an
    object that is fresh in the caller (newly constructed or a copy), established by the caller's alias analysis"""
    params = func_params(fn)
    if pname not in params:
        return False
    is_method = ci is not None and not any(unparse(d) == "staticmethod" for d in fn.decorator_list)
    idx = params.index(pname) - (1 if is_method else 0)
    sites = []
    scopes = []
    if ci is not None:
        for c in [ci] + repo.subclasses(ci):
            for kind, nm, f in c.all_functions():
                scopes.append((c, f))
    else:
        for nm, f in m.functions.items():
            scopes.append((None, f))
        for c in m.classes.values():
            for kind, nm, f in c.all_functions():
                scopes.append((c, f))
    for c, f in scopes:
        if f is fn:
            continue
        calls = [x for x in ast.walk(f) if isinstance(x, ast.Call) and (call_name(x) or "") in ((f"self.{name}", f"{ci.name}.{name}", f"type(self).{name}") if ci is not None else (name,))]
        if not calls:
            continue
        fa = FnAlias(f)
        for x in calls:
            arg = None
            if idx < len(x.args):
                arg = x.args[idx]
            else:
                for k in x.keywords:
                    if k.arg == pname:
                        arg = k.value
            if arg is None:
                return False
            nd = fa.cfg.stmt_node_containing(x)
            if nd is None:
                return False
            # the caller's own *args / **kwargs collections are built for that call: fresh
            a_ = f.args
            own_star = {f"param:{q.arg}" for q in ([a_.vararg] if a_.vararg else []) + ([a_.kwarg] if a_.kwarg else [])}
            if fa.roots(arg, nd) - own_star:
                return False
            sites.append(x)
    return bool(sites)


def _writes_through_shallow_copy(repo, ci, fa: FnAlias, nd, target: ast.Attribute):
    """`c.prop = v` where c = copy(self) and prop's setter mutates self.X in place while c.X still aliases self.X."""
    from ..effects import SelfEffects
    out = []
    local = target.value.id
    defs = fa.rd.reaching(nd, local)
    for d in defs:
        dn = fa.cfg.nodes[d]
        if not isinstance(dn.ast, ast.Assign):
            continue
        src = shallow_copy_source(dn.ast.value)
        if src is None or path_of(src) != "self":
            continue
        prop = ci.lookup_prop(target.attr)
        if prop is None or prop.setter is None:
            continue
        cache = repo.__dict__.setdefault("_c11_se_cache", {})
        se = cache.setdefault(ci.qual, SelfEffects(repo, ci))
        summ = se.summary(prop.setter)
        for x in sorted(summ.mutates):
            roots = fa.roots_of_path(nd, f"{local}.{x}")
            if roots:
                out.append(f"self.{x}")
    return out


_SE_CACHE: Dict[str, object] = {}


def run(chk, repo: Repo):
    chk.rule("C11-R1", "no attribute store / setattr / in-place operation outside constructors and setters reaches a non-fresh "
                       "object, except idempotent caches guarded by an absence test and tabled sites", floor=15)
    chk.rule("C11-R2", "every _condition returns a fresh object (copy / constructor / call on a fresh local) on every path", floor=5)
    chk.rule("C11-R3", "JointDistribution: list copied, every factor unconditionally replaced by a conditioned copy, then reduced; "
                       "_add_constants_to_density only receives fresh objects", floor=5)
    chk.rule("C11-R4", "conditioned copies keep the name of their original (every _condition below Density.name copies through _make_copy); the back-reference "
                       "`_original_density` is read-only: no function stores an attribute on an object it reached through it (renaming a conditioned copy must "
                       "not rename the density it was made from)", floor=3)
    _r4_backref_readonly(chk, repo)
    chk.rule("C11-R5", "Gibbs samplers are constructed on target() and re-condition that private copy", floor=4)
    _r1(chk, repo)
    _r2(chk, repo)
    _r3(chk, repo)
    _r4(chk, repo)
    _r5(chk, repo)
    chk.rule("C11-R6", "the lazy caches R1 accepts are coherent through shallow copies: a compute-once cache survives copy(self), so every field its value "
                       "was computed from is either never re-bound on a copy or re-binding it resets the cache (otherwise inspecting the original changes "
                       "what its later conditioned copies report)", floor=3)
    from ..cachecoh import cache_coherence
    cache_coherence(chk, repo, "C11-R6", ("cuqi/density/", "cuqi/distribution/", "cuqi/likelihood/", "cuqi/implicitprior/", "cuqi/problem/"))
    chk.rule("C11-R7", "sampler code never writes in place into an object it reached through its target (self.target / prior / likelihood / model ...): "
                       "the arrays behind a conditioned copy's parameters are shared with the user's original through the shallow copy", floor=8)
    _r7(chk, repo)


# ------------------------------------------------------------------------------------------------ R7
TARGET_OWNED = {"target", "_target", "prior", "likelihood", "likelihoods", "model", "models", "data", "posterior"}
_R7_CONTROL = """
class S:
    def sample(self):
        rate = self.target.prior.rate
        rate += 1.0
        own = self._acc
        own.append(1)
"""


def _r7_scan(fn, resolver):
    fa = FnAlias(fn, method_resolver=resolver)
    out, total = [], 0
    for root, node, an, k in fa.mutated_roots():
        total += 1
        seg = root.split(":")[-1].split(".")
        if len(seg) >= 3 and seg[0] == "self" and seg[1] in TARGET_OWNED:
            out.append((root, an, k))
    return out, total


def _r7(chk, repo):
    ctl_fn = ast.parse(_R7_CONTROL).body[0].body[0]
    hits, tot = _r7_scan(ctl_fn, None)
    if [h[0] for h in hits] != ["self.target.prior.rate"] or tot != 2:
        raise AnchorError(f"C11-R7 positive control: expected exactly the in-place write through self.target.prior.rate, got {[h[0] for h in hits]} of {tot}")
    nfun = nmut = 0
    for m in repo.modules.values():
        if not m.rel.startswith(("cuqi/experimental/mcmc/", "cuqi/sampler/")):
            continue
        repo.consulted[m.rel] = m.digest
        for ci in m.classes.values():
            for kind, name, fn in ci.all_functions():
                nfun += 1
                hits, tot = _r7_scan(fn, (lambda nm, _ci=ci: (_ci.lookup(nm) or (None, None))[1]))
                nmut += tot
                inst = f"{ci.qual}.{name}"
                for root, an, k in hits:
                    chk.fail("C11-R7", f"{inst}/{root}", site(repo, an),
                             f"in-place {k} `{unparse(an)[:80]}` writes into `{root}`, an object owned by the sampler's target: the conditioned copies the sampler "
                             f"works on are shallow, so the write lands in the array of the user's original distribution (and of every other copy)", an)
                if tot and not hits:
                    chk.ok("C11-R7", inst, site(repo, fn), f"{tot} in-place writes, all into the sampler's own state or parameters", fn)
    chk.extra["functions_analysed_R7"] = nfun
    chk.note(f"C11-R7 analysed {nfun} sampler functions, {nmut} in-place writes")


# ------------------------------------------------------------------------------------------------ R1
def _r1(chk, repo):
    nfun = 0
    inventory = []
    used_table = set()
    for m in repo.modules.values():
        if not _in_scope(m.rel):
            continue
        repo.consulted[m.rel] = m.digest
        units = []
        for ci in m.classes.values():
            helpers = _constructor_helpers(ci)
            for kind, name, fn in ci.all_functions():
                units.append((ci, kind, name, fn, helpers))
        for name, fn in m.functions.items():
            units.append((None, "function", name, fn, set()))
        for ci, kind, name, fn, helpers in units:
            label = f"{ci.name}.{name}" if ci else name
            if ci is not None:
                why = _is_contract_mutator(ci, kind, name)
                if why is None and name in helpers:
                    why = "constructor helper (only called from __init__/setters)"
                if why is not None:
                    continue
            nfun += 1
            from .common import canon_fn
            try:
                fnv = canon_fn(repo, ci, fn, 4, rel=m.rel)      # structural normal form + temporaries substituted (helpers not inlined)
            except Exception:
                fnv = fn
            fa = FnAlias(fnv, method_resolver=(lambda nm, _ci=ci: (_ci.lookup(nm) or (None, None))[1]) if ci is not None else None)
            a = fn.args
            fresh_params = {f"param:{x.arg}" for x in ([a.vararg] if a.vararg else []) + ([a.kwarg] if a.kwarg else [])}
            sites = []
            for root, node, an, k in fa.mutated_roots():
                if root in fresh_params or root.split(".")[0] in fresh_params:
                    continue
                sites.append((node, an, root, f"in-place {k}"))
            for nd in fa.cfg.nodes:
                an = nd.ast
                tg = []
                if isinstance(an, ast.Assign):
                    tg = [t for T in an.targets for t in (T.elts if isinstance(T, (ast.Tuple, ast.List)) else [T])]
                elif isinstance(an, (ast.AugAssign,)):
                    tg = [an.target]
                elif isinstance(an, ast.AnnAssign) and an.value is not None:
                    tg = [an.target]
                elif isinstance(an, ast.Delete):
                    tg = list(an.targets)
                for t in tg:
                    if isinstance(t, ast.Attribute):
                        # store through a property of a *shallow copy of self*: the setter may write into a sub-object
                        # that the copy still shares with the original
                        if ci is not None and isinstance(t.value, ast.Name):
                            for shared in _writes_through_shallow_copy(repo, ci, fa, nd, t):
                                sites.append((nd, an, shared, f"store through property `{t.attr}` of a shallow copy"))
                        roots = fa.roots(t.value, nd) - fresh_params
                        for r in sorted(roots):
                            sites.append((nd, an, f"{r}.{t.attr}" if not r.startswith("param:self") else t.attr, "attribute store"))
                if an is not None and nd.kind in ("stmt", "return", "test"):
                    for c in (ast.walk(an) if not isinstance(an, (ast.FunctionDef, ast.ClassDef)) else []):
                        if isinstance(c, ast.Call) and call_name(c) in ("setattr", "delattr") and c.args:
                            roots = fa.roots(c.args[0], nd) - fresh_params
                            for r in sorted(roots):
                                sites.append((nd, c, f"{r}.<setattr>", "setattr"))
            for nd, an, what, kind_ in sites:
                attr = what
                if what.startswith("self."):
                    attr = what[5:]
                inst = f"{m.rel}:{label}/{attr}"
                w = site(repo, an)
                # (ii) idempotent cache on self
                first = attr.split(".")[0]
                g = None
                if not what.startswith("param:") or what.startswith("param:self"):
                    g = _cache_guard(fa, nd, first)
                tkey = (m.rel, label, attr)
                if tkey in TABLE:
                    used_table.add(tkey)
                    chk.ok("C11-R1", inst, w, f"{kind_}: tabled — {TABLE[tkey]}", an)
                    inventory.append((inst, "tabled"))
                elif g is not None and kind_ == "attribute store" and "." not in attr:
                    chk.ok("C11-R1", inst, w, f"{kind_}: recognised lazy cache, {g}", an)
                    inventory.append((inst, "cache"))
                elif what.startswith("param:") and not what.startswith("param:self") and name.startswith("_") and not name.startswith("__") \
                        and _fresh_at_call_sites(repo, m, ci, name, fn, what.split(":", 1)[1].split(".")[0]):
                    chk.ok("C11-R1", inst, w, f"{kind_}: private helper; the written argument is a fresh object at every call site", an)
                    inventory.append((inst, "helper-fresh"))
                else:
                    chk.fail("C11-R1", inst, w,
                             f"{kind_} reaches `{what}`, an object that exists before this call (not a fresh copy): "
                             f"a read-only operation alters its operand or an object shared with the original", an)
                    inventory.append((inst, "VIOLATION"))
    chk.extra["functions_analysed_R1"] = nfun
    chk.note(f"C11-R1 analysed {nfun} functions outside constructors/setters/contract mutators in {SCOPE}")
    stale = [k for k in TABLE if k not in used_table]
    for k in stale:
        chk.note(f"C11-R1 table entry no longer matches a write site (harmless): {k}")


# ------------------------------------------------------------------------------------------------ R2
def _r2(chk, repo):
    dens = repo.cls("cuqi/density/_density.py:Density")
    n = 0
    for ci in [dens] + repo.subclasses(dens) + [repo.cls("cuqi/distribution/_joint_distribution.py:JointDistribution")]:
        if "_condition" not in ci.methods:
            continue
        fn = ci.methods["_condition"]
        if is_abstract(fn):
            continue
        n += 1
        fa = FnAlias(fn)
        inst = f"{ci.qual}._condition"
        problems = []
        for rn in fa.cfg.returns():
            v = rn.ast.value
            if v is None:
                problems.append(f"line {rn.lineno}: returns None")
                continue
            if path_of(v) == "self":
                if ci.name == "EvaluatedDensity":
                    chk.note("C11-R2 EvaluatedDensity._condition returns self: immutable by construction (no setter, "
                             "_add_constants_to_density refuses it) — tabled")
                    continue
                problems.append(f"line {rn.lineno}: returns self")
                continue
            roots = fa.roots(v, rn)
            if isinstance(v, ast.Call) and isinstance(v.func, ast.Attribute):
                # call on a local: the receiver must be fresh (e.g. new_dist.to_likelihood(..), new_joint._reduce_to_single_density())
                roots = fa.roots(v.func.value, rn)
                if path_of(v.func.value) == "self":
                    roots = {"param:self"}
            if roots:
                problems.append(f"line {rn.lineno}: `{unparse(v)[:60]}` may be {sorted(roots)}")
        if fa.cfg.falls_off_end:
            problems.append("a path falls off the end (returns None)")
        chk.add("C11-R2", inst, not problems, site(repo, fn), "all returns are fresh objects", "; ".join(problems), fn)
    if n < 5:
        raise AnchorError(f"{n} concrete _condition definitions found, 5 confirmed by hand")


_BACKREF_CONTROL = """
def rename(self, value):
    d = self.distribution
    while d._is_copy:
        d = d._original_density
    d.name = value
def fine(self, value):
    d = self.distribution
    d.name = value
    return self._original_density.name
"""


def _backref_writes(fn):
    """attribute stores / setattr in fn whose receiver can be an object reached through `_original_density` (any reaching definition, loops included)"""
    from ..flow import Expander
    ex = Expander(fn)
    out = []
    for n in ex.cfg.nodes:
        a = n.ast
        recv = []
        if n.kind == "stmt" and isinstance(a, (ast.Assign, ast.AugAssign)):
            for t in (a.targets if isinstance(a, ast.Assign) else [a.target]):
                for x in ast.walk(t):
                    if isinstance(x, ast.Attribute) and isinstance(x.ctx, ast.Store):
                        recv.append(x.value)
        if n.kind == "stmt" and isinstance(a, ast.Expr) and isinstance(a.value, ast.Call) and call_name(a.value) == "setattr" and a.value.args:
            recv.append(a.value.args[0])
        for r_ in recv:
            if any("_original_density" in unparse(alt) for alt in ex.expand_all(r_, n, depth=4)):
                out.append(a)
    return out


def _r4_backref_readonly(chk, repo):
    ctl = ast.parse(_BACKREF_CONTROL)
    hits = {f.name: len(_backref_writes(f)) for f in ctl.body if isinstance(f, ast.FunctionDef)}
    if hits != {"rename": 1, "fine": 0}:
        raise AnchorError(f"back-reference lint: positive control failed ({hits})")
    n, bad = 0, []
    for pre in ("cuqi/density/", "cuqi/distribution/", "cuqi/likelihood/"):
        for m in repo.modules.values():
            if not m.rel.startswith(pre):
                continue
            for f in ast.walk(m.tree):
                if isinstance(f, ast.FunctionDef):
                    n += 1
                    for a in _backref_writes(f):
                        bad.append((m, f, a))
    for m, f, a in bad:
        chk.fail("C11-R4", f"{m.rel}:{f.name}/writes-through-_original_density", f"{m.rel}:{getattr(a, 'lineno', f.lineno)}",
                 f"`{unparse(a)[:70]}` stores an attribute on an object reached through `_original_density`: an operation on a conditioned copy changes the density "
                 f"it was made from (and every sibling copy that reads its name from there)", a)
    if not bad:
        chk.ok("C11-R4", "_original_density/read-only", "", f"{n} functions of the density / distribution / likelihood layers, none writes through the back-reference "
               f"(positive control fired)")
    if n < 200:
        raise AnchorError(f"back-reference lint: only {n} functions scanned (273 on the pinned tree)")


# ------------------------------------------------------------------------------------------------ R3
def _r3(chk, repo):
    """Decided on the canonical views of JointDistribution._condition (sa/canon.py); two spellings of "every factor of the result is a
    conditioned copy" are recognised: (A) copy the list, replace every element by index; (B) build the new list from conditioned copies."""
    from .common import stmts, canon_fn, pmatch
    from ..pattern import unify, find, norm as pn
    J = repo.cls("cuqi/distribution/_joint_distribution.py:JointDistribution")
    cond = repo.method(J, "_condition")[1]
    inst = f"{J.qual}._condition"
    S = stmts(repo, J, cond)
    b0, _ = unify(["$nj=copy(self)"], S)
    if b0 is None:
        b0, _ = unify(["$nj=copy.copy(self)"], S)
    if b0 is None:
        raise AnchorError(f"{inst}: expected `new = copy(self)`")
    nj = b0["nj"]
    SEL = "{_k0:_k1 for _k0,_k1 in kwargs.items() if _k0 in $d.get_parameter_names()}"
    # ---- form B: the new list is built from conditioned copies
    formB = None
    for pat in (["$nj._densities=[_k0(**$any) for _k0 in self._densities]"], ["$lst=[_k0(**$any) for _k0 in self._densities]", "$nj._densities=$lst"]):
        formB = None
        for t, n in S:
            if t.startswith(f"{nj}._densities=[_k0(**") and t.endswith("for _k0 in self._densities]"):
                formB = n
        if formB is None:
            for t, n in S:
                m = pmatch("$lst=[_k0(**", t[:t.find("**") + 2]) if "=[_k0(**" in t else None
                if m and t.endswith("for _k0 in self._densities]") and any(t2 == f"{nj}._densities={m['lst']}" for t2, _ in S):
                    formB = n
        break
    if formB is None:
        # ---- form C: the new list is filled by an explicit loop over ALL factors, appending a conditioned copy of each, unconditionally
        bc, usedc = unify(["$lst=[]", "for: $d : self._densities", "$lst.append($d(**$kw))", f"{nj}._densities=$lst"], S)
        if bc is not None:
            app = usedc[2]
            lp = getattr(app, "_parent", None)
            direct = isinstance(lp, ast.For) and not any(isinstance(x, (ast.Continue, ast.Break)) for x in ast.walk(lp))
            others = [t for t, _ in S if t.startswith(bc["lst"] + ".") and not t.startswith(bc["lst"] + ".append(")] + \
                     [t for t, _ in S if t.startswith(bc["lst"] + "[")]
            if direct and not others:
                formB = app
    if formB is not None:
        chk.ok("C11-R3", inst + "/list-copy", site(repo, cond), f"{nj}._densities is bound to a newly built list")
        chk.ok("C11-R3", inst + "/replace-all", site(repo, cond), "every element of the new list is `factor(**kwargs)` (a conditioned copy) of the corresponding factor")
        order_ok = True
    else:
        # ---- form A
        lst = [(t, n) for t, n in S if t.startswith(f"{nj}._densities=") and not t.startswith(f"{nj}._densities[")]
        ok_copy = len(lst) >= 1 and all(t.split("=", 1)[1] in ("self._densities[:]", "list(self._densities)", "self._densities.copy()", "copy(self._densities)") for t, _ in lst)
        chk.decide("C11-R3", inst + "/list-copy", ok_copy, bool(lst) or True, site(repo, lst[0][1] if lst else cond), f"{nj}._densities is rebound to a copy of the list",
                   "the factor list of the shallow copy is not rebound to a fresh list before the element stores", lst[0][1] if lst else cond)
        bl, _ = unify([f"for: ($i,$d) : enumerate({nj}._densities)"], S)
        stores = [(t, n) for t, n in S if t.startswith(f"{nj}._densities[")]
        rec = bl is not None or bool(stores)
        ok_store = False
        early = False
        if bl is not None:
            good = [n for t, n in stores if pmatch(f"{nj}._densities[$i]=$d(**$kw)", n, bl) is not None or t.startswith(f"{nj}._densities[{bl['i']}]={bl['d']}(**")]
            # unconditional: the store is a direct child of the loop body, and nothing leaves the body early
            direct = [n for n in good if isinstance(getattr(n, "_parent", None), ast.For)]
            loops = {id(getattr(n, "_parent", None)): getattr(n, "_parent", None) for n in direct}
            early = any(isinstance(x, (ast.Continue, ast.Break)) for lp in loops.values() for x in ast.walk(lp))
            ok_store = bool(direct) and len({t for t, _ in stores}) <= 2
        chk.decide("C11-R3", inst + "/replace-all", ok_store and not early, rec, site(repo, cond),
                   "every factor is replaced by `factor(**kwargs)` (a conditioned copy) unconditionally",
                   "a factor can stay the caller's original object: the element store is conditional, missing, or not the result of "
                   "conditioning the factor — _add_constants_to_density would then write into the original", cond)
        order_ok = True
    # the reduce happens on the copy, after the replacement (decided on the structural view: statement order of the top-level body)
    # (flow graph of the structural view: one value return, the reduction of the copy, and every path to it passes a store into the copy's factor list;
    # refusals in front of the copy do not matter)
    v = canon_fn(repo, J, cond, 4)
    gv = CFG(v)
    rets = [n for n in gv.returns() if n.ast.value is not None]

    def fills(n):
        return n.ast is not None and n.kind == "stmt" and isinstance(n.ast, (ast.Assign, ast.AugAssign)) and any(
            (isinstance(x, ast.Attribute) and x.attr == "_densities" and isinstance(getattr(x, "ctx", None), ast.Store) and path_of(x.value) == nj)
            or (isinstance(x, ast.Subscript) and isinstance(x.ctx, ast.Store) and path_of(x.value) == f"{nj}._densities")
            for t_ in (n.ast.targets if isinstance(n.ast, ast.Assign) else [n.ast.target]) for x in ast.walk(t_))
    ok_ret = len(rets) == 1 and pn(rets[0].ast.value) == f"{nj}._reduce_to_single_density()" and gv.must_pass(rets[0], fills)
    rets = [r_.ast for r_ in rets]
    chk.decide("C11-R3", inst + "/order", ok_ret, len(rets) >= 1, site(repo, rets[0] if rets else cond), "copy -> replace -> reduce, in this order",
               "reduction is not applied to the copy after the replacement", cond)
    # callers of _reduce_to_single_density and of _add_constants_to_density
    callers_r = []
    for m in repo.modules.values():
        for n in ast.walk(m.tree):
            if isinstance(n, ast.Call) and isinstance(n.func, ast.Attribute) and n.func.attr == "_reduce_to_single_density":
                callers_r.append((m, n))
    bad = [f"{m.rel}:{n.lineno}" for m, n in callers_r if not (m.rel == J.module.rel and path_of(n.func.value) == nj)]
    chk.add("C11-R3", f"{J.qual}._reduce_to_single_density/callers", not bad, "", f"{len(callers_r)} caller(s), all on the fresh copy in _condition",
            f"_reduce_to_single_density is called on an object that is not the fresh copy: {bad}")
    # arguments of _add_constants_to_density, read on the substituted view of each calling function (temporaries resolved)
    bad, ncalls = [], 0
    from ..index import enclosing_function
    seen_fns = {}
    for m in repo.modules.values():
        for n in ast.walk(m.tree):
            if isinstance(n, ast.Call) and isinstance(n.func, ast.Attribute) and n.func.attr == "_add_constants_to_density":
                ef = enclosing_function(n)
                seen_fns[id(ef)] = (m, ef)
    for m, ef in seen_fns.values():
        if ef is None or m.rel != J.module.rel or ef.name != "_reduce_to_single_density":
            bad.append(f"{m.rel}:{getattr(ef, 'lineno', 0)} called outside _reduce_to_single_density")
            continue
        v = canon_fn(repo, J, ef, 4)
        for n in ast.walk(v):
            if isinstance(n, ast.Call) and isinstance(n.func, ast.Attribute) and n.func.attr == "_add_constants_to_density":
                ncalls += 1
                arg = n.args[0] if n.args else None
                txt = pn(arg) if arg is not None else ""
                fresh_ctor = isinstance(arg, ast.Call) and isinstance(repo.resolve_expr(m, arg.func), ClassInfo)
                elem = txt in ("self._distributions[0]",)
                if not (path_of(n.func.value) == "self" and (fresh_ctor or elem)):
                    bad.append(f"{m.rel}:{n.lineno} `{txt}`")
    chk.add("C11-R3", f"{J.qual}._add_constants_to_density/callers", not bad and ncalls >= 2, "",
            f"{ncalls} call sites: argument is a newly constructed density or an element of the replaced factor list",
            f"_add_constants_to_density (writes to its argument) receives a possibly shared object: {bad}")
    # the write itself is a rebind, not an in-place add (an ndarray constant is shared between copies)
    addc = repo.method(J, "_add_constants_to_density")[1]
    aug = [n for n in ast.walk(addc) if isinstance(n, ast.AugAssign) and isinstance(n.target, ast.Attribute)]
    chk.add("C11-R3", f"{J.qual}._add_constants_to_density/rebind", not aug, site(repo, aug[0] if aug else addc),
            "_constant is rebound (x = x + c), never updated in place",
            "augmented assignment on an attribute of the argument: if the constant is an ndarray it is shared with the original "
            "density and every other copy, and is modified in place", aug[0] if aug else addc)


# ------------------------------------------------------------------------------------------------ R4
def _r4(chk, repo):
    from .common import match, cfgv, guarded, views, stmts
    from ..pattern import norm as pn
    D = repo.cls("cuqi/density/_density.py:Density")
    mk = repo.method(D, "_make_copy")[1]
    b = None
    for cp in ("copy(self)", "copy.copy(self)"):
        b = b or match(repo, D, mk, [f"$c={cp}", "$c._original_density=self", "return $c"])
    S = stmts(repo, D, mk)
    rec = any("_original_density" in t for t, _ in S) or any(t.startswith("return") for t, _ in S)
    chk.decide("C11-R4", f"{D.qual}._make_copy", b is not None, rec, site(repo, mk), "returns copy(self) with _original_density = self",
               "_make_copy does not return a shallow copy carrying a back pointer to the original", mk)
    p = D.props.get("name")
    if p is None or p.getter is None or p.setter is None:
        raise AnchorError("Density.name property not found")
    v, g = cfgv(repo, D, p.getter)
    rets = g.returns()
    first = [r for r in rets if pn(r.ast.value) == "self._original_density.name"]
    others = [r for r in rets if r not in first]
    ok = bool(first) and guarded(g, first[0], "self._is_copy", "T") and all(guarded(g, r, "self._is_copy", "F") for r in others)
    chk.decide("C11-R4", f"{D.qual}.@name", ok, bool(first), site(repo, p.getter), "a copy reports the name of its original before any other rule applies",
               "the name getter does not defer to the original for conditioned copies first", p.getter)
    v, gs = cfgv(repo, D, p.setter)
    st = [n for n in gs.nodes if isinstance(n.ast, ast.Assign) and path_of(n.ast.targets[0]) == "self._name"]
    ok = len(st) == 1 and guarded(gs, st[0], "self._is_copy", "F")
    chk.decide("C11-R4", f"{D.qual}.@name=", ok, len(st) >= 1, site(repo, p.setter), "renaming a conditioned copy is refused",
               "the name setter can rename a conditioned copy", p.setter)
    # Distribution._condition / Likelihood paths create copies through _make_copy
    dist = repo.cls("cuqi/distribution/_distribution.py:Distribution")
    c = repo.method(dist, "_condition")[1]
    ok = any(isinstance(n, ast.Call) and pn(n) == "self._make_copy()" for n in ast.walk(c))
    chk.add("C11-R4", f"{dist.qual}._condition", ok, site(repo, c), "conditioned distribution is created by _make_copy()",
            "Distribution._condition does not create its result with _make_copy()", c)
    # every _condition of a class whose name is answered by Density.name (back pointer) copies itself through _make_copy(): a plain copy(self)
    # has no _original_density, so the conditioned object answers `.name` from a stale snapshot or a stack search for the copy
    from .common import canon_keep
    n = 0
    for ci in repo.subclasses(D):
        fn = ci.methods.get("_condition")
        if fn is None or is_abstract(fn) or ci.qual == dist.qual:
            continue
        pr = ci.lookup_prop("name")
        if pr is None or pr.getter is not p.getter:
            continue                      # the class answers its name itself (Likelihood: derived from the data distribution)
        n += 1
        fv = canon_keep(repo, ci, fn, {"_make_copy"})
        plain = [x for x in ast.walk(fv) if isinstance(x, ast.Call) and call_name(x) in ("copy", "copy.copy", "deepcopy", "copy.deepcopy")
                 and x.args and path_of(x.args[0]) == "self"]
        chk.add("C11-R4", f"{ci.qual}._condition", not plain, site(repo, fn), "no plain copy(self): the conditioned object is created by _make_copy() / super()._condition",
                f"`{unparse(plain[0]) if plain else ''}` creates the conditioned object without the back pointer to its original: it does not keep the original's "
                f"random-variable name (Density.name defers to _original_density only for copies made by _make_copy)", fn)
    if n < 1:
        raise AnchorError("no _condition override below Distribution found (RegularizedGaussian confirmed by hand)")


def _test_named(g, txt):
    for t in g.tests():
        if unparse(t.ast) == txt:
            return t.ast
    raise AnchorError(f"test `{txt}` not found")


# ------------------------------------------------------------------------------------------------ R5
def _r5(chk, repo):
    for spec in ("cuqi/experimental/mcmc/_gibbs.py:HybridGibbs", "cuqi/sampler/_gibbs.py:Gibbs"):
        ci = repo.cls(spec)
        init = repo.method(ci, "__init__")[1]
        tparam = func_params(init)[1]
        from .common import assigned_values
        asg = [n for n in ast.walk(init) if isinstance(n, ast.Assign) and path_of(n.targets[0]) == "self.target"]
        ok = assigned_values(repo, ci, init, "self.target") == [f"{tparam}()"]
        chk.add("C11-R5", f"{ci.qual}.__init__", ok, site(repo, init), f"self.target = {tparam}()  (a conditioned copy of the caller's joint)",
                f"the sampler keeps a reference to the caller's joint distribution instead of a conditioned copy", asg[0] if asg else init)
        # every later use conditions self.target by call, never writes into it
        bad = []
        for kind, name, fn in ci.all_functions():
            for n in ast.walk(fn):
                if isinstance(n, (ast.Assign, ast.AugAssign)):
                    tg = n.targets if isinstance(n, ast.Assign) else [n.target]
                    for t in tg:
                        p = path_of(t.value) if isinstance(t, (ast.Attribute, ast.Subscript)) else None
                        if p and (p == "self.target" or p.startswith("self.target.")):
                            bad.append(f"{name}:{n.lineno}")
        chk.add("C11-R5", f"{ci.qual}/target-writes", not bad, f"{ci.module.rel}:{ci.node.lineno}", "no method writes into self.target",
                f"writes into the joint target at {bad}")
