"""C12 — forward models act identically on every representation of their input.

 R1 Model._apply_func: input converted to function values with the *function's domain geometry* according to the carried
    flag, raw function applied, output converted to parameters with the function's range geometry, wrapped like the input;
    Samples are processed column-wise with the collection's own flags (never a hard-coded flag), vectorised function
    values unpacked first, result wrapped with the range geometry
 R2 _2fun/_2par convert exactly when the value is not already in the target representation
 R3 gradient: conversions of wrt/direction, vector-Jacobian orientation of the Jacobian wrappers
 R4 applying a model to a distribution only renames a copy after the dimension check
 R5 input validation precedes use; forward/adjoint pass (function, range, domain) geometries in the right order
"""
from __future__ import annotations
import ast
from typing import List

from ..index import Repo, AnchorError
from ..cfg import CFG, path_of
from ..astutil import unparse, call_name, func_params
from .common import site

MODEL = "cuqi/model/_model.py:Model"


def _norm(e) -> str:
    return unparse(e).replace(" ", "").replace("\n", "")


def run(chk, repo: Repo):
    chk.rule("C12-R1", "_apply_func: convert in (domain geometry, carried flag) -> apply -> convert out (range geometry) -> wrap like input; "
                       "Samples column-wise with the collection's flags", floor=2)
    chk.rule("C12-R2", "_2fun/_2par: convert only when not already in the target representation; CUQIarray with equal geometry uses its own conversion", floor=2)
    chk.rule("C12-R3", "gradient: wrt/direction conversions and vector-Jacobian orientation", floor=4)
    chk.rule("C12-R4", "model(distribution) renames a copy after the dimension check", floor=1)
    chk.rule("C12-R5", "forward validates its input before use and passes (forward_func, range, domain)", floor=2)
    model = repo.cls(MODEL)
    _r1(chk, repo, model)
    _r2(chk, repo, model)
    _r3(chk, repo, model)
    from .c03 import identity_guards
    identity_guards(chk, repo, rule="C12-R3", prefix="cuqi/model/", floor=2)
    _r4_r5(chk, repo, model)


def _r1(chk, repo, model):
    fn = repo.method(model, "_apply_func")[1]
    ps = func_params(fn)          # self, func, func_range_geometry, func_domain_geometry, x, is_par
    if len(ps) < 6:
        raise AnchorError("Model._apply_func signature changed")
    f, rg, dg, x, ip = ps[1:6]
    g = CFG(fn)
    inst = f"{model.qual}._apply_func"
    # non-Samples path
    stmts = {n: _norm(n.ast) for n in g.nodes if n.ast is not None and n.kind in ("stmt", "return")}
    conv = [n for n, t in stmts.items() if t == f"{x}=self._2fun({x},{dg},is_par={ip})"]
    appl = [n for n, t in stmts.items() if t == f"out={f}({x},**kwargs)"]
    flag = [n for n, t in stmts.items() if t in (f"is_CUQIarray=type({x})isCUQIarray", f"is_CUQIarray=isinstance({x},CUQIarray)")]
    ret = [n for n, t in stmts.items() if t == f"returnself._2par(out,{rg},to_CUQIarray=is_CUQIarray)"]
    problems = []
    if len(conv) != 1:
        problems.append(f"input is not converted by `self._2fun({x}, {dg}, is_par={ip})` (domain geometry, caller's flag)")
    if len(appl) != 1:
        problems.append("raw function is not applied exactly once to the converted input")
    if len(ret) != 1:
        problems.append(f"output is not converted by `self._2par(out, {rg}, to_CUQIarray=is_CUQIarray)` (range geometry, wrapped like the input)")
    if len(flag) != 1:
        problems.append("the wrapping flag is not taken from the type of the input")
    if not problems:
        if not (g.dominates(flag[0], conv[0]) and g.dominates(conv[0], appl[0]) and g.dominates(appl[0], ret[0])):
            problems.append("order is not: remember input type -> convert input -> apply -> convert output")
    chk.add("C12-R1", inst + "/array-path", not problems, site(repo, fn), "type(x) -> _2fun(domain) -> func -> _2par(range, wrap like input)", "; ".join(problems), fn)
    # Samples path
    tests = [t for t in g.tests() if _norm(t.ast) == f"isinstance({x},Samples)"]
    if len(tests) != 1:
        raise AnchorError(f"{inst}: Samples branch not found")
    T = tests[0]
    sam = [n for n in g.nodes if n.ast is not None and g.requires_edge(n, T, "T")]
    for n in ([] if not conv else [conv[0], appl[0]] if appl else []):
        if not g.requires_edge(n, T, "F"):
            problems.append("array path is reachable for Samples input")
    sp = []
    rec = list({id(c): c for n in sam for c in ast.walk(n.ast) if isinstance(c, ast.Call) and call_name(c) == "self._apply_func"}.values())
    if len(rec) != 1:
        sp.append("Samples are not processed by one recursive call per column")
    else:
        c = rec[0]
        args = [_norm(a) for a in c.args]
        kws = {k.arg: _norm(k.value) for k in c.keywords if k.arg}
        if args[:3] != [f, rg, dg]:
            sp.append(f"recursive call passes {args[:3]}, not ({f}, {rg}, {dg})")
        flagv = kws.get("is_par", args[4] if len(args) > 4 else None)
        if flagv != f"{x}.is_par":
            sp.append(f"per-column call uses is_par={flagv}: the collection's own representation flag {x}.is_par is not honoured")
        # loop: for idx, item in enumerate(x); out[:, idx] = ...
        loops = [n.ast for n in sam if isinstance(n.ast, ast.For)]
        if len(loops) != 1 or _norm(loops[0].iter) != f"enumerate({x})":
            sp.append("columns are not enumerated from the collection")
        else:
            i, it = [_norm(e) for e in loops[0].target.elts]
            par = getattr(c, "_parent", None)
            if not (isinstance(par, ast.Assign) and _norm(par.targets[0]) == f"out[:,{i}]" and (args[3] if len(args) > 3 else None) == it):
                sp.append("result of column i is not stored in out[:, i]")
    alloc = [n for n in sam if _norm(n.ast) == f"out=np.zeros(({rg}.par_dim,{x}.Ns))"]
    if len(alloc) != 1:
        sp.append(f"output is not allocated as ({rg}.par_dim, {x}.Ns)")
    rets = [n for n in sam if n.kind == "return"]
    if len(rets) != 1 or _norm(rets[0].ast.value) not in (f"Samples(out,geometry={rg})", f"Samples(out,{rg})"):
        sp.append("result is not wrapped as Samples with the range geometry")
    # any use of x.funvals / x.parameters / x.vector inside the Samples branch must be restricted to vectorised function values
    for n in sam:
        if n.kind == "iter":
            continue
        for a in ast.walk(n.ast):
            if isinstance(a, ast.Attribute) and path_of(a.value) == x and a.attr in ("funvals", "parameters", "vector"):
                gs = [(_norm(t.ast), lab) for t, lab in g.guards_of(n)]
                ok = (f"{x}.is_par", "F") in gs and (f"{x}.is_vec", "T") in gs and a.attr == "funvals"
                if not ok:
                    sp.append(f"line {a.lineno}: `{x}.{a.attr}` converts with the collection's own geometry; only vectorised function values "
                              f"(not {x}.is_par and {x}.is_vec) may be unpacked this way, parameters must go through the model's domain geometry")
    chk.add("C12-R1", inst + "/samples-path", not sp, site(repo, T.ast), "column-wise, collection's flags, range geometry", "; ".join(sp), fn)


def _r2(chk, repo, model):
    f2 = repo.method(model, "_2fun")[1]
    x, geo, ip = func_params(f2)[1:4]
    g = CFG(f2)
    problems = []
    a1 = [n for n in g.nodes if n.ast is not None and _norm(n.ast) == f"{x}={x}.funvals"]
    a2 = [n for n in g.nodes if n.ast is not None and _norm(n.ast) == f"{x}={geo}.par2fun({x})"]
    if len(a1) != 1 or len(a2) != 1:
        problems.append("expected exactly the two conversions x.funvals (geometry-carrying array) and geometry.par2fun(x)")
    else:
        g1 = {(_norm(t.ast), lab) for t, lab in g.guards_of(a1[0])}
        g2 = {(_norm(t.ast), lab) for t, lab in g.guards_of(a2[0])}
        if not {(f"isinstance({x},CUQIarray)", "T"), (f"{x}.geometry=={geo}", "T")} <= g1:
            problems.append("x.funvals is not restricted to CUQIarray with the same geometry")
        if (ip, "T") not in g2:
            problems.append(f"par2fun is not restricted to inputs flagged as parameters ({ip})")
        # par2fun must not be reachable for a CUQIarray with equal geometry
        if not any(lab == "F" for t, lab in g2 if t in (f"isinstance({x},CUQIarray)", f"{x}.geometry=={geo}")) and \
                a2[0].id in g.reachable_from([m for m, l in g.succ[a1[0].id]]):
            problems.append("a value can be converted twice")
    rets = g.returns()
    if len(rets) != 1 or _norm(rets[0].ast.value) != x:
        problems.append("does not return the converted value")
    chk.add("C12-R2", f"{model.qual}._2fun", not problems, site(repo, f2), "CUQIarray(same geometry) -> funvals; elif is_par -> par2fun; else unchanged",
            "; ".join(problems), f2)
    p2 = repo.method(model, "_2par")[1]
    v, geo = func_params(p2)[1:3]
    g = CFG(p2)
    problems = []
    a1 = [n for n in g.nodes if n.ast is not None and _norm(n.ast) == f"{v}={v}.parameters"]
    a2 = [n for n in g.nodes if n.ast is not None and _norm(n.ast) == f"{v}={geo}.fun2par({v})"]
    a3 = [n for n in g.nodes if n.ast is not None and _norm(n.ast) == f"{v}=CUQIarray({v},is_par=True,geometry={geo})"]
    if len(a1) != 1 or len(a2) != 1 or len(a3) != 1:
        problems.append("expected val.parameters, geometry.fun2par(val) and the CUQIarray(is_par=True, geometry) wrapping")
    else:
        g1 = {(_norm(t.ast), lab) for t, lab in g.guards_of(a1[0])}
        g2 = {(_norm(t.ast), lab) for t, lab in g.guards_of(a2[0])}
        g3 = {(_norm(t.ast), lab) for t, lab in g.guards_of(a3[0])}
        if not {(f"isinstance({v},CUQIarray)", "T"), (f"{v}.geometry=={geo}", "T")} <= g1:
            problems.append("val.parameters is not restricted to CUQIarray with the same geometry")
        if ("is_par", "F") not in g2:
            problems.append("fun2par is applied although the value is flagged as parameters")
        if ("to_CUQIarray", "T") not in g3:
            problems.append("wrapping is not controlled by to_CUQIarray")
    rets = g.returns()
    if len(rets) != 1 or _norm(rets[0].ast.value) != v:
        problems.append("does not return the converted value")
    chk.add("C12-R2", f"{model.qual}._2par", not problems, site(repo, p2), "CUQIarray(same geometry) -> parameters; elif not is_par -> fun2par; optional wrap",
            "; ".join(problems), p2)


def _r3(chk, repo, model):
    gfn = repo.method(model, "gradient")[1]
    txt = _norm(gfn)
    problems = []
    need = {
        "wrt -> parameters for the geometry's gradient": "wrt_par=self._2par(wrt,geometry=self.domain_geometry,is_par=is_wrt_par,to_CUQIarray=False)",
        "wrt -> function values for the raw operator": "wrt=self._2fun(wrt,self.domain_geometry,is_par=is_wrt_par)",
        "direction -> function values with the range geometry": "direction=self._2fun(direction,self.range_geometry,is_par=is_direction_par)",
        "raw operator applied to (direction, wrt)": "grad=self._gradient_func(direction,wrt)",
        "result -> parameters of the domain geometry, wrapped like the direction": "grad=self._2par(grad,self.domain_geometry,to_CUQIarray=is_direction_CUQIarray,is_par=grad_is_par)",
    }
    for what, pat in need.items():
        if pat not in txt:
            problems.append(f"missing: {what}")
    g = CFG(gfn)
    order = ["wrt_par=self._2par(", "wrt=self._2fun(wrt", "grad=self._gradient_func("]
    nodes = []
    for pat in order:
        ns = [n for n in g.nodes if n.ast is not None and n.kind == "stmt" and _norm(n.ast).startswith(pat)]
        nodes.append(ns[0] if ns else None)
    if all(nodes) and not (g.dominates(nodes[0], nodes[1]) and g.dominates(nodes[1], nodes[2])):
        problems.append("wrt must be converted to parameters before it is overwritten by its function values, and both before the raw gradient")
    chk.add("C12-R3", f"{model.qual}.gradient/conversions", not problems, site(repo, gfn), "wrt/direction conversions as documented", "; ".join(problems), gfn)
    init = repo.method(model, "__init__")[1]
    lam = [n for n in ast.walk(init) if isinstance(n, ast.Assign) and isinstance(n.value, ast.Lambda) and path_of(n.targets[0]) == "gradient"]
    ok = len(lam) == 1 and _norm(lam[0].value) == "lambdadirection,wrt:direction@jacobian(wrt)"
    g2 = CFG(init)
    if ok:
        n = g2.node_of(lam[0])
        ok = any(_norm(t.ast) == "jacobianisnotNone" and lab == "T" for t, lab in g2.guards_of(n))
    chk.add("C12-R3", f"{model.qual}.__init__/jacobian-wrapper", ok, site(repo, lam[0] if lam else init), "gradient = direction @ jacobian(wrt)",
            "Jacobian-based gradient is not the vector-Jacobian product direction @ jacobian(wrt)", lam[0] if lam else init)
    both = [t for t in g2.tests() if _norm(t.ast) == "gradientisnotNone"]
    ok = any(_norm(r.ast).startswith("raiseTypeError('Onlyoneofgradientandjacobian") for r in g2.nodes if r.kind == "raisestmt")
    chk.add("C12-R3", f"{model.qual}.__init__/gradient-xor-jacobian", ok, site(repo, init), "both given -> TypeError", "gradient and jacobian can both be given", init)
    pde = repo.cls("cuqi/model/_model.py:PDEModel")
    pg = repo.method(pde, "_gradient_func")[1]
    rets = [_norm(n.value) for n in ast.walk(pg) if isinstance(n, ast.Return)]
    ok = rets == ["self.pde.gradient_wrt_parameter(direction,wrt)", "direction@self.pde.jacobian_wrt_parameter(wrt)"]
    chk.add("C12-R3", f"{pde.qual}._gradient_func", ok, site(repo, pg), "gradient_wrt_parameter(direction, wrt) else direction @ jacobian_wrt_parameter(wrt)",
            f"PDE gradient dispatch returns {rets}", pg)


def _r4_r5(chk, repo, model):
    fn = repo.method(model, "forward")[1]
    g = CFG(fn)
    inst = f"{model.qual}.forward"
    app = [n for n in g.nodes if n.ast is not None and n.kind == "return" and isinstance(n.ast.value, ast.Call) and call_name(n.ast.value) == "self._apply_func"]
    if len(app) != 1:
        raise AnchorError(f"{inst}: expected one `return self._apply_func(...)`")
    args = [_norm(a) for a in app[0].ast.value.args]
    problems = []
    if args != ["self._forward_func", "self.range_geometry", "self.domain_geometry", "x", "is_par"]:
        problems.append(f"_apply_func is called with {args}, expected (self._forward_func, self.range_geometry, self.domain_geometry, x, is_par)")
    guards = {(_norm(t.ast), lab) for t, lab in g.guards_of(app[0])}
    for need in (("set(list(kwargs.keys()))!=set(self._non_default_args)", "F"), ("len(kwargs)>1", "F")):
        if need not in guards:
            problems.append(f"validation `{need[0]}` does not precede the application of the operator")
    for t in g.tests():
        if _norm(t.ast) in ("set(list(kwargs.keys()))!=set(self._non_default_args)", "len(kwargs)>1"):
            if not all(g.nodes[m].kind == "raisestmt" for m, lab in g.succ[t.id] if lab == "T"):
                problems.append(f"`{unparse(t.ast)}` does not raise")
    pk = [n for n in g.nodes if n.ast is not None and _norm(n.ast) == "kwargs=self._parse_args_add_to_kwargs(*args,**kwargs)"]
    if len(pk) != 1 or not g.dominates(pk[0], app[0]):
        problems.append("arguments are not parsed by _parse_args_add_to_kwargs first")
    chk.add("C12-R5", inst, not problems, site(repo, fn), "parse -> validate names -> single input -> apply(forward_func, range, domain)", "; ".join(problems), fn)
    pa = repo.method(model, "_parse_args_add_to_kwargs")[1]
    gp = CFG(pa)
    store = [n for n in gp.nodes if isinstance(n.ast, ast.Assign) and isinstance(n.ast.targets[0], ast.Subscript) and path_of(n.ast.targets[0].value) == "kwargs"]
    ok = len(store) == 1 and {("len(kwargs)>0", "F"), ("len(args)!=len(self._non_default_args)", "F")} <= {(_norm(t.ast), lab) for t, lab in gp.guards_of(store[0])}
    chk.add("C12-R5", f"{model.qual}._parse_args_add_to_kwargs", ok, site(repo, pa), "positional+keyword and wrong arity refused before insertion",
            "positional arguments can be merged although keywords were given or the arity is wrong", pa)
    # R4 distribution branch
    ret = [n for n in g.nodes if n.kind == "return" and path_of(n.ast.value) == "new_model"]
    problems = []
    if len(ret) != 1:
        problems.append("distribution branch does not return the renamed copy")
    else:
        guards = {(_norm(t.ast), lab) for t, lab in g.guards_of(ret[0])}
        if ("isinstance(x,cuqi.distribution.Distribution)", "T") not in guards:
            problems.append("renaming is not restricted to Distribution inputs")
        if ("x.dim!=self.domain_dim", "F") not in guards:
            problems.append("dimension check does not precede the renaming")
        body = [_norm(n.ast) for n in g.nodes if n.ast is not None and n.kind == "stmt" and g.requires_edge(n, [t for t in g.tests() if _norm(t.ast) == "isinstance(x,cuqi.distribution.Distribution)"][0], "T")]
        want = ["new_model=copy(self)", "new_model._non_default_args=[x.name]"]
        extra = [b for b in body if b not in want]
        if [b for b in body if b in want] != want:
            problems.append(f"branch is not `new_model = copy(self); new_model._non_default_args = [x.name]` (found {body})")
        if extra:
            problems.append(f"the distribution branch changes more than the input name: {extra}")
    chk.add("C12-R4", inst + "/distribution-branch", not problems, site(repo, fn), "copy(self) with _non_default_args rebound to [x.name], nothing else",
            "; ".join(problems), fn)
