"""C12 — forward models act identically on every representation of their input.

 R1 Model._apply_func: input converted to function values with the *function's domain geometry* according to the carried
    flag, raw function applied, output converted to parameters with the function's range geometry, wrapped like the input;
    Samples are processed column-wise with the collection's own flags (never a hard-coded flag), vectorised function
    values unpacked first, result wrapped with the range geometry
 R2 _2fun/_2par convert exactly when the value is not already in the target representation
 R3 gradient: conversions of wrt/direction, vector-Jacobian orientation of the Jacobian wrappers
 R4 applying a model to a distribution only renames a copy after the dimension check
 R5 input validation precedes use; forward/adjoint pass (function, range, domain) geometries in the right order
"""
from __future__ import annotations
import ast
from typing import List

from ..index import Repo, AnchorError
from ..cfg import CFG, path_of
from ..astutil import unparse, call_name, func_params
from .common import site

MODEL = "cuqi/model/_model.py:Model"


def _norm(e) -> str:
    from .common import vstr
    return vstr(e)


def run(chk, repo: Repo):
    chk.rule("C12-R1", "_apply_func: convert in (domain geometry, carried flag) -> apply -> convert out (range geometry) -> wrap like input; "
                       "Samples column-wise with the collection's flags", floor=2)
    chk.rule("C12-R6", "the model acts on every input as given: no computation path of the model layer is selected by a tolerance comparator (a collection of "
                       "nearly equal samples must still be mapped column by column)", floor=1)
    from ..tolerant import tolerant_shortcut_rule
    tolerant_shortcut_rule(chk, repo, "C12-R6", ("cuqi/model/",))
    chk.rule("C12-R2", "_2fun/_2par: convert only when not already in the target representation; CUQIarray with equal geometry uses its own conversion; "
                       "Geometry.__eq__ answers False for an object of another class", floor=2)
    chk.rule("C12-R3", "gradient: wrt/direction conversions and vector-Jacobian orientation; capability tests (hasattr) are static: no geometry / model class "
                       "forwards unknown attributes dynamically", floor=4)
    from ..dynattr import dynamic_attribute_rule
    dynamic_attribute_rule(chk, repo, "C12-R3", ("cuqi/geometry/", "cuqi/model/"))
    chk.rule("C12-R4", "model(distribution) renames a copy after the dimension check", floor=1)
    chk.rule("C12-R5", "forward validates its input before use and passes (forward_func, range, domain)", floor=2)
    model = repo.cls(MODEL)
    _r1(chk, repo, model)
    _r2(chk, repo, model)
    _r3(chk, repo, model)
    from .c03 import identity_guards
    identity_guards(chk, repo, rule="C12-R3", prefix="cuqi/model/", floor=2)
    _r4_r5(chk, repo, model)


def _r1(chk, repo, model):
    """Decided on the structural normal form with private helpers inlined; the array path as the closed expression the function returns when the
    input is not a Samples object (sa/pathtable.py), the Samples path by def-use expansion of the recursive per-column call."""
    from .common import canon_fn
    from ..pathtable import walk
    from ..flow import Expander
    from ..pattern import norm as pn
    from .common import canon_keep
    src = repo.method(model, "_apply_func")[1]
    fn = canon_keep(repo, model, src, keep={"_2fun", "_2par", "_apply_func"})
    ps = func_params(fn)          # self, func, func_range_geometry, func_domain_geometry, x, is_par
    if len(ps) < 6:
        raise AnchorError("Model._apply_func signature changed")
    f, rg, dg, x, ip = ps[1:6]
    inst = f"{model.qual}._apply_func"
    SAM = pn(f"isinstance({x},Samples)")
    kind, res = walk(fn, {SAM: False, pn(f"isinstance({x},cuqi.samples.Samples)"): False}, pn)
    problems = []
    if kind == "unknown":
        chk.unknown("C12-R1", inst + "/array-path", site(repo, src), f"array path not decidable: {res}", src)
    else:
        wants = [pn(f"self._2par({f}(self._2fun({x},{dg},is_par={ip}),**kwargs),{rg},to_CUQIarray={flag})")
                 for flag in (f"type({x}) is CUQIarray", f"isinstance({x},CUQIarray)")]
        got = pn(res) if kind == "return" else kind
        if got not in wants:
            if kind != "return":
                problems.append(f"the array path ends in `{kind}`")
            else:
                if pn(f"self._2fun({x},{dg},is_par={ip})") not in got:
                    problems.append(f"input is not converted by `self._2fun({x}, {dg}, is_par={ip})` (domain geometry, caller's flag)")
                if got.count(pn(f"{f}(")) != 1:
                    problems.append("raw function is not applied exactly once to the converted input")
                if not got.startswith("self._2par(") or pn(f",{rg},to_CUQIarray=") not in got:
                    problems.append(f"output is not converted by `self._2par(out, {rg}, to_CUQIarray=<input was a CUQIarray>)` (range geometry, wrapped like the input)")
                if not problems:
                    problems.append(f"the array path returns `{unparse(res)[:160]}`")
        chk.add("C12-R1", inst + "/array-path", not problems, site(repo, src), "type(x) -> _2fun(domain) -> func -> _2par(range, wrap like input)", "; ".join(problems), src)
    # Samples path
    ex = Expander(fn)
    g = ex.cfg
    tests = [t for t in g.tests() if pn(t.ast) == SAM]
    if len(tests) != 1:
        raise AnchorError(f"{inst}: Samples branch not found")
    T = tests[0]
    sam = [n for n in g.nodes if n.ast is not None and g.requires_edge(n, T, "T")]
    sp = []
    # names that stand for the collection inside this branch (x itself, `y = x`, `y = y.funvals` under the vectorised-function-values guard)
    aliases = {x}
    changed = True
    while changed:
        changed = False
        cand = {}
        for n in sam:
            if n.kind == "stmt" and isinstance(n.ast, ast.Assign) and isinstance(n.ast.targets[0], ast.Name):
                v_ = n.ast.value
                base = path_of(v_) if not (isinstance(v_, ast.Attribute) and v_.attr == "funvals") else path_of(v_.value)
                cand.setdefault(n.ast.targets[0].id, []).append(base in aliases or base == n.ast.targets[0].id)
        for nm, oks in cand.items():
            if nm not in aliases and all(oks):
                aliases.add(nm)
                changed = True
    import re as _re

    def canon_x(t: str) -> str:
        for a_ in sorted(aliases - {x}, key=len, reverse=True):
            t = _re.sub(rf"(?<![A-Za-z_0-9.]){_re.escape(a_)}(?![A-Za-z_0-9])", x, t)
        return t
    rec = list({id(c): c for n in sam for c in ast.walk(n.ast) if isinstance(c, ast.Call) and call_name(c) == "self._apply_func"}.values())
    if len(rec) != 1:
        sp.append("Samples are not processed by one recursive call per column")
    else:
        c = rec[0]
        cn = g.stmt_node_containing(c)
        args = [canon_x(pn(ex.expand(a, cn, stop=frozenset(aliases)))) for a in c.args]
        kws = {k.arg: canon_x(pn(ex.expand(k.value, cn, stop=frozenset(aliases)))) for k in c.keywords if k.arg}
        if args[:3] != [f, rg, dg]:
            sp.append(f"recursive call passes {args[:3]}, not ({f}, {rg}, {dg})")
        flagv = kws.get("is_par", args[4] if len(args) > 4 else None)
        if flagv != f"{x}.is_par":
            sp.append(f"per-column call uses is_par={flagv}: the collection's own representation flag {x}.is_par is not honoured")
        loops = [n.ast for n in sam if isinstance(n.ast, ast.For)]
        if len(loops) != 1 or canon_x(pn(ex.expand(loops[0].iter, g.node_of(loops[0]), stop=frozenset(aliases)))) != f"enumerate({x})":
            sp.append("columns are not enumerated from the collection")
        else:
            i, it = [pn(e) for e in loops[0].target.elts]
            par = getattr(c, "_parent", None)
            if not (isinstance(par, ast.Assign) and isinstance(par.targets[0], ast.Subscript) and pn(par.targets[0].slice) in (pn(f"(slice(None,None,None),{i})"), f":,{i}", f"(:,{i})")
                    and (args[3] if len(args) > 3 else None) == it):
                sp.append("result of column i is not stored in out[:, i]")
            else:
                outn = path_of(par.targets[0].value)
                alloc = [n for n in sam if n.kind == "stmt" and isinstance(n.ast, ast.Assign) and path_of(n.ast.targets[0]) == outn
                         and canon_x(pn(ex.expand(n.ast.value, n, stop=frozenset(aliases)))) == pn(f"np.zeros(({rg}.par_dim,{x}.Ns))")]
                if len(alloc) != 1:
                    sp.append(f"output is not allocated as ({rg}.par_dim, {x}.Ns)")
                rets = [n for n in sam if n.kind == "return"]
                if len(rets) != 1 or pn(rets[0].ast.value) not in (pn(f"Samples({outn},geometry={rg})"), pn(f"Samples({outn},{rg})")):
                    sp.append("result is not wrapped as Samples with the range geometry")
    # any use of x.funvals / x.parameters / x.vector inside the Samples branch must be restricted to vectorised function values
    for n in sam:
        if n.kind == "iter":
            continue
        for a in ast.walk(n.ast):
            if isinstance(a, ast.Attribute) and path_of(a.value) in aliases and a.attr in ("funvals", "parameters", "vector"):
                gs = [(canon_x(pn(t.ast)), lab) for t, lab in g.guards_of(n)]
                ok = (f"{x}.is_par", "F") in gs and (f"{x}.is_vec", "T") in gs and a.attr == "funvals"
                if not ok:
                    sp.append(f"line {a.lineno}: `{x}.{a.attr}` converts with the collection's own geometry; only vectorised function values "
                              f"(not {x}.is_par and {x}.is_vec) may be unpacked this way, parameters must go through the model's domain geometry")
    chk.add("C12-R1", inst + "/samples-path", not sp, site(repo, src), "column-wise, collection's flags, range geometry", "; ".join(sp), src)


def _r2(chk, repo, model):
    """_2fun / _2par as decision tables over their tests (sa/pathtable.py): independent of elif / early-return / result-variable spelling"""
    from .common import canon_fn
    from ..pathtable import table
    from ..pattern import norm as pn
    # the geometry of a CUQIarray is compared with the model's geometry by VALUE: an identity test treats an equal geometry that is another object
    # (rebuilt, deep-copied model) as foreign and converts already converted values again
    for hname in ("_2fun", "_2par"):
        hsrc = repo.method(model, hname)[1]
        ident = [c_ for c_ in ast.walk(hsrc) if isinstance(c_, ast.Compare) and len(c_.ops) == 1 and isinstance(c_.ops[0], (ast.Is, ast.IsNot))
                 and any(isinstance(z, ast.Attribute) and z.attr == "geometry" for z in [c_.left] + c_.comparators)
                 and not any(isinstance(z, ast.Constant) and z.value is None for z in [c_.left] + c_.comparators)]
        chk.add("C12-R2", f"{model.qual}.{hname}/geometry-by-value", not ident, site(repo, ident[0] if ident else hsrc), "geometries compared with ==",
                f"`{unparse(ident[0]) if ident else ''}` compares geometries by identity: a CUQIarray carrying an equal geometry that is a different object is "
                f"not recognised as already being in the model's representation (function values are mapped through par2fun a second time)", ident[0] if ident else hsrc)
    # ... and "by value" is decided by Geometry.__eq__ alone: an object of another class is UNEQUAL (False).  `NotImplemented` hands the decision to the
    # reflected comparison of the other operand, and the base class's attribute-wise comparison then calls a Continuous1D equal to a StepExpansion / KL
    # expansion on the same grid (the range conversion fun2par would be skipped for an output that still carries the domain geometry)
    from ..pathtable import walk_paths as _wp
    geo = repo.cls("cuqi/geometry/_geometry.py:Geometry")
    eq = geo.methods.get("__eq__")
    if eq is None:
        raise AnchorError("Geometry.__eq__ not found")
    o_ = func_params(eq)[1]
    valq = {pn(f"isinstance({o_},self.__class__)"): False, pn(f"isinstance({o_},type(self))"): False, pn(f"type({o_}) is type(self)"): False,
            pn(f"type(self) is type({o_})"): False, pn(f"type({o_})==type(self)"): False}
    outs = [(k_, pn(r_) if k_ == "return" else None) for k_, r_ in _wp(canon_fn(repo, geo, eq, 1), valq, pn)]
    chk.decide("C12-R2", f"{geo.qual}.__eq__/other-class", outs == [("return", "False")], bool(outs) and all(k_ == "return" for k_, _ in outs), site(repo, eq),
               "a geometry of another class is unequal (False)",
               f"for an object of another class Geometry.__eq__ gives {outs}, not False: the comparison is handed to the other operand's (weaker, attribute-wise) "
               f"test, so geometries of different classes on the same grid compare equal and a conversion the model owes is skipped", eq)
    src = repo.method(model, "_2fun")[1]
    f2 = canon_fn(repo, model, src, 2)
    x, geo, ip = func_params(f2)[1:4]
    atoms = [f"isinstance({x},CUQIarray)", f"{x}.geometry=={geo}", ip]
    tb = table(f2, atoms, pn)
    problems = []
    for (A, B, C), (kind, got) in sorted(tb.items(), reverse=True):
        if kind == "unknown":
            chk.unknown("C12-R2", f"{model.qual}._2fun", site(repo, src), f"not decidable: {got}", src)
            problems = None
            break
        want = pn(f"{x}.funvals") if (A and B) else (pn(f"{geo}.par2fun({x})") if C else x)
        if kind != "return" or got != want:
            case = f"CUQIarray={A}, same geometry={B}, {ip}={C}"
            problems.append(f"[{case}] returns `{got if kind == 'return' else kind}`, expected `{want}`")
    if problems is not None:
        chk.add("C12-R2", f"{model.qual}._2fun", not problems, site(repo, src), "CUQIarray(same geometry) -> funvals; elif is_par -> par2fun; else unchanged",
                "; ".join(problems[:3]), src)
    src = repo.method(model, "_2par")[1]
    p2 = canon_fn(repo, model, src, 2)
    ps2 = func_params(p2)
    v, geo = ps2[1:3]
    atoms = [f"isinstance({v},CUQIarray)", f"{v}.geometry=={geo}", "is_par", "to_CUQIarray"]
    tb = table(p2, atoms, pn)
    problems = []
    for (A, B, C, D), (kind, got) in sorted(tb.items(), reverse=True):
        if kind == "unknown":
            chk.unknown("C12-R2", f"{model.qual}._2par", site(repo, src), f"not decidable: {got}", src)
            problems = None
            break
        base = f"{v}.parameters" if (A and B) else (v if C else f"{geo}.fun2par({v})")
        want = pn(f"CUQIarray({base},is_par=True,geometry={geo})") if D else pn(base)
        if kind != "return" or got != want:
            case = f"CUQIarray={A}, same geometry={B}, is_par={C}, to_CUQIarray={D}"
            problems.append(f"[{case}] returns `{got if kind == 'return' else kind}`, expected `{want}`")
    if problems is not None:
        chk.add("C12-R2", f"{model.qual}._2par", not problems, site(repo, src), "CUQIarray(same geometry) -> parameters; elif not is_par -> fun2par; optional wrap",
                "; ".join(problems[:3]), src)


def _r3(chk, repo, model):
    gfn = repo.method(model, "gradient")[1]
    # decision table over "the domain geometry has a gradient": the returned expression, with locals replaced by their bindings on the path, states
    # every conversion (wrt -> parameters from the ORIGINAL wrt, wrt/direction -> function values, result -> parameters wrapped like the direction)
    from .common import model_gradient_table, model_gradient_expected
    tb, kc = model_gradient_table(repo, model, gfn)
    if tb is None:
        chk.unknown("C12-R3", f"{model.qual}.gradient/conversions", site(repo, gfn), f"not decidable: {kc}", gfn)
    else:
        exp = model_gradient_expected(repo, model, gfn, kc)
        problems = [f"[domain geometry has a gradient={k}] returns `{tb[k]}`, expected `{exp[k]}`" for k in (True, False) if tb[k] != exp[k]]
        chk.add("C12-R3", f"{model.qual}.gradient/conversions", not problems, site(repo, gfn), "wrt/direction conversions as documented", "; ".join(problems)[:900], gfn)
    init = repo.method(model, "__init__")[1]
    # the callable bound to `gradient` when only a Jacobian is given: a lambda or a nested def whose value is direction @ jacobian(wrt)
    from ..canon import _single_expr
    g2 = CFG(init)
    cands = []
    for n in g2.nodes:
        a = n.ast
        if n.kind == "stmt" and isinstance(a, ast.Assign) and isinstance(a.value, ast.Lambda) and path_of(a.targets[0]) == "gradient":
            cands.append((n, [x_.arg for x_ in a.value.args.args], a.value.body))
        elif isinstance(a, ast.FunctionDef) and a.name == "gradient":
            e = _single_expr(a)
            cands.append((n, [x_.arg for x_ in a.args.args], e))
    ok = False
    if len(cands) == 1 and cands[0][2] is not None and len(cands[0][1]) == 2:
        n, (d_, w_), body = cands[0]
        ok = _norm(body) == f"{d_}@jacobian({w_})" and any(_norm(t.ast) in ("jacobianisnotNone",) and lab == "T" for t, lab in g2.guards_of(n))
    lam = [c[0].ast for c in cands]
    chk.decide("C12-R3", f"{model.qual}.__init__/jacobian-wrapper", ok, bool(cands), site(repo, init), "gradient = direction @ jacobian(wrt)",
               "Jacobian-based gradient is not the vector-Jacobian product direction @ jacobian(wrt)", init)
    both = [t for t in g2.tests() if _norm(t.ast) == "gradientisnotNone"]
    ok = any(_norm(r.ast).startswith("raiseTypeError('Onlyoneofgradientandjacobian") for r in g2.nodes if r.kind == "raisestmt")
    chk.add("C12-R3", f"{model.qual}.__init__/gradient-xor-jacobian", ok, site(repo, init), "both given -> TypeError", "gradient and jacobian can both be given", init)
    pde = repo.cls("cuqi/model/_model.py:PDEModel")
    pg_src = repo.method(pde, "_gradient_func")[1]
    from .common import canon_fn
    from ..pathtable import table
    from ..pattern import norm as pn
    pg = canon_fn(repo, pde, pg_src, 4)
    d_, w_ = func_params(pg)[1:3]
    tb = table(pg, ["hasattr(self.pde,'gradient_wrt_parameter')", "hasattr(self.pde,'jacobian_wrt_parameter')"], pn)
    bad = []
    undec = [v for v in tb.values() if v[0] == "unknown"]
    for (A, B), (kind, got) in tb.items():
        want = ("return", pn(f"self.pde.gradient_wrt_parameter({d_},{w_})")) if A else (("return", pn(f"{d_}@self.pde.jacobian_wrt_parameter({w_})")) if B else ("raise", None))
        if (kind, got) != want and kind != "unknown":
            bad.append(f"[direct product available={A}, Jacobian available={B}] {kind} `{got}`, expected {want[0]} `{want[1]}`")
    chk.decide("C12-R3", f"{pde.qual}._gradient_func", not bad and not undec, not undec, site(repo, pg_src),
               "gradient_wrt_parameter(direction, wrt) else direction @ jacobian_wrt_parameter(wrt)",
               f"PDE gradient dispatch: {'; '.join(bad) or undec[:1]}", pg_src)


def _bound_args(repo, ci, mname, call):
    """the arguments of a call of self.<mname> in the order of the method's parameters, whether they were passed by position or by keyword"""
    params = func_params(repo.method(ci, mname)[1])[1:]
    out = [_norm(a) for a in call.args]
    kw = {k.arg: k.value for k in call.keywords if k.arg}
    for p_ in params[len(out):]:
        if p_ not in kw:
            break
        out.append(_norm(kw.pop(p_)))
    return out + [f"{k_}={_norm(v_)}" for k_, v_ in kw.items()]


def _r4_r5(chk, repo, model):
    from .common import canon_keep, guarded, pmatch
    from ..pattern import norm as pn, unify, statements
    src = repo.method(model, "forward")[1]
    fn = canon_keep(repo, model, src, keep={"_apply_func", "_parse_args_add_to_kwargs", "_2fun", "_2par"}, subst="attr")
    g = CFG(fn)
    inst = f"{model.qual}.forward"
    app = [n for n in g.nodes if n.ast is not None and n.kind == "return" and isinstance(n.ast.value, ast.Call) and call_name(n.ast.value) == "self._apply_func"]
    if len(app) != 1:
        raise AnchorError(f"{inst}: expected one `return self._apply_func(...)`")
    args = _bound_args(repo, model, "_apply_func", app[0].ast.value)
    problems = []
    if args != ["self._forward_func", "self.range_geometry", "self.domain_geometry", "x", "is_par"]:
        problems.append(f"_apply_func is called with {args}, expected (self._forward_func, self.range_geometry, self.domain_geometry, x, is_par)")
    NAMES = [("set(kwargs)!=set(self._non_default_args)", "F"), ("set(self._non_default_args)!=set(kwargs)", "F"),
             ("set(kwargs)==set(self._non_default_args)", "T"), ("set(self._non_default_args)==set(kwargs)", "T")]
    ONE = [("1<len(kwargs)", "F"), ("len(kwargs)<=1", "T"), ("len(kwargs)==1", "T"), ("len(kwargs)!=1", "F")]
    if not any(guarded(g, app[0], p_, lab) for p_, lab in NAMES):
        problems.append("validation `set(kwargs) != set(self._non_default_args)` does not precede the application of the operator")
    if not any(guarded(g, app[0], p_, lab) for p_, lab in ONE):
        problems.append("validation `len(kwargs) > 1` does not precede the application of the operator")
    pk = [n for n in g.nodes if n.ast is not None and n.kind == "stmt" and pn(n.ast) == pn("kwargs=self._parse_args_add_to_kwargs(*args,**kwargs)")]
    if len(pk) != 1 or not g.dominates(pk[0], app[0]):
        problems.append("arguments are not parsed by _parse_args_add_to_kwargs first")
    chk.add("C12-R5", inst, not problems, site(repo, src), "parse -> validate names -> single input -> apply(forward_func, range, domain)", "; ".join(problems), src)
    pa_src = repo.method(model, "_parse_args_add_to_kwargs")[1]
    from .common import canon_fn
    pa = canon_fn(repo, model, pa_src, 4)          # aliases of self._non_default_args substituted
    gp = CFG(pa)
    store = [n for n in gp.nodes if isinstance(n.ast, ast.Assign) and isinstance(n.ast.targets[0], ast.Subscript) and path_of(n.ast.targets[0].value) == "kwargs"]
    ok = len(store) == 1 and any(guarded(gp, store[0], p_, lab) for p_, lab in (("0<len(kwargs)", "F"), ("len(kwargs)==0", "T"), ("kwargs", "F"))) \
        and any(guarded(gp, store[0], p_, lab) for p_, lab in (("len(args)!=len(self._non_default_args)", "F"), ("len(self._non_default_args)!=len(args)", "F"),
                                                             ("len(args)==len(self._non_default_args)", "T"), ("len(self._non_default_args)==len(args)", "T")))
    chk.decide("C12-R5", f"{model.qual}._parse_args_add_to_kwargs", ok, len(store) >= 1, site(repo, pa_src), "positional+keyword and wrong arity refused before insertion",
               "positional arguments can be merged although keywords were given or the arity is wrong", pa_src)
    # R4 distribution branch: the value returned for a Distribution input is a shallow copy whose input name list is REBOUND to [x.name]
    dist_t = [t for t in g.tests() if pn(t.ast) == pn("isinstance(x,cuqi.distribution.Distribution)")]
    problems = []
    if len(dist_t) != 1:
        raise AnchorError(f"{inst}: distribution branch not found")
    region = [n for n in g.nodes if n.ast is not None and n.kind in ("stmt", "return") and g.requires_edge(n, dist_t[0], "T")]
    S = [(pn(n.ast), n.ast) for n in region]
    b, used = unify(["$m=copy(self)", "$m._non_default_args=[x.name]", "return $m"], S)
    if b is None:
        problems.append(f"branch is not `new = copy(self); new._non_default_args = [x.name]; return new` (found {[t for t, _ in S][:5]})")
    else:
        rn = [n for n in region if n.ast is used[2]][0]
        if not any(guarded(g, rn, p_, lab) for p_, lab in (("x.dim!=self.domain_dim", "F"), ("self.domain_dim!=x.dim", "F"), ("x.dim==self.domain_dim", "T"), ("self.domain_dim==x.dim", "T"))):
            problems.append("dimension check does not precede the renaming")
        extra = [t for t, a in S if a not in used and not t.startswith("raise")]
        if extra:
            problems.append(f"the distribution branch changes more than the input name: {extra}")
    chk.add("C12-R4", inst + "/distribution-branch", not problems, site(repo, src), "copy(self) with _non_default_args rebound to [x.name], nothing else",
            "; ".join(problems), src)
