"""C15 — MAP/ML estimates and direct Gaussian sampling: structure of the closed-form and optimisation routes.

 R1 shape-dispatch completeness: each consumer of a Gaussian's stored covariance in matrix arithmetic normalises every stored
    form (scalar (1,1) -> c*I, vector -> diag, matrix as is) before using it
 R2 the closed-form route reads model.get_matrix(), data, prior mean/cov, noise cov of the same problem and is selected by type
    and size (note: for non-identity geometries get_matrix is subject to known finding F11b / C07-R3)
 R3 paired negation: the optimiser minimises -logd with -gradient of the same density (both or neither); the result is wrapped
    with the density's geometry without arithmetic on it
 R4 direct sampling: MAP parameters + L @ N(0, I) with L the Cholesky factor of inv(A' Ce^-1 A + Cx^-1) built from the same
    A, Ce, Cx as the MAP
 R5 the stored covariances/data are never modified in place by MAP / direct sampling (may-alias analysis)
"""
from __future__ import annotations
import ast
from typing import List

from ..index import Repo, AnchorError
from ..alias import FnAlias
from ..cfg import CFG, path_of
from ..astutil import unparse, call_name, func_params, strip_docstring
from .common import site

BP = "cuqi/problem/_problem.py:BayesianProblem"


def _norm(e) -> str:
    return unparse(e).replace(" ", "").replace("\n", "")


def run(chk, repo: Repo):
    chk.rule("C15-R1", "covariance consumers normalise scalar, vector and matrix storage forms", floor=4)
    chk.rule("C15-R2", "closed-form MAP: Tarantola (3.37-3.38) from get_matrix(), data, prior mean/cov, noise cov; route selected by type and size", floor=2)
    chk.rule("C15-R3", "optimiser receives -logd and -gradient of the same density; result wrapped with that density's geometry", floor=3)
    chk.rule("C15-R4", "direct sampling: x_map.parameters + chol(inv(A.T Ce^-1 A + Cx^-1)) @ N(0, I)", floor=1)
    chk.rule("C15-R5", "no in-place operation of MAP/_sampleMapCholesky may reach stored problem data", floor=2)
    chk.rule("C15-R6", "the covariance the direct route reads (Gaussian.compute_cov) is inv(sqrtprec.T @ sqrtprec), the covariance of the log-density", floor=1)
    from ..gram import gram_orientation
    gram_orientation(chk, repo, "C15-R6", only={"Gaussian.compute_cov"})
    bp = repo.cls(BP)
    mp = repo.method(bp, "MAP")[1]
    sc = repo.method(bp, "_sampleMapCholesky")[1]
    # R1  (the covariance variables are found by their provenance, not by name)
    from ..pattern import statements, unify
    for fn in (mp, sc):
        g = CFG(fn)
        S = statements(fn, nested=True)
        for role, src, dim in (("noise", "self.likelihood.distribution.cov", "self.model.range_dim"), ("prior", "self.prior.cov", "self.model.domain_dim")):
            b0, _ = unify([f"$C={src}"], S)
            if b0 is None:
                raise AnchorError(f"{bp.qual}.{fn.name}: the {role} covariance is not read from {src}")
            var = b0["C"]
            SN = [(n, _norm(n.ast)) for n in g.nodes if isinstance(n.ast, ast.Assign) and n.kind == "stmt" and path_of(n.ast.targets[0]) == var]
            scalar = [n for n, t in SN if t == f"{var}={var}.ravel()[0]*np.eye({dim})"]
            vector = [n for n, t in SN if t in (f"{var}=np.diag({var})",)]
            problems = []
            if len(scalar) != 1 or (f"np.size({var})==1", "T") not in {(_norm(t.ast), lab) for t, lab in g.guards_of(scalar[0])}:
                problems.append(f"a scalar {role} covariance (stored as a (1,1) array) is not expanded to c*I of size {dim}")
            if len(vector) != 1 or not any(_norm(t.ast) in (f"np.ndim({var})==1", f"{var}.ndim==1", f"len({var}.shape)==1") and lab == "T" for t, lab in g.guards_of(vector[0])):
                problems.append(f"a vector of {role} variances (stored 1-D) is not placed on a diagonal: it would be broadcast-added to every row / inverted element-wise")
            chk.add("C15-R1", f"{bp.qual}.{fn.name}/{role}-covariance", not problems, site(repo, fn), f"{role} covariance: scalar -> c*I, vector -> diag, matrix as stored", "; ".join(problems), fn)
    # R2
    S = statements(mp, nested=True)
    pats = ["$b=self.data", "$A=self.model.get_matrix()", "$Ce=self.likelihood.distribution.cov", "$m=self.prior.mean", "$Cx=self.prior.cov",
            "$rhs=$b-$A@$m", "$sys=$A@$Cx@$A.T+$Ce", "$xm=$m+$Cx@($A.T@np.linalg.solve($sys,$rhs))"]
    msgs = ["data", "matrix of the model", "noise covariance", "prior mean", "prior covariance", "residual of the prior mean b - A m",
            "data-space system matrix A Cx A' + Ce", "x = m + Cx A' (A Cx A' + Ce)^-1 (b - A m)"]
    problems = []
    b, fail = unify(pats, S)
    if b is None:
        problems.append(f"{msgs[fail]} (`{pats[fail]}` has no consistent match)")
    t = _norm(mp)
    for pat, msg in (("ifself._check_posterior(self,Gaussian,Gaussian,LinearModel,max_dim=config.MAX_DIM_INV):", "route selected for Gaussian prior/likelihood, linear model, bounded size"),
                     ("self._solve_max_point(self.posterior,disp=disp,x0=x0)", "otherwise numerical optimisation of the posterior")):
        if pat not in t:
            problems.append(f"{msg} (`{pat}` not found)")
    if b is not None and f"{b['xm']}=cuqi.array.CUQIarray({b['xm']},geometry=self.posterior.geometry)" not in t:
        problems.append("estimate is not wrapped with the posterior's geometry")
    chk.add("C15-R2", f"{bp.qual}.MAP", not problems, site(repo, mp), "closed form of the linear-Gaussian posterior mean", "; ".join(problems), mp)
    cp = repo.method(bp, "_check_posterior")[1]
    t = _norm(cp)
    ok = "P=isinstance(posterior.prior,prior_type)" in t and "L=isinstance(posterior.likelihood.distribution,likelihood_type)" in t and "M=isinstance(posterior.model,model_type)" in t \
        and "returnLandPandMandDandG" in t
    chk.add("C15-R2", f"{bp.qual}._check_posterior", ok, site(repo, cp), "all requested type/size/gradient conditions must hold", "route selection no longer requires all conditions", cp)
    # R3
    sm = repo.method(bp, "_solve_max_point")[1]
    d = func_params(sm)[1]
    t = _norm(sm)
    problems = []
    for pat, msg in ((f"deffunc(x):return-{d}.logd(x)", "objective is -logd of the density"),
                     (f"defgradfunc(x):return-{d}.gradient(x)", "gradient is -gradient of the same density"),
                     ("except(NotImplementedError,AttributeError):gradfunc=None", "no gradient -> approximate gradients"),
                     ("solver=cuqi.solver.L_BFGS_B(func,x0,gradfunc=gradfunc)", "L-BFGS-B on (func, gradfunc)"),
                     ("solver=cuqi.solver.minimize(func,x0,gradfunc=gradfunc)", "minimize on (func, gradfunc)"),
                     ("x_MAP,solver_info=solver.solve()", "solver's point"), ("return(x_MAP,solver_info)", "returned unchanged")):
        if pat not in t:
            problems.append(f"{msg} (`{pat}` not found)")
    g = CFG(sm)
    gd = [n for n in g.nodes if isinstance(n.ast, ast.FunctionDef) and n.ast.name == "gradfunc"]
    probe = [n for n in g.nodes if n.ast is not None and n.kind == "stmt" and _norm(n.ast) == f"{d}.gradient(x0)"]
    if len(gd) != 1 or len(probe) != 1 or not g.dominates(probe[0], gd[0]):
        problems.append("the exact gradient is used without first probing that the density provides one")
    chk.add("C15-R3", f"{bp.qual}._solve_max_point", not problems, site(repo, sm), "minimise -logd with -gradient (both or neither)", "; ".join(problems), sm)
    ml = repo.method(bp, "ML")[1]
    t = _norm(ml)
    ok = "x_ML,solver_info=self._solve_max_point(self.likelihood,disp=disp,x0=x0)" in t and "x_ML=cuqi.array.CUQIarray(x_ML,geometry=self.likelihood.geometry)" in t and "returnx_ML" in t
    chk.add("C15-R3", f"{bp.qual}.ML", ok, site(repo, ml), "maximiser of the likelihood wrapped with its geometry", "ML does not optimise the likelihood / wrap with its geometry", ml)
    t = _norm(mp)
    ok = "x_MAP.info=solver_info" in t and "returnx_MAP" in t
    chk.add("C15-R3", f"{bp.qual}.MAP/return", ok, site(repo, mp), "returns the estimate with solver info", "MAP does not return the wrapped estimate", mp)
    # R4
    S = statements(sc, nested=True)
    pats = ["$A=self.model.get_matrix()", "$Ce=self.likelihood.distribution.cov", "$Cx=self.prior.cov", "$xmap=self.MAP(disp=False)",
            "$C=np.linalg.inv($A.T@(np.linalg.inv($Ce)@$A)+np.linalg.inv($Cx))", "$L=np.linalg.cholesky($C)", "$n=self.prior.dim",
            "$xs[:,$s]=$xmap.parameters+$L@np.random.randn($n)", "return cuqi.samples.Samples($xs,self.model.domain_geometry)"]
    msgs = ["same matrix as MAP", "same noise covariance as MAP", "same prior covariance as MAP", "centre is the MAP",
            "posterior covariance (A' Ce^-1 A + Cx^-1)^-1", "Cholesky factor of the covariance", "dimension", "draw = MAP parameters + L @ N(0, I)", "samples with the domain geometry"]
    problems = []
    b, fail = unify(pats, S)
    if b is None:
        problems.append(f"{msgs[fail]} (`{pats[fail]}` has no consistent match)")
    chk.add("C15-R4", f"{bp.qual}._sampleMapCholesky", not problems, site(repo, sc), "exact Gaussian posterior draws", "; ".join(problems), sc)
    # R5
    for fn in (mp, sc):
        fa = FnAlias(fn)
        bad = [(r, a, k) for r, n, a, k in fa.mutated_roots() if r.startswith("self.")]
        if bad:
            for r, a, k in bad:
                chk.fail("C15-R5", f"{bp.qual}.{fn.name}/{r}", site(repo, a),
                         f"in-place {k} may modify `{r}`, data stored in the problem (e.g. a full noise covariance matrix is returned by reference): "
                         f"every later MAP()/sample would use the altered value", a)
        else:
            chk.ok("C15-R5", f"{bp.qual}.{fn.name}", site(repo, fn), f"{len(fa.inplace_ops())} in-place operations, none may reach stored problem data")
