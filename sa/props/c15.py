"""C15 — MAP/ML estimates and direct Gaussian sampling: structure of the closed-form and optimisation routes.

 R1 shape-dispatch completeness: each consumer of a Gaussian's stored covariance in matrix arithmetic normalises every stored
    form (scalar (1,1) -> c*I, vector -> diag, matrix as is) before using it
 R2 the closed-form route reads model.get_matrix(), data, prior mean/cov, noise cov of the same problem and is selected by type
    and size (note: for non-identity geometries get_matrix is subject to known finding F11b / C07-R3)
 R3 paired negation: the optimiser minimises -logd with -gradient of the same density (both or neither); the result is wrapped
    with the density's geometry without arithmetic on it
 R4 direct sampling: MAP parameters + L @ N(0, I) with L the Cholesky factor of inv(A' Ce^-1 A + Cx^-1) built from the same
    A, Ce, Cx as the MAP
 R5 the stored covariances/data are never modified in place by MAP / direct sampling (may-alias analysis)
"""
from __future__ import annotations
import ast
from typing import List

from ..index import Repo, AnchorError
from ..alias import FnAlias
from ..cfg import CFG, path_of
from ..astutil import unparse, call_name, func_params, strip_docstring
from .common import site

BP = "cuqi/problem/_problem.py:BayesianProblem"


def _norm(e) -> str:
    from .common import vstr
    return vstr(e)


def _cov_writers(chk, repo):
    """Who may write the stored covariance of a Gaussian: the `cov` setter stores the user's value, compute_cov stores inv(sqrtprec.T@sqrtprec) (decided
    by the Gram rule above), every other parameterisation only clears it.  A setter of another parameterisation that pre-populates `_cov` hands the
    closed-form MAP / direct sampler a covariance that was never validated against that parameterisation's storage forms (vector of stds, scalar, sparse)."""
    G = repo.cls("cuqi/distribution/_gaussian.py:Gaussian")
    n = 0
    for kind, name, fn in G.all_functions():
        for st in ast.walk(fn):
            if not isinstance(st, (ast.Assign, ast.AugAssign, ast.AnnAssign)):
                continue
            tg = st.targets if isinstance(st, ast.Assign) else [st.target]
            tg = [t for T in tg for t in (T.elts if isinstance(T, (ast.Tuple, ast.List)) else [T])]
            if not any(path_of(t) == "self._cov" for t in tg):
                continue
            n += 1
            inst = f"{G.qual}.{'@' if kind in ('getter', 'setter') else ''}{name}{'=' if kind == 'setter' else ''}/_cov"
            v = getattr(st, "value", None)
            if name == "compute_cov":
                chk.ok("C15-R6", inst, site(repo, st), "compute_cov stores the covariance it derived (Gram rule)", st)
            elif kind == "setter" and name == "cov":
                ok = isinstance(v, ast.Name) and v.id == func_params(fn)[1] and isinstance(st, ast.Assign)
                chk.add("C15-R6", inst, ok, site(repo, st), "the cov setter stores the value it was given", f"the cov setter stores `{unparse(v)}` instead of its argument", st)
            else:
                ok = isinstance(st, ast.Assign) and isinstance(v, ast.Constant) and v.value is None
                chk.add("C15-R6", inst, ok, site(repo, st), "other writers only clear the stored covariance",
                        f"`{unparse(st)[:80]}` pre-populates the stored covariance outside the cov setter / compute_cov: the expression is not the covariance for every "
                        f"storage form of this parameterisation (for a 1-D vector of standard deviations S@S.T is the scalar sum of squares, not diag(S**2)), and the "
                        f"closed-form MAP and the direct sampler read it without further checks", st)
    # a parameterisation setter that re-derives the covariance (self.compute_cov(), which reads self.sqrtprec) does so only after it has stored the new
    # square-root precision: otherwise the refreshed covariance is the inverse of the OLD precision
    for kind, name, fn in G.all_functions():
        if kind != "setter" or name == "cov":
            continue
        g = CFG(fn)
        calls = [nd for nd in g.nodes if nd.ast is not None and nd.kind in ("stmt", "return", "test") and any(
            isinstance(c, ast.Call) and call_name(c) in ("self.compute_cov",) for c in ast.walk(nd.ast))]
        if not calls:
            continue
        stores = [nd for nd in g.nodes if isinstance(nd.ast, ast.Assign) and any(path_of(t) == "self._sqrtprec" for T in nd.ast.targets
                                                                               for t in (T.elts if isinstance(T, (ast.Tuple, ast.List)) else [T]))]
        # the LAST store of the canonical square root in the setter (the helpers' result) must precede the refresh on every path
        for c in calls:
            n += 1
            final = [st for st in stores if not any(g.reaches(st, o) and o is not st for o in stores)]
            ok = bool(final) and all(g.dominates(st, c) for st in final)
            chk.add("C15-R6", f"{G.qual}.@{name}=/compute_cov-after-update", ok, site(repo, c.ast), "covariance re-derived only after the new sqrtprec is stored",
                    f"the `{name}` setter calls compute_cov() before it has stored the square-root precision of the new value: compute_cov() reads self.sqrtprec, so the "
                    f"stored covariance is the inverse of the PREVIOUS precision while logd already uses the new one; closed-form MAP and the direct sampler read that covariance", c.ast)
    if n < 4:
        raise AnchorError(f"Gaussian: {n} writers of _cov found, at least 4 confirmed by hand (cov setter, clears, compute_cov)")


def run(chk, repo: Repo):
    chk.rule("C15-R1", "covariance consumers normalise scalar (also as a length-one 1-D array), vector and matrix storage forms", floor=4)
    chk.rule("C15-R2", "closed-form MAP: Tarantola (3.37-3.38) from get_matrix(), data, prior mean/cov, noise cov; route selected by type and size", floor=2)
    chk.rule("C15-R3", "optimiser receives -logd and -gradient of the same density; result wrapped with that density's geometry; ML is the optimiser on the likelihood on every path", floor=3)
    chk.rule("C15-R4", "direct sampling: x_map.parameters + chol(inv(A.T Ce^-1 A + Cx^-1)) @ N(0, I)", floor=1)
    chk.rule("C15-R5", "no in-place operation of MAP/_sampleMapCholesky may reach stored problem data", floor=2)
    chk.rule("C15-R6", "the covariance the direct route reads (Gaussian.compute_cov) is inv(sqrtprec.T @ sqrtprec), the covariance of the log-density; "
                       "only the cov setter and compute_cov populate the stored covariance, a setter re-derives it only after storing the new sqrtprec; the gradient handed to the optimiser applies a Gram product", floor=5)
    from ..gram import gram_orientation
    gram_orientation(chk, repo, "C15-R6", only={"Gaussian.compute_cov"})
    from ..gram import same_orientation_application
    same_orientation_application(chk, repo, "C15-R6")          # the analytic gradient handed to the optimiser applies sqrtprec.T @ (sqrtprec @ r)
    _cov_writers(chk, repo)
    bp = repo.cls(BP)
    mp = repo.method(bp, "MAP")[1]
    sc = repo.method(bp, "_sampleMapCholesky")[1]
    # R1, R2, R4: the value computed on the direct route as a closed expression of the problem's components, for every storage form of the two
    # covariances (sa/pathtable.py follows the path selected by each valuation of the tests and substitutes the locals)
    from .common import canon_keep, canon_fn, stmts
    from ..pathtable import walk, walk_stmts
    from ..pattern import norm as pn, unify, statements
    from ..canon import _SymOrder
    E, X = "self.likelihood.distribution.cov", "self.prior.cov"
    A, b_, m_ = "self.model.get_matrix()", "self.data", "self.prior.mean"
    DIRECT = "self._check_posterior(self,Gaussian,Gaussian,LinearModel,max_dim=config.MAX_DIM_INV)"

    def cov(raw, form, dim):
        # "scalar1d": a scalar variance stored as a 1-D array of length one (np.array([v]), the value of cov=lambda s: 1/s at a length-1 s): size 1 AND one axis
        return {"scalar": f"{raw}.ravel()[0]*np.eye({dim})", "scalar1d": f"{raw}.ravel()[0]*np.eye({dim})", "vector": f"np.diag({raw})", "matrix": raw}[form]

    def valuation(fe, fx, direct=True):
        v = {"disp": False, DIRECT: direct}
        for raw, form in ((E, fe), (X, fx)):
            v[f"np.size({raw})==1"] = form in ("scalar", "scalar1d")
            for vec in (f"np.ndim({raw})==1", f"{raw}.ndim==1", f"len({raw}.shape)==1", f"len(np.shape({raw}))==1"):
                v[vec] = form in ("vector", "scalar1d")
        return {pn(_SymOrder().visit(ast.parse(k, mode="eval").body)): val for k, val in v.items()}

    def canon_txt(t):
        return pn(_SymOrder().visit(ast.parse(t, mode="eval").body))
    FORMS = ("scalar", "vector", "matrix")
    FORMS1 = ("scalar", "scalar1d", "vector", "matrix")
    KEEP = {"_check_posterior", "_solve_max_point", "MAP", "_sampleMapCholesky"}
    mpv = canon_keep(repo, bp, mp, KEEP)
    scv = canon_keep(repo, bp, sc, KEEP)
    # ---- MAP
    results = {}
    for fe in FORMS1:
        for fx in FORMS1:
            results[(fe, fx)] = walk(mpv, valuation(fe, fx), pn)

    def want_map(fe, fx):
        Ce, Cx = cov(E, fe, "self.model.range_dim"), cov(X, fx, "self.model.domain_dim")
        return canon_txt(f"cuqi.array.CUQIarray({m_}+({Cx})@({A}.T@np.linalg.solve({A}@({Cx})@{A}.T+({Ce}),{b_}-{A}@{m_})),geometry=self.posterior.geometry)")
    undec = [r for r in results.values() if r[0] == "unknown"]
    for role, idx, raw, dim in (("noise", 0, E, "self.model.range_dim"), ("prior", 1, X, "self.model.domain_dim")):
        problems = []
        for form in FORMS1:
            key = (form, "matrix") if idx == 0 else ("matrix", form)
            kind, res = results[key]
            if kind == "unknown":
                continue
            got = canon_txt(unparse(res)) if kind == "return" else kind
            if got != want_map(*key):
                have = canon_txt(cov(raw, form, dim))
                if form == "scalar1d":
                    problems.append(f"a scalar {role} variance stored as a 1-D array of length one (size 1 and one axis) is not expanded to c*I of size {dim}: "
                                    f"the one-axis test wins and np.diag gives a 1x1 matrix that is broadcast over the whole system matrix")
                elif form == "scalar":
                    problems.append(f"a scalar {role} covariance (stored as a (1,1) array) is not expanded to c*I of size {dim}")
                elif form == "vector":
                    problems.append(f"a vector of {role} variances (stored 1-D) is not placed on a diagonal: it would be broadcast-added to every row / inverted element-wise")
                else:
                    problems.append(f"a full {role} covariance matrix is not used as stored")
        chk.decide("C15-R1", f"{bp.qual}.MAP/{role}-covariance", not problems and not undec, not undec, site(repo, mp),
                   f"{role} covariance: scalar -> c*I, vector -> diag, matrix as stored", "; ".join(problems) or str(undec[:1]), mp)
    problems = []
    kind, res = results[("matrix", "matrix")]
    if kind == "return" and canon_txt(unparse(res)) != want_map("matrix", "matrix"):
        problems.append(f"the direct estimate is `{unparse(res)[:200]}`, not x = m + Cx A' (A Cx A' + Ce)^-1 (b - A m) wrapped with the posterior's geometry")
    kind2, res2 = walk(mpv, valuation("matrix", "matrix", direct=False), pn)
    want_num = canon_txt("cuqi.array.CUQIarray(self._solve_max_point(self.posterior,disp=disp,x0=x0)[0],geometry=self.posterior.geometry)")
    if kind2 == "return" and canon_txt(unparse(res2)) != want_num:
        problems.append(f"otherwise the estimate is `{unparse(res2)[:160]}`, not the numerical maximiser of the posterior wrapped with its geometry")
    rec = kind == "return" and kind2 == "return"
    chk.decide("C15-R2", f"{bp.qual}.MAP", rec and not problems, rec, site(repo, mp), "closed form of the linear-Gaussian posterior mean; numerical optimisation otherwise",
               "; ".join(problems) or f"route not decidable ({res if kind != 'return' else res2})", mp)
    # ---- _check_posterior: conjunction of exactly the requested conditions
    cp_src = repo.method(bp, "_check_posterior")[1]
    cpv = canon_fn(repo, bp, cp_src, 1)
    conds = {"prior_type": "isinstance(posterior.prior,prior_type)", "likelihood_type": "isinstance(posterior.likelihood.distribution,likelihood_type)",
             "model_type": "isinstance(posterior.model,model_type)", "max_dim": "posterior.model.domain_dim<=max_dim and posterior.model.range_dim<=max_dim"}
    problems, decided = [], True
    import itertools
    for bits in itertools.product((True, False), repeat=4):
        val = {pn(f"{k} is None"): v for k, v in zip(conds, bits)}
        val.update({pn(f"{k} is not None"): (not v) for k, v in zip(conds, bits)})
        val["must_have_gradient"] = False
        kind, res = walk(cpv, val, pn)
        if kind != "return":
            decided = False
            break
        got = _conjuncts(_simplify(res, val, pn), pn)
        want = set()
        for (k, c), isnone in zip(conds.items(), bits):
            if not isnone:
                want |= _conjuncts(ast.parse(c, mode="eval").body, pn)
        if got != want:
            problems.append(f"with {[k for k, n_ in zip(conds, bits) if not n_]} requested the route requires {sorted(got)}, expected {sorted(want)}")
    chk.decide("C15-R2", f"{bp.qual}._check_posterior", decided and not problems, decided, site(repo, cp_src), "all requested type/size/gradient conditions must hold",
               "route selection no longer requires all conditions: " + "; ".join(problems[:2]), cp_src)
    # ---- R3: optimiser on (-logd, -gradient) of the same density
    sm = repo.method(bp, "_solve_max_point")[1]
    d = func_params(sm)[1]
    from ..canon import _single_expr
    problems = []
    objs, grads = [], []
    for n in ast.walk(sm):
        if isinstance(n, ast.FunctionDef) and n is not sm:
            e = _single_expr(n)
            if e is not None and len(n.args.args) == 1:
                t = pn(e)
                a0 = n.args.args[0].arg
                if t == pn(f"-{d}.logd({a0})"):
                    objs.append(n)
                elif t == pn(f"-{d}.gradient({a0})"):
                    grads.append(n)
    if len(objs) != 1:
        problems.append(f"objective is not a function returning -{d}.logd(x)")
    if len(grads) != 1:
        problems.append(f"gradient is not a function returning -{d}.gradient(x) of the same density")
    g = CFG(sm)
    if objs and grads:
        fo, fg = objs[0].name, grads[0].name
        ctor = [c for c in ast.walk(sm) if isinstance(c, ast.Call) and c.args and path_of(c.args[0]) == fo]
        if not ctor:
            problems.append("the solver is not constructed on the objective")
        for c in ctor:
            kw = {k.arg: path_of(k.value) for k in c.keywords}
            if kw.get("gradfunc") != fg or (len(c.args) < 2 or path_of(c.args[1]) != "x0"):
                problems.append(f"solver `{unparse(c)[:70]}` does not receive (objective, x0, gradfunc=<its gradient>)")
        # the name of the gradient is bound either to that function or to None (no analytic gradient): approximate gradients, never another function
        others = [n_ for n_ in ast.walk(sm) if isinstance(n_, ast.Assign) and path_of(n_.targets[0]) == fg and not (isinstance(n_.value, ast.Constant) and n_.value.value is None)]
        if others:
            problems.append(f"`{fg}` is also bound to `{unparse(others[0].value)[:40]}`")
        none_bind = [n_ for n_ in ast.walk(sm) if isinstance(n_, ast.Assign) and path_of(n_.targets[0]) == fg and isinstance(n_.value, ast.Constant) and n_.value.value is None]
        if not none_bind or not any(isinstance(p_, ast.ExceptHandler) for nb in none_bind for p_ in _parents(nb)):
            problems.append("no gradient -> approximate gradients: the gradient is not set to None in the handler of the probing call")
        gd = [n for n in g.nodes if n.ast is grads[0]]
        probe = [n for n in g.nodes if n.ast is not None and n.kind == "stmt" and pn(n.ast) == pn(f"{d}.gradient(x0)")]
        if len(gd) != 1 or len(probe) != 1 or not g.dominates(probe[0], gd[0]):
            problems.append("the exact gradient is used without first probing that the density provides one")
        S = statements(sm, nested=True)
        bsol, _ = unify(["$x,$info=$solver.solve()", "return ($x,$info)"], S)
        if bsol is None:
            problems.append("the solver's point is not returned unchanged")
    chk.add("C15-R3", f"{bp.qual}._solve_max_point", not problems, site(repo, sm), "minimise -logd with -gradient (both or neither)", "; ".join(problems), sm)
    ml = repo.method(bp, "ML")[1]
    # every path of ML (tests that are not decided by the valuation are followed both ways): the numerical maximiser of the likelihood's own log-density,
    # wrapped with the likelihood's geometry.  (A closed-form route would have to be the GENERALISED least-squares solution for the noise covariance.)
    from ..pathtable import walk_all
    outs = walk_all(canon_keep(repo, bp, ml, KEEP), {pn("disp"): False}, pn)
    want_ml = canon_txt("cuqi.array.CUQIarray(self._solve_max_point(self.likelihood,disp=disp,x0=x0)[0],geometry=self.likelihood.geometry)")
    got_ml = sorted({(k_, canon_txt(t_) if (k_ == "return" and t_) else t_) for k_, t_ in outs}, key=str)
    rec = bool(outs) and all(k_ in ("return", "raise") for k_, _ in outs)
    ok = rec and [t_ for k_, t_ in got_ml if k_ == "return"] == [want_ml]
    chk.decide("C15-R3", f"{bp.qual}.ML", ok, rec, site(repo, ml), "maximiser of the likelihood wrapped with its geometry, on every path",
               f"ML returns {[t_[:140] for k_, t_ in got_ml if k_ == 'return' and t_ != want_ml][:1]} on some path: not the optimiser applied to the likelihood's own log-density "
               f"(an ordinary least-squares shortcut ignores a non-scalar noise covariance) / not wrapped with its geometry", ml)
    S = stmts(repo, bp, mp)
    binfo, _ = unify(["$x.info=$info", "return $x"], S)
    chk.add("C15-R3", f"{bp.qual}.MAP/return", binfo is not None, site(repo, mp), "returns the estimate with solver info", "MAP does not return the wrapped estimate", mp)
    # ---- R4 (and R1 for the sampler): the state at the sampling loop
    for role, idx, raw, dim in (("noise", 0, E, "self.model.range_dim"), ("prior", 1, X, "self.model.domain_dim")):
        problems, undec = [], []
        for form in FORMS1:
            key = (form, "matrix") if idx == 0 else ("matrix", form)
            kind, res = walk(scv, valuation(*key), pn)
            if kind != "loop":
                undec.append((kind, res))
                continue
            env, node = res
            Ce, Cx = cov(E, key[0], "self.model.range_dim"), cov(X, key[1], "self.model.domain_dim")
            wantC = canon_txt(f"np.linalg.inv({A}.T@(np.linalg.inv({Ce})@{A})+np.linalg.inv({Cx}))")
            vals = {canon_txt(unparse(v_)) for v_ in env.values() if isinstance(v_, ast.AST) and not isinstance(v_, ast.FunctionDef)}
            if not any(wantC == v_ or f"np.linalg.cholesky({wantC})" == v_ for v_ in vals):
                if form == "scalar1d":
                    problems.append(f"a scalar {role} variance stored as a 1-D array of length one (size 1 and one axis) is not expanded to c*I of size {dim}")
                elif form == "scalar":
                    problems.append(f"a scalar {role} covariance (stored as a (1,1) array) is not expanded to c*I of size {dim}")
                elif form == "vector":
                    problems.append(f"a vector of {role} variances (stored 1-D) is not placed on a diagonal: it would be broadcast-added to every row / inverted element-wise")
                else:
                    problems.append(f"a full {role} covariance matrix is not used as stored")
        chk.decide("C15-R1", f"{bp.qual}._sampleMapCholesky/{role}-covariance", not problems and not undec, not undec, site(repo, sc),
                   f"{role} covariance: scalar -> c*I, vector -> diag, matrix as stored", "; ".join(problems) or str(undec[:1]), sc)
    problems = []
    kind, res = walk(scv, valuation("matrix", "matrix"), pn)
    if kind != "loop":
        chk.unknown("C15-R4", f"{bp.qual}._sampleMapCholesky", site(repo, sc), f"sampling loop not reached: {kind} {res}", sc)
    else:
        env, node = res
        lp = node.ast
        LB = statements(lp, nested=True)
        bb, _ = unify(["$xs[:,$s]=$xmap.parameters+$L@np.random.randn($n)"], LB)
        if bb is None:      # the mean / the normal draw held in temporaries of the loop body
            for alt in (["$m=$xmap.parameters", "$xs[:,$s]=$m+$L@np.random.randn($n)"], ["$z=np.random.randn($n)", "$xs[:,$s]=$xmap.parameters+$L@$z"],
                        ["$m=$xmap.parameters", "$z=np.random.randn($n)", "$xs[:,$s]=$m+$L@$z"]):
                bb, _ = unify(alt, LB)
                if bb is not None:
                    break
        if bb is None:
            problems.append("draw = MAP parameters + L @ N(0, I) (`$xs[:,$s]=$xmap.parameters+$L@np.random.randn($n)` has no match in the loop)")
        else:
            def ev(name):
                v_ = env.get(name)
                return canon_txt(unparse(v_)) if v_ is not None else name
            wantC = canon_txt(f"np.linalg.inv({A}.T@(np.linalg.inv({E})@{A})+np.linalg.inv({X}))")
            if ev(bb["L"]) != f"np.linalg.cholesky({wantC})":
                problems.append(f"the factor applied to the standard-normal draw is `{ev(bb['L'])[:140]}`, not the Cholesky factor of (A' Ce^-1 A + Cx^-1)^-1")
            if ev(bb["xmap"]) != canon_txt("self.MAP(disp=False)"):
                problems.append("the draws are not centred at the MAP estimate")
            if ev(bb["n"]) != "self.prior.dim":
                problems.append("the standard-normal draw does not have the prior's dimension")
            rets = [r for r in ast.walk(scv) if isinstance(r, ast.Return)]
            if len(rets) != 1 or pn(rets[0].value) != pn(f"cuqi.samples.Samples({bb['xs']},self.model.domain_geometry)"):
                problems.append("samples are not returned with the domain geometry")
        chk.add("C15-R4", f"{bp.qual}._sampleMapCholesky", not problems, site(repo, sc), "exact Gaussian posterior draws", "; ".join(problems), sc)
    # R5
    for fn in (mp, sc):
        fa = FnAlias(fn)
        bad = [(r, a, k) for r, n, a, k in fa.mutated_roots() if r.startswith("self.")]
        if bad:
            for r, a, k in bad:
                chk.fail("C15-R5", f"{bp.qual}.{fn.name}/{r}", site(repo, a),
                         f"in-place {k} may modify `{r}`, data stored in the problem (e.g. a full noise covariance matrix is returned by reference): "
                         f"every later MAP()/sample would use the altered value", a)
        else:
            chk.ok("C15-R5", f"{bp.qual}.{fn.name}", site(repo, fn), f"{len(fa.inplace_ops())} in-place operations, none may reach stored problem data")


def _parents(n):
    p = getattr(n, "_parent", None)
    while p is not None:
        yield p
        p = getattr(p, "_parent", None)


def _simplify(e, val, pn):
    """boolean expression with the atoms of `val` replaced by their truth values and True/False folded"""
    if isinstance(e, ast.BoolOp):
        vals = [_simplify(v, val, pn) for v in e.values]
        out = []
        for v in vals:
            if isinstance(v, ast.Constant) and isinstance(v.value, bool):
                if isinstance(e.op, ast.And) and v.value is False:
                    return ast.Constant(value=False)
                if isinstance(e.op, ast.Or) and v.value is True:
                    return ast.Constant(value=True)
                continue
            out.append(v)
        if not out:
            return ast.Constant(value=isinstance(e.op, ast.And))
        return out[0] if len(out) == 1 else ast.BoolOp(op=e.op, values=out)
    if isinstance(e, ast.UnaryOp) and isinstance(e.op, ast.Not):
        v = _simplify(e.operand, val, pn)
        if isinstance(v, ast.Constant) and isinstance(v.value, bool):
            return ast.Constant(value=not v.value)
        return ast.UnaryOp(op=ast.Not(), operand=v)
    if isinstance(e, ast.Call) and call_name(e) == "bool" and len(e.args) == 1:
        return _simplify(e.args[0], val, pn)
    t = pn(e)
    if t in val:
        return ast.Constant(value=val[t])
    return e


def _conjuncts(e, pn):
    if isinstance(e, ast.BoolOp) and isinstance(e.op, ast.And):
        out = set()
        for v in e.values:
            out |= _conjuncts(v, pn)
        return out
    if isinstance(e, ast.Constant) and e.value is True:
        return set()
    return {pn(e)}
