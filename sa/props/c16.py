"""C16 — solvers: structure of the iterations.

 R1 the matrix form and the function form of every operator application are the same expression under
    A @ v <-> A(v, 1), A.T @ v <-> A(v, 2) (LM: A @ v <-> A(v)); the two directions of the preconditioner are transposes
 R2 the caller's inputs (x0, b, A, P) are never the target of an in-place operation (may-alias analysis)
 R3 maximize negates function and gradient together; the SciPy wrappers return SciPy's point unmodified (wrapped with x0's geometry)
 R4 FISTA: gradient of the least-squares term, proximal step with the same step size, momentum only when adaptive
 R5 ProjectNonnegative / ProjectBox / ProximalL1 are the textbook one-liners
"""
from __future__ import annotations
import ast
from typing import List, Optional

from ..index import Repo, AnchorError
from ..alias import FnAlias
from ..cfg import CFG, path_of
from ..flow import clone
from ..astutil import unparse, call_name, func_params, strip_docstring, walk_no_nested
from .common import site, canon_fn

SOLVER = "cuqi/solver/_solver.py"


def _norm(e) -> str:
    from .common import vstr
    return vstr(e)


class _ToFunctionForm(ast.NodeTransformer):
    """rewrite  OP @ v -> OP(v, 1),  OP.T @ v -> OP(v, 2)  for the operator attributes in `ops` (flagged) and
    OP @ v -> OP(v) for those in `plain`"""

    def __init__(self, ops, plain=()):
        self.ops, self.plain = set(ops), set(plain)

    def visit_BinOp(self, n):
        self.generic_visit(n)
        if isinstance(n.op, ast.MatMult):
            lp = path_of(n.left)
            if lp in self.ops:
                return ast.Call(func=n.left, args=[n.right, ast.Constant(value=1)], keywords=[])
            if lp and lp.endswith(".T") and lp[:-2] in self.ops:
                return ast.Call(func=n.left.value, args=[n.right, ast.Constant(value=2)], keywords=[])
            if lp in self.plain:
                return ast.Call(func=n.left, args=[n.right], keywords=[])
        return n


def run(chk, repo: Repo):
    chk.rule("C16-R1", "explicit-matrix and function forms of each operator application are the same expression modulo A@v<->A(v,1), A.T@v<->A(v,2); "
                       "preconditioner directions are transposes; breakdown clamp only at exactly zero curvature; the computed iterate is returned (no raising exit after the loop); "
                       "every stopping comparison uses the tolerance relative to a norm of the problem (scale invariance)", floor=8)
    chk.rule("C16-R2", "no in-place operation of a solver may reach x0, b, A or P", floor=5)
    chk.rule("C16-R3", "maximize negates function and gradient together; wrappers return SciPy's x unmodified; `method` defaults to None (SciPy chooses by bounds / constraints)", floor=4)
    chk.rule("C16-R4", "FISTA: prox(x - t*grad, t), same t; momentum only when adaptive; returns the proximal point", floor=1)
    chk.rule("C16-R5", "projections and soft-thresholding are the textbook expressions", floor=3)
    _r1(chk, repo)
    _r1_breakdown(chk, repo)
    _r1_result_returned(chk, repo)
    _r1_relative_tolerance(chk, repo)
    _r2(chk, repo)
    _r3(chk, repo)
    _r4_r5(chk, repo)
    chk.rule("C16-R6", "Levenberg-Marquardt: accepting the trial point replaces every quantity that was computed from the iterate "
                       "(residual, Jacobian, objective) by its trial twin in the same branch; every increase of the damping parameter is max(grow*nu, self.nu0) "
                       "with the same floor (a floor 0 repeats a rejected Gauss-Newton step unchanged until maxit)", floor=3)
    _r6(chk, repo)
    _r6_damping_floor(chk, repo)


def _r1(chk, repo):
    specs = [("CGLS", "solve", "self.explicitA", ["self.A"], []), ("FISTA", "solve", "self._explicitA", ["self.A"], []),
             ("LM", "solve", "self.explicitA", [], ["self.A", "self.jacfun"])]
    n = 0
    from .common import canon_fn
    for cls, meth, flag, ops, plain in specs:
        ci = repo.cls(f"{SOLVER}:{cls}")
        fn_src = repo.method(ci, meth)[1]
        fn = canon_fn(repo, ci, fn_src, 3)        # helpers that wrap the matrix/function dispatch are inlined at their call sites; local aliases of self.A / self.explicitA substituted
        for node in ast.walk(fn):
            if isinstance(node, ast.If) and _norm(node.test) == flag:
                n += 1
                inst = f"{ci.qual}.{meth}/if-{flag.split('.')[-1]}@{_norm(node.body[0])[:30]}"
                a = [_norm(_ToFunctionForm(ops, plain).visit(clone(s))) for s in node.body]
                b = [_norm(s) for s in node.orelse]
                chk.add("C16-R1", inst, a == b, site(repo, fn_src), "matrix form ≡ function form",
                        f"the two operator forms differ: matrix form (rewritten) {a} vs function form {b}: the solver runs a different "
                        f"algorithm depending on how the operator is supplied", node)
    if n < 6:
        raise AnchorError(f"{n} explicitA branches found, 6 confirmed by hand")
    # PCGLS._apply_A
    pc = repo.cls(f"{SOLVER}:PCGLS")
    fa = repo.method(pc, "_apply_A")[1]
    x, flag = func_params(fa)[1:3]
    # table over (explicit matrix?, flag): the value returned on each path
    from .common import case_effects, expected_text
    from ..pattern import norm as pn
    bad = []
    for fl_, mat in ((1, f"self._A@{x}"), (2, f"self._A.T@{x}")):
        for explicit in (True, False):
            eff = case_effects(repo, pc, fa, flag, fl_, extra={pn("self._explicitA"): explicit})
            want = expected_text(mat if explicit else f"self._A({x},{flag})")
            alt = expected_text(f"self._A({x},{fl_})")
            if not eff or not all(e["kind"] == "return" and e["ret"] in ((want,) if explicit else (want, alt)) for e in eff):
                bad.append(f"[explicit matrix={explicit}, flag={fl_}] {[(e['kind'], e['ret']) for e in eff]}")
    ok = not bad
    chk.add("C16-R1", f"{pc.qual}._apply_A", ok, site(repo, fa), "flag 1: A @ x, flag 2: A.T @ x, function form A(x, flag)",
            "PCGLS operator application: matrix and function forms do not correspond (flag 1 = forward, flag 2 = transpose): " + "; ".join(bad), fa)
    fp = repo.method(pc, "_apply_Pinv")[1]
    x, flag = func_params(fp)[1:3]
    # table over (storage form, flag): the value returned on each path (tests on the flag may go through boolean temporaries)
    problems = []
    table = {("inv", 1): f"self._Pinv@{x}", ("inv", 2): f"self._Pinv.T@{x}",
             ("chol", 1): f"self._P.solve_A({x},use_LDLt_decomposition=False)", ("chol", 2): f"self._P.solve_At({x},use_LDLt_decomposition=False)",
             ("spsolve", 1): f"spa.linalg.spsolve(self._P,{x})", ("spsolve", 2): f"spa.linalg.spsolve(self._P.T,{x})"}
    stores = {"inv": {pn("self._explicitPinv"): True}, "chol": {pn("self._explicitPinv"): False, pn("has_cholmod"): True},
              "spsolve": {pn("self._explicitPinv"): False, pn("has_cholmod"): False}}
    for (store, direction), want in table.items():
        eff = case_effects(repo, pc, fp, flag, direction, extra=stores[store], level=4)
        got = sorted({(e["kind"], e["ret"]) for e in eff})
        if got != [("return", expected_text(want))]:
            other = expected_text(table[(store, 3 - direction)])
            if got == [("return", other)]:
                problems.append(f"storage form `{store}`, flag == {direction}: `{other}` ({'forward' if direction == 2 else 'transposed'} application) is applied: "
                                f"P^-1 is applied where P^-T is required (or vice versa), wrong for non-symmetric preconditioners such as triangular factors")
            else:
                problems.append(f"storage form `{store}`, flag == {direction}: {got}, expected `{want}`")
    chk.add("C16-R1", f"{pc.qual}._apply_Pinv", not problems, site(repo, fp), "flag 2 applies the transposed inverse in all three storage forms", "; ".join(problems), fp)
    # PCGLS.solve uses the pairs in the Bjorck order
    sv = repo.method(pc, "solve")[1]
    from ..pattern import statements as _st, unify as _un
    pats = ["$x=self._x0.copy()", "$r=self._b-self._apply_A($x,1)", "$s=self._apply_Pinv(self._apply_A($r,2),2)", "$t=self._apply_Pinv($p,1)", "$q=self._apply_A($t,1)",
            "$x+=$al*$t", "$r-=$al*$q", "$p=$s+$be*$p"]
    from .common import match as _match
    bb, fail = None, 0
    for last in ("$p=$s+$be*$p", "$p=$s+$ga/$gb*$p"):       # beta held in a local, or written out as gamma_new / gamma_old
        r_ = _match(repo, pc, sv, pats[:-1] + [last])
        if r_ is not None:
            bb = r_
            break
    if bb is None:
        # the initial state / the normal residual moved into private methods: inlined again, the two operator applications the rule names stay calls
        from .common import canon_keep as _ck
        for subst in (False, True):
            SK = _st(_ck(repo, pc, sv, {"_apply_A", "_apply_Pinv"}, subst=subst), nested=True)
            for last in ("$p=$s+$be*$p", "$p=$s+$ga/$gb*$p"):
                r_, _f = _un(pats[:-1] + [last], SK)
                if r_ is not None:
                    bb = r_
                    break
            if bb is not None:
                break
    if bb is None:
        _, fail = _un(pats, _st(sv, nested=True))
    chk.add("C16-R1", f"{pc.qual}.solve", bb is not None, site(repo, sv), "s = P^-T A^T r, t = P^-1 p, q = A t, x += alpha t",
            f"preconditioned recurrences changed: `{pats[fail] if bb is None else ''}` has no consistent match", sv)
    cg_src = repo.method(repo.cls(f"{SOLVER}:CGLS"), "solve")[1]
    cg = canon_fn(repo, repo.cls(f"{SOLVER}:CGLS"), cg_src, 2)
    from ..pattern import statements, unify
    S = statements(cg, nested=True) + statements(cg_src, nested=True)
    pats = ["$x=self.x0.copy()", "$r=self.b-self.A@$x", "$s=self.A.T@$r-self.shift*$x", "$p=$s.copy()", "$q=self.A@$p",
            "$del=LA.norm($q)**2+self.shift*LA.norm($p)**2", "$al=$gam/$del", "$x+=$al*$p", "$r-=$al*$q", "$g1=$gam.copy()", "$ns=LA.norm($s)",
            "$gam=$ns**2", "$p=$s+$gam/$g1*$p", "$flag=$ns<=$ns0*self.tol or $nx*self.tol>=1", "return ($x,$k)"]
    msgs = ["start from a copy of x0", "residual r = b - A x", "normal residual s = A'r - shift*x", "first direction p = s", "q = A p",
            "delta = |q|^2 + shift |p|^2", "step length gamma/delta", "x += alpha p", "r -= alpha q", "old gamma kept", "norm of s", "gamma = |s|^2",
            "p = s + (gamma/gamma_old) p", "relative normal-residual stopping rule", "returns (x, iterations)"]
    from .common import stmts as _stmts_all
    S = _stmts_all(repo, repo.cls(f"{SOLVER}:CGLS"), cg_src) + S          # all views (aliases of self.A / self.shift / self.tol substituted)
    b, fail = unify(pats, S)
    if b is None:      # the stopping rule as the test of a `break` instead of a flag variable
        b2, fail2 = unify(pats[:13] + ["if: $ns<=$ns0*self.tol or $nx*self.tol>=1", pats[14]], S)
        if b2 is not None:
            b = b2
    chk.add("C16-R1", f"{SOLVER}:CGLS.solve/recurrences", b is not None, site(repo, cg), "Hestenes-Stiefel recurrences with shift and relative normal-residual stopping rule",
            f"CGLS recurrence changed: {msgs[fail] if b is None else ''} (`{pats[fail] if b is None else ''}` has no consistent match)", cg)


def _r1_breakdown(chk, repo):
    """(P)CGLS replace the curvature delta = |q|^2 (+ shift |p|^2) by machine epsilon only when it is EXACTLY zero; the two siblings agree. A threshold
    (`delta < eps`) is not scale invariant: delta is proportional to the square of the operator's / preconditioner's scale, so a well conditioned problem
    in other units would have its step lengths clamped."""
    from .common import canon_fn, pmatch
    for cls in ("CGLS", "PCGLS"):
        ci = repo.cls(f"{SOLVER}:{cls}")
        src = repo.method(ci, "solve")[1]
        fn = canon_fn(repo, ci, src, 1)
        g = CFG(fn)
        clamps = [n for n in g.nodes if n.kind == "stmt" and isinstance(n.ast, ast.Assign) and _norm(n.ast.value) == "eps" and path_of(n.ast.targets[0])]
        if len(clamps) != 1:
            raise AnchorError(f"{cls}.solve: expected one `delta = eps` clamp, found {len(clamps)}")
        d = path_of(clamps[0].ast.targets[0])
        gs = [(_norm(t.ast), lab) for t, lab in g.guards_of(clamps[0])]
        exact = any((tx in (f"{d}==0", f"0=={d}", f"{d}==0.0") and lab == "T") or (tx in (f"{d}!=0", f"0!={d}") and lab == "F") for tx, lab in gs)
        thresh = [tx for tx, lab in gs if ("<" in tx or ">" in tx) and "eps" in tx and d in tx]
        chk.add("C16-R1", f"{ci.qual}.solve/breakdown-guard", exact and not thresh, site(repo, clamps[0].ast), f"`{d} = eps` only under `{d} == 0`",
                f"the curvature `{d}` is replaced by eps under {[tx for tx, _ in gs if d in tx]}, not only when it is exactly zero: `{d}` scales with the square of the "
                f"operator/preconditioner, so for a differently scaled but equally well conditioned problem the step length is clamped and the iteration stagnates", clamps[0].ast)


def _r1_relative_tolerance(chk, repo):
    """(P)CGLS stop on RELATIVE quantities (normal-equation residual against its initial value, iterate norm times tol): the iteration is invariant under a
    rescaling of the data.  Every comparison that reads `self.tol` and selects an exit from the iteration (or a return) has the tolerance as a factor of a
    product with a norm of the problem - a bare `norm <= self.tol` is an absolute test: for data of order 1e-9 the start vector is returned after 0 steps."""
    from ..flow import Expander
    from .common import canon_fn
    n = 0
    for cls in ("CGLS", "PCGLS"):
        ci = repo.cls(f"{SOLVER}:{cls}")
        src = repo.method(ci, "solve")[1]
        v = canon_fn(repo, ci, src, 1)
        ex = Expander(v)
        bad = []
        for cmp_ in [c for c in ast.walk(v) if isinstance(c, ast.Compare)]:
            node = ex.cfg.stmt_node_containing(cmp_)
            e = ex.expand(cmp_, node, stop=frozenset()) if node is not None else cmp_
            sides = [e.left] + list(e.comparators)
            if not any(path_of(x) == "self.tol" for s_ in sides for x in ast.walk(s_)):
                continue
            n += 1
            for s_ in sides:
                if path_of(s_) == "self.tol":
                    bad.append(cmp_)          # the tolerance alone on one side of the comparison
        chk.add("C16-R1", f"{ci.qual}.solve/relative-tolerance", not bad, site(repo, bad[0]) if bad else site(repo, src),
                "every stopping comparison uses the tolerance relative to a norm of the problem",
                f"`{unparse(bad[0])[:80] if bad else ''}` compares a quantity with the bare tolerance: an absolute test in a scale-invariant iteration "
                f"(small-magnitude data stop before the first step and the start vector is returned as the solution)", bad[0] if bad else src)
    if n < 2:
        raise AnchorError(f"{n} stopping comparisons that read self.tol found in CGLS/PCGLS, at least 2 confirmed by hand")


def _r1_result_returned(chk, repo):
    """(P)CGLS hand back the iterate the loop produced: after the iteration loop every path ends in the `return (x, k)`. The post-loop diagnostics
    (negative curvature, `shrink <= sqrt(tol)`) are heuristics inherited from the reference implementation, where they only set a flag: `shrink` compares
    the final norm with the LARGEST iterate norm, which starts at |x0|, so a raising exit there refuses regular problems started far from the solution."""
    for cls in ("CGLS", "PCGLS"):
        ci = repo.cls(f"{SOLVER}:{cls}")
        fn = repo.method(ci, "solve")[1]
        loops = [i for i, st in enumerate(fn.body) if isinstance(st, (ast.While, ast.For))]
        if not loops:
            raise AnchorError(f"{cls}.solve: iteration loop not found")
        after = fn.body[loops[-1] + 1:]
        raises = [n for st in after for n in ast.walk(st) if isinstance(n, ast.Raise)]
        rets = [st for st in after if isinstance(st, ast.Return)]
        chk.add("C16-R1", f"{ci.qual}.solve/result-returned", bool(rets) and not raises, site(repo, raises[0] if raises else fn),
                "no raising exit after the iteration loop: the computed iterate is returned",
                f"`{unparse(raises[0])[:60] if raises else 'no return'}` after the iteration loop: the solver refuses to hand back the iterate it computed whenever a post-loop "
                f"heuristic fires (the shrink test compares with the largest iterate norm, which starts at |x0|), i.e. on regular problems started far from the solution", raises[0] if raises else fn)


def _r6_damping_floor(chk, repo):
    """Levenberg-Marquardt: every increase of the damping parameter (rejected step, poorly predicted accepted step) is `nu = max(omup*nu, nu0)` with the
    SAME floor nu0 (the configured initial damping).  With another floor (the step-quality threshold mu0 = 0, say) a rejected step in Gauss-Newton mode
    (nu == 0) leaves nu at 0: the identical step is recomputed and rejected until maxit, and a non-stationary iterate is returned."""
    from ..flow import Expander
    from .common import canon_fn
    ci = repo.cls(f"{SOLVER}:LM")
    src = repo.method(ci, "solve")[1]
    ex = Expander(canon_fn(repo, ci, src, 1))
    floors = []
    for n in ex.cfg.nodes:
        a = n.ast
        if n.kind == "stmt" and isinstance(a, ast.Assign) and isinstance(a.value, ast.Call) and call_name(a.value) == "max" and len(a.value.args) == 2 \
                and isinstance(a.targets[0], ast.Name):
            nu = a.targets[0].id
            args = a.value.args
            grow = [x for x in args if any(isinstance(y, ast.Name) and y.id == nu for y in ast.walk(x))]
            rest = [x for x in args if x not in grow]
            if len(grow) == 1 and len(rest) == 1:
                floors.append((_norm(ex.expand(rest[0], n)), a))
    # ... and in a local closure that computes the new damping from the old one: `return max(omup*nu, floor)` with nu a parameter of the closure
    for d in ast.walk(ex.fn):
        if isinstance(d, ast.FunctionDef) and d is not ex.fn:
            dps = set(func_params(d))
            exd = Expander(d)
            for n in exd.cfg.returns():
                v = n.ast.value
                if isinstance(v, ast.Call) and call_name(v) == "max" and len(v.args) == 2:
                    grow = [x for x in v.args if any(isinstance(y, ast.Name) and y.id in dps for y in ast.walk(x))]
                    rest = [x for x in v.args if x not in grow]
                    if len(grow) == 1 and len(rest) == 1:
                        r_ = exd.expand(rest[0], n)
                        # free variables of the closure are the enclosing function's locals
                        try:
                            at = ex.cfg.node_of(d)
                        except KeyError:
                            at = ex.cfg.exit
                        floors.append((_norm(ex.expand(r_, at)), n.ast))
    vals = sorted({f for f, _ in floors})
    ok = len(floors) >= 2 and vals == ["self.nu0"]
    chk.add("C16-R6", f"{ci.qual}.solve/damping-floor", ok, site(repo, floors[0][1]) if floors else site(repo, src), "every damping increase is max(omup*nu, self.nu0)",
            f"the damping increases use the floors {vals} ({len(floors)} sites), not self.nu0 at every site: with floor 0 a rejected Gauss-Newton step (nu == 0) is retried "
            f"unchanged until maxit", floors[0][1] if floors else src)


def _r2(chk, repo):
    for cls in ("CGLS", "PCGLS", "FISTA", "LM", "L_BFGS_B", "minimize", "LS"):
        ci = repo.cls(f"{SOLVER}:{cls}")
        inputs = set()
        init = repo.method(ci, "__init__")[1]
        ps = set(func_params(init)[1:])
        for n in ast.walk(init):
            if isinstance(n, ast.Assign) and isinstance(n.value, ast.Name) and n.value.id in ps:
                p = path_of(n.targets[0])
                if p:
                    inputs.add(p)
        bad = []
        nops = 0
        for kind, name, fn in ci.all_functions():
            if name == "__init__":
                continue
            fa = FnAlias(fn)
            nops += len(fa.inplace_ops())
            for root, node, a, k in fa.mutated_roots():
                base = ".".join(root.split(".")[:2])
                if base in inputs or root.startswith("param:") and not root.startswith("param:self"):
                    bad.append((name, root, a, k))
        inst = f"{ci.qual}"
        if bad:
            for name, root, a, k in bad:
                chk.fail("C16-R2", f"{inst}.{name}/{root}", site(repo, a),
                         f"in-place {k} may modify {root}, an input the caller still owns (e.g. the right-hand side reused for a second solve, "
                         f"or the sampler's current state)", a)
        else:
            chk.ok("C16-R2", inst, f"{ci.module.rel}:{ci.node.lineno}", f"{nops} in-place operations, none may reach {sorted(inputs)}")


def _r3_method_default(chk, repo):
    """the SciPy wrappers leave the choice of algorithm to SciPy unless the caller names one: `method` defaults to None in minimize / maximize (SciPy then
    picks BFGS, L-BFGS-B or SLSQP according to bounds and constraints; a named default such as 'BFGS' ignores the caller's bounds / constraints with a
    warning only and returns the infeasible unconstrained optimum)"""
    from .common import default_literal
    for cls in ("minimize", "maximize"):
        ci = repo.cls(f"{SOLVER}:{cls}")
        init = repo.method(ci, "__init__")[1]
        a = init.args
        d = dict(zip(reversed([x.arg for x in a.args]), reversed(a.defaults)))
        d.update({k.arg: v for k, v in zip(a.kwonlyargs, a.kw_defaults) if v is not None})
        rec = "method" in [x.arg for x in a.args + a.kwonlyargs]
        ok = rec and "method" in d and isinstance(d["method"], ast.Constant) and d["method"].value is None
        chk.decide("C16-R3", f"{ci.qual}.__init__/method-default", ok, rec, site(repo, init), "method defaults to None (SciPy chooses by bounds / constraints)",
                   f"`method` defaults to `{unparse(d['method']) if 'method' in d else '<required>'}`: with bounds or constraints and no explicit method SciPy is "
                   f"told to run that algorithm, which ignores them - the wrapper returns another point than scipy.optimize.minimize", init)


def _r3(chk, repo):
    _r3_method_default(chk, repo)
    mx = repo.cls(f"{SOLVER}:maximize")
    init = repo.method(mx, "__init__")[1]
    # what reaches minimize.__init__, followed path by path over "a gradient is given": the objective must be the negated function and the gradient the
    # negated gradient (or none); closures are compared by their single expression
    from ..pathtable import walk_paths
    from ..pattern import norm as pn
    from ..canon import _single_expr
    iv = canon_fn(repo, mx, init, 1)
    base_init = repo.method(repo.cls(f"{SOLVER}:minimize"), "__init__")[1]
    bps = [a_.arg for a_ in base_init.args.args][1:]
    fpar, x0par, gpar, mpar = func_params(init)[1:5]

    def negation_of(v, target):
        """v is `def h(*a, **k): return -target(*a, **k)` (or the lambda)"""
        if isinstance(v, ast.FunctionDef):
            from ..canon import substituted, structural
            hb = [x for x in substituted(structural(v)).body if not (isinstance(x, ast.Expr) and isinstance(x.value, ast.Constant))]
            e, ar = (hb[0].value if len(hb) == 1 and isinstance(hb[0], ast.Return) else None), v.args
        elif isinstance(v, ast.Lambda):
            e, ar = v.body, v.args
        else:
            return False
        if e is None or ar.args or ar.kwonlyargs or not ar.vararg or not ar.kwarg:
            return False
        return pn(e) == pn(f"-{target}(*{ar.vararg.arg},**{ar.kwarg.arg})")

    def is_super(a_):
        return isinstance(a_, ast.Expr) and isinstance(a_.value, ast.Call) and pn(a_.value.func) == "super().__init__"
    problems, und = [], []
    for given in (True, False):
        val = {pn(f"{gpar} is not None"): given, pn(f"{gpar} is None"): not given}
        stops = walk_paths(iv, val, pn, stop_pred=is_super)
        if not stops or any(k_ != "stop" for k_, _ in stops):
            und.append(f"[gradient given={given}] minimize.__init__ is not reached on every path: {[k_ for k_, _ in stops]}")
            continue
        for _, (env, st) in stops:
            c = st.value
            if any(isinstance(x, ast.Starred) for x in c.args):
                und.append("starred positional arguments")
                continue
            b_ = dict(zip(bps, c.args))
            b_.update({k.arg: k.value for k in c.keywords if k.arg is not None})
            res = {k: (env.get(v_.id, v_) if isinstance(v_, ast.Name) else v_) for k, v_ in b_.items()}
            if not negation_of(res.get(bps[0]), fpar):
                problems.append(f"[gradient given={given}] the minimised objective is not the negated function")
            gv = res.get(bps[2])
            if given and not negation_of(gv, gpar):
                problems.append("a given gradient is not negated together with the function (minimising -f with the gradient of +f)")
            if not given and not (gv is None or (isinstance(gv, ast.Constant) and gv.value is None) or path_of(gv) == gpar):
                problems.append("without a gradient the base class does not receive None")
            if path_of(res.get(bps[1])) != x0par or (bps[3] in res and path_of(res[bps[3]]) != mpar) or not any(k.arg is None for k in c.keywords):
                problems.append("x0 / method / further options are not forwarded unchanged")
    ok = not problems and not und
    if und and not problems:
        chk.unknown("C16-R3", f"{mx.qual}.__init__", site(repo, init), "; ".join(und), init)
        ok = None
    if ok is not None:
        chk.add("C16-R3", f"{mx.qual}.__init__", ok, site(repo, init), "minimise -f with gradient -g (or no gradient)",
                "maximize does not negate the function and its gradient together: " + "; ".join(sorted(set(problems))), init)
    if "solve" in mx.methods:
        chk.fail("C16-R3", f"{mx.qual}.solve", site(repo, mx.methods["solve"]), "maximize overrides solve (result may be altered)", mx.methods["solve"])
    from ..pathtable import walk
    from ..pattern import norm as pn
    from ..canon import _SymOrder

    def ct(t):
        return pn(_SymOrder().visit(ast.parse(t, mode="eval").body))

    def first_of_result(ci, valuation):
        sv_src = repo.method(ci, "solve")[1]
        v = canon_fn(repo, ci, sv_src, 2)
        from ..pathtable import walk_all
        outs = walk_all(v, {ct(k): val for k, val in valuation.items()}, pn,
                        project=lambda r: _SymOrder().visit(r.elts[0]) if isinstance(r, ast.Tuple) and r.elts else _SymOrder().visit(r))
        if len(outs) != 1:
            bad_ = [o for o in outs if o[0] != "return"]
            return sv_src, ("unknown" if bad_ else "return"), (bad_[0][1] if bad_ else " | ".join(sorted(o[1] or "" for o in outs)))
        kind, txt = next(iter(outs))
        return sv_src, kind, txt
    mn = repo.cls(f"{SOLVER}:minimize")
    SC = "opt.minimize(self.func,self.x0,jac=self.gradfunc,method=self.method,**self.kwargs)"
    bad, und = [], []
    for wrapped in (True, False):
        sv, kind, got = first_of_result(mn, {"isinstance(self.x0,CUQIarray)": wrapped})
        want = ct(f"CUQIarray({SC}['x'],geometry=self.x0.geometry)") if wrapped else ct(f"{SC}['x']")
        if kind != "return":
            und.append(got)
        elif got != want:
            bad.append(f"[x0 is a CUQIarray: {wrapped}] returns `{got[:120]}`")
    chk.decide("C16-R3", f"{mn.qual}.solve", not bad and not und, not und, site(repo, sv), "returns SciPy's x (wrapped with x0's geometry)",
               "minimize does not return SciPy's x unchanged: " + "; ".join(bad), sv)
    lb = repo.cls(f"{SOLVER}:L_BFGS_B")
    bad, und = [], []
    for nograd in (True, False):
        sv, kind, got = first_of_result(lb, {"self.gradfunc is None": nograd, "self.gradfunc is not None": not nograd})
        want = ct(f"fmin_l_bfgs_b(self.func,self.x0,fprime=self.gradfunc,approx_grad={1 if nograd else 0},**self.kwargs)[0]")
        if kind != "return":
            und.append(got)
        elif got not in (want, want.replace("approx_grad=1", "approx_grad=True").replace("approx_grad=0", "approx_grad=False")):
            bad.append(f"[no gradient given: {nograd}] returns `{got[:140]}`")
    chk.decide("C16-R3", f"{lb.qual}.solve", not bad and not und, not und, site(repo, sv), "returns fmin_l_bfgs_b's x; approximate gradient only when none is given",
               "L_BFGS_B wrapper changed: " + "; ".join(bad), sv)
    ls = repo.cls(f"{SOLVER}:LS")
    SC = "least_squares(self.func,self.x0,jac=self.jacfun,method=self.method,loss=self.loss,xtol=self.tol,max_nfev=self.maxit)"
    bad, und = [], []
    for wrapped in (True, False):
        sv, kind, got = first_of_result(ls, {"isinstance(self.x0,CUQIarray)": wrapped})
        want = ct(f"CUQIarray({SC}['x'],geometry=self.x0.geometry)") if wrapped else ct(f"{SC}['x']")
        if kind != "return":
            und.append(got)
        elif got != want:
            bad.append(f"[x0 is a CUQIarray: {wrapped}] returns `{got[:120]}`")
    chk.decide("C16-R3", f"{ls.qual}.solve", not bad and not und, not und, site(repo, sv), "returns least_squares' x", "LS wrapper changed: " + "; ".join(bad), sv)


def _r4_r5(chk, repo):
    fi = repo.cls(f"{SOLVER}:FISTA")
    sv = repo.method(fi, "solve")[1]
    from ..pattern import statements, unify
    S = statements(sv, nested=True)
    pats = ["$x=self.x0.copy()", "$t=self.stepsize", "$xo=$x.copy()", "$g=self.A.T@(self.A@$xo-self.b)", "$xn=self.proximal($xo-$t*$g,$t)",
            "if: LA.norm($xn-$xo)<=self.abstol or $k>=self.maxit", "return ($xn,$k)", "if: self.adaptive", "$xn=$xn+($k-1)/($k+2)*($xn-$xo)", "$x=$xn.copy()"]
    msgs = ["start from a copy of x0", "configured step size", "previous iterate copied", "gradient A'(Ax - b)", "prox(x - t*grad, t) with the same t",
            "stops on small update or maxit", "returns the proximal point", "momentum only when adaptive", "FISTA momentum", "next iterate"]
    from .common import match as _match
    b = _match(repo, fi, sv, pats)            # over all views: temporaries (residual, update, momentum factor) folded into their uses
    fail = 0
    if b is None:
        b, fail = unify(pats, S)
    problems = [] if b is not None else [f"{msgs[fail]} (`{pats[fail]}` has no consistent match)"]
    if b is not None:
        g = CFG(sv)
        mom = [n for n in g.nodes if n.ast is not None and n.kind == "stmt" and _norm(n.ast).startswith(f"{b['xn']}={b['xn']}+")]
        if not mom or not any(_norm(t.ast) == "self.adaptive" and lab == "T" for t, lab in g.guards_of(mom[0])):
            problems.append("momentum step is not restricted to the adaptive (FISTA) mode")
    chk.add("C16-R4", f"{fi.qual}.solve", not problems, site(repo, sv), "(F)ISTA iteration", "; ".join(problems), sv)
    from .common import closed_outcomes, expected_text
    specs5 = (("ProjectNonnegative", lambda x: [{f"np.maximum({x},0)"}]),
              ("ProjectBox", lambda x, lo, up: [{f"np.minimum(np.maximum({x},{l_}),{u_})" for l_ in (lo, f"np.zeros_like({x})") for u_ in (up, f"np.ones_like({x})")}]),
              ("ProximalL1", lambda x, g_: [{f"np.multiply(np.sign({x}),np.maximum(np.abs({x})-{g_},0))"}, {f"np.sign({x})*np.maximum(np.abs({x})-{g_},0)"}]))
    for name, wantf in specs5:
        fn = repo.func(f"{SOLVER}:{name}")
        outs = closed_outcomes(repo, None, fn)
        got = {t for k_, t in outs if k_ == "return"}
        alts = [{expected_text(w) for w in alt} for alt in wantf(*func_params(fn))]
        ok = all(k_ == "return" for k_, _ in outs) and any(got == alt for alt in alts)
        chk.add("C16-R5", f"{SOLVER}:{name}", ok, site(repo, fn), "textbook expression", f"{name} is {sorted(outs, key=str)}", fn)


# ------------------------------------------------------------------------------------------------ R6
class _Subst(ast.NodeTransformer):
    def __init__(self, m):
        self.m = m

    def visit_Name(self, n):
        return ast.Name(id=self.m.get(n.id, n.id), ctx=n.ctx)


def _strip_copy(e):
    while isinstance(e, ast.Call):
        nm = (call_name(e) or "")
        if nm.rsplit(".", 1)[-1] == "copy" and len(e.args) == 1 and not e.keywords:
            e = e.args[0]
        elif isinstance(e.func, ast.Attribute) and e.func.attr == "copy" and not e.args:
            e = e.func.value
        else:
            break
    return e


def _assigned_pairs(stmts):
    """(name, value) for every single-name / tuple assignment in the statement list, descending into if/else (not loops)."""
    for s in stmts:
        if isinstance(s, ast.Assign) and len(s.targets) == 1:
            t, v = s.targets[0], s.value
            if isinstance(t, ast.Name):
                yield t.id, v, s
            elif isinstance(t, ast.Tuple) and isinstance(v, ast.Tuple) and len(t.elts) == len(v.elts):
                for a, b in zip(t.elts, v.elts):
                    if isinstance(a, ast.Name):
                        yield a.id, b, s
        elif isinstance(s, ast.If):
            yield from _assigned_pairs(s.body)
            yield from _assigned_pairs(s.orelse)


def _definitely_assigns(stmts, name, twin) -> bool:
    for s in stmts:
        if isinstance(s, ast.Assign):
            for nm, v, _ in _assigned_pairs([s]):
                if nm == name and isinstance(_strip_copy(v), ast.Name) and _strip_copy(v).id == twin:
                    return True
        elif isinstance(s, ast.If) and s.orelse:
            if _definitely_assigns(s.body, name, twin) and _definitely_assigns(s.orelse, name, twin):
                return True
    return False


def _r6(chk, repo):
    ci = repo.cls(f"{SOLVER}:LM")
    fn_src = repo.method(ci, "solve")[1]
    fn = canon_fn(repo, ci, fn_src, 2)
    body = strip_docstring(fn.body)
    loops = [s for s in body if isinstance(s, ast.While)]
    rets = [s for s in body if isinstance(s, ast.Return)]
    if len(loops) != 1 or len(rets) != 1 or not isinstance(rets[0].value, ast.Tuple) or not isinstance(rets[0].value.elts[0], ast.Name):
        raise AnchorError("LM.solve: `while` iteration followed by `return <iterate>, info` not recognised")
    loop = loops[0]
    x = rets[0].value.elts[0].id
    pre = list(_assigned_pairs(body[:body.index(loop)]))
    inl = list(_assigned_pairs(loop.body))
    # the accept statement: x := (copy of) another local
    accept = [(v, s) for nm, v, s in inl if nm == x and isinstance(_strip_copy(v), ast.Name) and _strip_copy(v).id != x]
    if len(accept) != 1:
        raise AnchorError("LM.solve: the statement accepting the trial point not recognised")
    xt = _strip_copy(accept[0][0]).id
    acc_stmt = accept[0][1]
    sigma = {x: xt}
    changed = True
    while changed:
        changed = False
        for v, e, _ in pre:
            if v in sigma:
                continue
            want = _norm(_Subst(sigma).visit(clone(e)))
            if want == _norm(e):
                continue                       # does not depend on the iterate
            for w, e2, _ in inl:
                if w != v and w not in sigma.values() and _norm(e2) == want:
                    sigma[v] = w
                    changed = True
                    break
    twins = {v: w for v, w in sigma.items() if v != x}
    if len(twins) < 3:
        raise AnchorError(f"LM.solve: trial twins of the iterate-dependent quantities not recognised (found {twins})")
    # the block that contains the accept statement
    block = None
    for node in ast.walk(loop):
        for fld in ("body", "orelse"):
            b = getattr(node, fld, None)
            if isinstance(b, list) and acc_stmt in b:
                block = b[b.index(acc_stmt):]
    for v, w in sorted(twins.items()):
        # a quantity that is recomputed unconditionally from the (new) iterate at the end of every iteration needs no twin assignment
        recomputed = any(nm == v and s in loop.body for nm, _, s in inl)
        ok = recomputed or _definitely_assigns(block, v, w)
        uses = sorted({unparse(s)[:50] for _, e, s in inl if v in {n.id for n in ast.walk(e) if isinstance(n, ast.Name)}})
        chk.add("C16-R6", f"{ci.qual}.solve/accept/{v}", ok, site(repo, acc_stmt), f"`{v}` := `{w}` together with `{x}` := `{xt}`",
                f"the accept branch adopts the trial point (`{x}` := `{xt}`) but does not replace `{v}` by its trial twin `{w}` on every path: `{v}` keeps "
                f"the value computed at an earlier iterate and is still read by {uses}", acc_stmt)
