"""C03 — every gradient equals the derivative of the log-density, or is refused.

 R1 parameter-dependence agreement: every mutable parameter the log-density's value depends on is one the gradient's value
    depends on (form tests such as callable()/hasattr()/isinstance() and texts of messages do not count)
 R2 refusal discipline: no gradient implementation falls off its end / returns None / builds an exception without raising it
 R3 chain-rule guards: Model.gradient is dominated by _check_gradient_can_be_computed with its three refusals; every
    identity-geometry guard tests the exact type (identity geometries have non-identity subclasses); Posterior sums both
    component gradients at the same argument; geometry.gradient result is not converted again
 R4 support predicates agree between log-density and gradient; out-of-support gradients are NaN
 R5 finite-difference switch differentiates logd of the same object; Likelihood forwards the switch to its distribution
"""
from __future__ import annotations
import ast
from typing import Dict, List, Optional, Set, Tuple

from ..index import Repo, ClassInfo, AnchorError, parents
from ..cfg import CFG, path_of
from ..astutil import unparse, call_name, func_params, walk_no_nested, is_abstract, strip_docstring
from .common import site
from ..pattern import norm as pn

FORM_TESTS = {"callable", "hasattr", "isinstance", "type", "issparse", "spa.issparse", "len"}
NORMALISATION_ONLY = {"logdet", "_logdet", "rank", "_rank", "dim", "_dim", "geometry", "_geometry", "name", "_name"}
# attributes that denote one quantity (any member of the group stands for the group)
GROUPS = [
    {"cov", "prec", "sqrtcov", "sqrtprec", "_cov", "_prec", "_sqrtcov", "_sqrtprec", "_prec_op", "_chol"},   # Gaussian-type second-order structure
]
DENSITY = "cuqi/density/_density.py:Density"


def _group(a: str) -> str:
    for g in GROUPS:
        if a in g:
            return "<precision-group>"
    return a


class ValueReads:
    """self.<attr> reads a function's *value* may depend on, following self-method calls and property getters through
    the receiver's MRO; reads inside form tests, raise statements and warning/print messages are excluded."""

    def __init__(self, repo: Repo, ci: ClassInfo):
        self.repo, self.ci = repo, ci
        self._memo: Dict[int, Set[str]] = {}
        self._active: Set[int] = set()

    def of(self, fn) -> Set[str]:
        k = id(fn)
        if k in self._memo:
            return self._memo[k]
        if k in self._active:
            return set()
        self._active.add(k)
        out: Set[str] = set()
        self._visit(fn, fn, out)
        self._active.discard(k)
        self._memo[k] = out
        return out

    def _visit(self, fn, node, out: Set[str]):
        for ch in ast.iter_child_nodes(node):
            if isinstance(ch, ast.Raise):
                continue
            if isinstance(ch, (ast.FunctionDef, ast.AsyncFunctionDef, ast.ClassDef)) and ch is not fn:
                continue
            if isinstance(ch, ast.Call):
                cn = call_name(ch) or ""
                if cn in FORM_TESTS or cn.startswith("warnings.") or cn in ("print",):
                    continue
                if cn.startswith("self.") and cn.count(".") == 1:
                    r = self.ci.lookup(cn[5:])
                    if r is not None:
                        out |= self.of(r[1])
                        for a in list(ch.args) + [k.value for k in ch.keywords]:
                            self._visit(fn, ast.Expr(value=a), out)
                        continue
            if isinstance(ch, ast.Attribute) and isinstance(ch.ctx, ast.Load):
                p = path_of(ch)
                if p and p.startswith("self."):
                    attr = p.split(".")[1]
                    prop = self.ci.lookup_prop(attr)
                    if prop is not None and prop.getter is not None:
                        out.add(attr)
                        out |= self.of(prop.getter)
                    else:
                        out.add(attr)
                    continue
            self._visit(fn, ch, out)


def _mutable_params(repo, ci: ClassInfo) -> Set[str]:
    """public parameters: properties with setters, plus plain attributes assigned from constructor parameters"""
    out = set()
    for c in ci.mro():
        for n, p in c.props.items():
            if p.setter is not None and not n.startswith("_"):
                out.add(n)
        init = c.methods.get("__init__")
        if init is not None:
            ps = set(func_params(init))
            for n in walk_no_nested(init):
                if isinstance(n, ast.Assign):
                    for t in n.targets:
                        p = path_of(t)
                        if p and p.startswith("self.") and p.count(".") == 1 and isinstance(n.value, ast.Name) and n.value.id in ps:
                            out.add(p[5:].lstrip("_") if p[5:].lstrip("_") in ps else p[5:])
    return out - {"name", "geometry", "is_symmetric"}


def _is_refusal_only(fn) -> bool:
    body = strip_docstring(fn.body)
    return len(body) == 1 and isinstance(body[0], ast.Raise)


def _gradient_defs(repo):
    dens = repo.cls(DENSITY)
    out = []
    classes = [dens] + repo.subclasses(dens)
    for ci in classes:
        for name in ("gradient", "_gradient"):
            if name in ci.methods:
                out.append((ci, name, ci.methods[name]))
    udl = repo.cls("cuqi/likelihood/_likelihood.py:UserDefinedLikelihood")
    if "gradient" in udl.methods:
        out.append((udl, "gradient", udl.methods["gradient"]))
    model = repo.cls("cuqi/model/_model.py:Model")
    out.append((model, "gradient", repo.method(model, "gradient")[1]))
    pdem = repo.cls("cuqi/model/_model.py:PDEModel")
    out.append((pdem, "_gradient_func", repo.method(pdem, "_gradient_func")[1]))
    return out


def run(chk, repo: Repo):
    chk.rule("C03-R1", "mutable parameters the log-density's value depends on ⊆ parameters the gradient's value depends on "
                       "(form tests and message texts excluded; precision-type parameters grouped)", floor=9)
    chk.rule("C03-R2", "no gradient implementation falls off its end, returns None, or constructs an exception without raising it", floor=20)
    chk.rule("C03-R3", "chain-rule guards dominate; identity-geometry guards test the exact type; sum rule at one argument; the capability tests are static "
                       "(no dynamic attribute forwarding in the geometry / model / distribution layers)", floor=12)
    from ..dynattr import dynamic_attribute_rule
    dynamic_attribute_rule(chk, repo, "C03-R3", ("cuqi/geometry/", "cuqi/model/", "cuqi/distribution/", "cuqi/likelihood/", "cuqi/density/"))
    chk.rule("C03-R4", "support predicate of the gradient equals that of the log-density; out-of-support gradients are NaN; component-wise support tests are aggregated with any()", floor=5)
    chk.rule("C03-R5", "FD switch: Density.gradient tests FD_enabled first and differentiates self.logd; Likelihood forwards the switch", floor=6)
    _r1(chk, repo)
    _r2(chk, repo)
    _r3(chk, repo)
    _r4(chk, repo)
    _r5(chk, repo)
    chk.rule("C03-R6", "Gaussian gradient applies the precision in the orientation of the log-density: sqrtprec.T @ (sqrtprec @ residual), never the square root twice in one orientation", floor=2)
    from ..gram import gram_orientation
    gram_orientation(chk, repo, "C03-R6", only={"Gaussian._gradient"})
    # GMRF: on every path that returns a value, the gradient is minus the precision operator of the log-density applied to x - mean (an `order == 0`
    # shortcut -prec*(x - mean) is wrong on 2-D grids, where the order-0 operator stacks both directions and the precision is 2 I)
    from .common import closed_outcomes as _co, expected_text as _et
    gm = repo.cls("cuqi/distribution/_gmrf.py:GMRF")
    gg = repo.method(gm, "_gradient")[1]
    xg = func_params(gg)[1]
    vals = {t_ for k_, t_ in _co(repo, gm, gg, level=2) if k_ == "return"}
    chk.add("C03-R6", f"{gm.qual}._gradient", vals == {_et(f"-(self.prec*self._prec_op)@({xg}-self.mean)")}, site(repo, gg),
            "-(prec * precision operator) @ (x - mean) on every path",
            f"GMRF gradient is {sorted(vals)}: not minus the precision operator of the log-density applied to x - mean on every path", gg)
    from ..gram import same_orientation_application
    same_orientation_application(chk, repo, "C03-R6")          # (the orientation rule above carries the non-vacuity floor)
    chk.rule("C03-R7", "values memoised on a density (lazy caches read by gradient or log-density) are reset by every writer of the fields they "
                       "were computed from, so gradient and log-density never refer to different parameter values", floor=2)
    from ..cachecoh import cache_coherence
    cache_coherence(chk, repo, "C03-R7", ("cuqi/distribution/", "cuqi/likelihood/", "cuqi/density/"))
    chk.rule("C03-R8", "chain rule, structural part: every square root of a point-dependent quantity in an analytic gradient is the square root of a "
                       "quantity that occurs under a square root in the same class's log-density (d sqrt(R) = R'/(2 sqrt(R)) introduces no other radicand)", floor=1)
    _r8(chk, repo)
    chk.rule("C03-R9", "the NaN reported outside the support is a floating-point NaN for every dtype of the evaluation point (no dtype-preserving "
                       "constructor filled with NaN)", floor=20)
    from ..dtypelint import dtype_rule
    dtype_rule(chk, repo, "C03-R9", ("cuqi/distribution/", "cuqi/density/", "cuqi/likelihood/"))


def _r8(chk, repo):
    from .common import canon_fn
    from ..pathtable import walk_paths
    from ..canon import clone as _clone
    dens = repo.cls(DENSITY)
    n = 0

    class _Ren(ast.NodeTransformer):
        def __init__(self, a):
            self.a = a

        def visit_Name(self, nd):
            return ast.copy_location(ast.Name(id="_x", ctx=nd.ctx), nd) if nd.id == self.a else nd

    def radicands(ci, fn):
        """x-dependent radicands of the closed forms returned by fn (point parameter renamed _x); None if some path is not decidable"""
        x = func_params(fn)[1] if len(func_params(fn)) > 1 else None
        if x is None:
            return None
        out = set()
        for kind, res in walk_paths(canon_fn(repo, ci, fn, 1), {}, pn, skip_loops=True, limit=128):
            if kind in ("unknown", "loop"):
                return None
            if kind != "return":
                continue
            e = _Ren(x).visit(_clone(res))
            for c in ast.walk(e):
                r = None
                if isinstance(c, ast.Call) and (call_name(c) or "").split(".")[-1] == "sqrt" and len(c.args) == 1:
                    r = c.args[0]
                elif isinstance(c, ast.BinOp) and isinstance(c.op, ast.Pow) and isinstance(c.right, ast.Constant) and c.right.value in (0.5, -0.5):
                    r = c.left
                if r is not None and any(isinstance(z, ast.Name) and z.id == "_x" for z in ast.walk(r)):
                    out.add(pn(r))
        return out
    for ci in repo.subclasses(dens):
        if not ci.module.rel.startswith("cuqi/distribution/"):
            continue
        lp = ci.methods.get("logpdf")
        gf = ci.methods.get("_gradient") or ci.methods.get("gradient")
        if lp is None or gf is None:
            continue
        rg = radicands(ci, gf)
        if not rg:
            continue            # no point-dependent square root in the gradient (or not decidable): outside this rule
        rl = radicands(ci, lp)
        n += 1
        if rl is None:
            chk.unknown("C03-R8", f"{ci.qual}.{gf.name}/radicands", site(repo, gf), "log-density paths not decidable", gf)
            continue
        extra = sorted(rg - rl)
        chk.add("C03-R8", f"{ci.qual}.{gf.name}/radicands", not extra, site(repo, gf), f"radicands {sorted(rg)} all occur in logpdf",
                f"the gradient takes the square root of `{extra}`, the log-density of `{sorted(rl)}`: the gradient is not the derivative of this log-density "
                f"(the two agree only where the difference is negligible)", gf)
    if n < 1:
        raise AnchorError("no analytic gradient with a point-dependent square root found (SmoothedLaplace expected)")


# ------------------------------------------------------------------------------------------------ R1
def _r1(chk, repo):
    dens = repo.cls(DENSITY)
    n = 0
    for ci in repo.subclasses(dens):
        gfn = None
        for name in ("_gradient", "gradient"):
            if name in ci.methods and not _is_refusal_only(ci.methods[name]) and not is_abstract(ci.methods[name]):
                gfn = ci.methods[name]
                break
        if gfn is None:
            continue
        lp = ci.lookup("logpdf") or ci.lookup("_logd")
        if lp is None or is_abstract(lp[1]) or _is_refusal_only(lp[1]):
            continue
        # user-defined wrappers hold opaque callables: nothing structural to compare (tabled)
        if ci.name.startswith("UserDefined"):
            chk.note(f"C03-R1 {ci.name}: log-density and gradient are independent user callables (opaque) — outside the rule")
            continue
        params = _mutable_params(repo, ci)
        vr = ValueReads(repo, ci)
        r_log = vr.of(lp[1])
        r_grad = vr.of(gfn)
        # parameters (and their backing fields) the log-density's value depends on
        need = set()
        for a in r_log:
            base = a.lstrip("_")
            if (a in params or base in params) and a not in NORMALISATION_ONLY:
                need.add(_group(base if base in params else a))
        have = {_group(a.lstrip("_") if a.lstrip("_") in params else a) for a in r_grad}
        missing = sorted(need - have)
        n += 1
        inst = f"{ci.qual}.{gfn.name}"
        chk.add("C03-R1", inst, not missing, site(repo, gfn),
                f"log-density depends on {sorted(need)}; gradient depends on all of them",
                f"the log-density's value depends on parameter(s) {missing} but the gradient's value does not "
                f"(only form tests/messages mention them): the gradient cannot be the derivative for all parameter values", gfn)
    if n < 9:
        raise AnchorError(f"{n} log-density/gradient pairs found, at least 9 confirmed by hand")


# ------------------------------------------------------------------------------------------------ R2
def _r2(chk, repo):
    for ci, name, fn in _gradient_defs(repo):
        inst = f"{ci.qual}.{name}"
        if is_abstract(fn):
            chk.ok("C03-R2", inst, site(repo, fn), "abstract")
            continue
        g = CFG(fn)
        problems = []
        if g.falls_off_end:
            last = None
            for p, _ in g.pred[g.falloff.id]:
                last = g.nodes[p]
            problems.append(f"a path falls off the end of the function (returns None) after `{unparse(last.ast)[:70] if last and last.ast is not None else '?'}`")
        for rn in g.returns():
            v = rn.ast.value
            if v is None or (isinstance(v, ast.Constant) and v.value is None):
                problems.append(f"line {rn.lineno}: returns None instead of raising")
        for n in walk_no_nested(fn):
            if isinstance(n, ast.Expr) and isinstance(n.value, ast.Call):
                cn = call_name(n.value) or ""
                if cn.split(".")[-1].endswith(("Error", "Exception")):
                    problems.append(f"line {n.lineno}: exception `{cn}` is constructed but not raised")
        chk.add("C03-R2", inst, not problems, site(repo, fn), "every path returns a value or raises", "; ".join(problems), fn)


# ------------------------------------------------------------------------------------------------ R3
def _non_identity_subclasses(repo) -> Tuple[List[str], List[str]]:
    fn = repo.func("cuqi/geometry/__init__.py:_get_identity_geometries")
    rets = [n for n in ast.walk(fn) if isinstance(n, ast.Return)]
    m = repo.mod("cuqi/geometry/__init__.py")
    lst = rets[0].value if len(rets) == 1 else None
    if isinstance(lst, ast.Name) and lst.id in m.assigns:
        lst = m.assigns[lst.id]
    if not isinstance(lst, (ast.List, ast.Tuple)):
        raise AnchorError("_get_identity_geometries does not return a literal list (directly or via a module constant)")
    ident = []
    for e in lst.elts:
        c = repo.resolve_expr(m, e)
        if not isinstance(c, ClassInfo):
            raise AnchorError(f"identity geometry {unparse(e)} not resolved")
        ident.append(c)
    bad = []
    for c in repo.classes:
        if c in ident:
            continue
        if any(i in c.mro() for i in ident) and any("par2fun" in k.methods for k in c.mro()[: min(len(c.mro()), [j for j, k in enumerate(c.mro()) if k in ident][0])]):
            bad.append(c.name)
    return [c.name for c in ident], bad


def identity_guards(chk, repo, rule="C03-R3", prefix="cuqi/", floor=10):
    ident, nonident = _non_identity_subclasses(repo)
    chk.note(f"{rule} identity geometries {ident}; subclasses of them with their own par2fun (non-identity): {nonident}")
    # every site that consults the identity list (directly or through a local alias of it)
    from ..index import enclosing_function, enclosing_class
    nsites = 0
    for m in [mm for mm in repo.modules.values() if mm.rel.startswith(prefix)]:
        fns = [n for n in ast.walk(m.tree) if isinstance(n, (ast.FunctionDef, ast.AsyncFunctionDef))]
        for fn in fns:
            if fn.name == "_get_identity_geometries":
                continue
            calls = [n for n in walk_no_nested(fn) if isinstance(n, ast.Call) and (call_name(n) or "").endswith("_get_identity_geometries")]
            if not calls:
                continue
            aliases = set()
            for n in walk_no_nested(fn):
                if isinstance(n, ast.Assign) and any(c in list(ast.walk(n.value)) for c in calls):
                    for t in n.targets:
                        if isinstance(t, ast.Name):
                            aliases.add(t.id)

            def is_ref(e):
                return (isinstance(e, ast.Call) and (call_name(e) or "").endswith("_get_identity_geometries")) or \
                    (isinstance(e, ast.Name) and e.id in aliases and isinstance(e.ctx, ast.Load))
            ec = enclosing_class(fn)
            for n in walk_no_nested(fn):
                uses = []
                if isinstance(n, ast.Compare) and any(is_ref(x) for c in n.comparators for x in ast.walk(c)):
                    exact = len(n.ops) == 1 and isinstance(n.ops[0], (ast.In, ast.NotIn)) and isinstance(n.left, ast.Call) \
                        and call_name(n.left) == "type" and is_ref(n.comparators[0])
                    uses.append((n, exact))
                elif isinstance(n, ast.Call) and call_name(n) in ("isinstance", "issubclass") and len(n.args) == 2 \
                        and any(is_ref(x) for x in ast.walk(n.args[1])):
                    uses.append((n, False))
                for u, exact in uses:
                    nsites += 1
                    inst = f"{m.rel}:{ec.name + '.' if ec else ''}{fn.name}/identity-guard({unparse(u.left if isinstance(u, ast.Compare) else u.args[0])[:40]})"
                    chk.add(rule, inst, exact or not nonident, f"{m.rel}:{u.lineno}",
                            "identity-geometry guard tests the exact type",
                            f"identity-geometry guard `{unparse(u)[:90]}` is not an exact-type test, but {nonident} subclass an identity "
                            f"geometry with a non-identity par2fun: gradients would be returned for them without the chain rule", u)
    if nsites < floor:
        raise AnchorError(f"{nsites} identity-geometry guard uses found, {floor} confirmed by hand")


def _r3(chk, repo):
    identity_guards(chk, repo)
    # Model.gradient
    model = repo.cls("cuqi/model/_model.py:Model")
    gfn = repo.method(model, "gradient")[1]
    g = CFG(gfn)
    chkn = [n for n in g.nodes if n.ast is not None and any(isinstance(c, ast.Call) and call_name(c) == "self._check_gradient_can_be_computed" for c in ast.walk(n.ast))]
    usen = [n for n in g.nodes if n.ast is not None and any(isinstance(c, ast.Call) and call_name(c) == "self._gradient_func" for c in ast.walk(n.ast))]
    ok = len(chkn) == 1 and len(usen) == 1 and g.dominates(chkn[0], usen[0]) and chkn[0].id != usen[0].id
    chk.add("C03-R3", f"{model.qual}.gradient/check-dominates", ok, site(repo, gfn), "_check_gradient_can_be_computed dominates the raw gradient call",
            "the raw gradient operator can be reached without _check_gradient_can_be_computed", gfn)
    cfn = repo.method(model, "_check_gradient_can_be_computed")[1]
    from .common import canon_fn, views, stmts, match
    from ..flow import Expander
    from ..pattern import norm as pn
    cfn_v = canon_fn(repo, model, cfn, 1)
    ex = Expander(cfn_v)
    cg = ex.cfg
    want = {
        "no-gradient": lambda t: "self._gradient_func is None" in t,
        "range-geometry": lambda t: "self.range_geometry" in t and "_get_identity_geometries" in t,
        "domain-geometry": lambda t: "self.domain_geometry" in t and "_get_identity_geometries" in t,
        "domain-has-gradient": lambda t: "hasattr(self.domain_geometry, 'gradient')" in t,
    }
    for key, pred in want.items():
        ts = [t for t in cg.tests() if pred(unparse(ex.expand(t.ast, t)))]      # locals in the test are replaced by their definitions
        ok = False
        for t in ts:
            # one out-edge of the test leads (possibly through further tests of the same condition) only to a raise
            for lab in ("T", "F"):
                tgt = [m_ for m_, l in cg.succ[t.id] if l == lab]
                reach = cg.reachable_from(tgt)
                if cg.exit.id not in reach and cg.rexit.id in reach:
                    ok = True
                # or: refusal needs a second conjunct
                elif any(cg.nodes[x].kind == "raisestmt" for x in reach) and lab in ("T", "F"):
                    rs = [x for x in reach if cg.nodes[x].kind == "raisestmt"]
                    if any(cg.requires_edge(cg.nodes[x], t, lab) for x in rs):
                        ok = True
        chk.add("C03-R3", f"{model.qual}._check_gradient_can_be_computed/{key}", ok, site(repo, cfn),
                f"refusal on `{key}` present", f"the refusal for `{key}` is missing from _check_gradient_can_be_computed", cfn)
    # chain rule through the geometry: on the path where the domain geometry has a gradient, the value handed to the final conversion is
    # geometry.gradient(<raw gradient>, <wrt as parameters>) flagged as parameters; otherwise the raw gradient flagged as function values
    from .common import model_gradient_table, model_gradient_expected
    tb, kc = model_gradient_table(repo, model, gfn)
    if tb is None:
        chk.unknown("C03-R3", f"{model.qual}.gradient/geometry-chain-rule", site(repo, gfn), f"not decidable: {kc}", gfn)
    else:
        exp = model_gradient_expected(repo, model, gfn, kc)
        bad = [f"[domain geometry has a gradient={k}] returns `{tb[k]}`, expected `{exp[k]}`" for k in (True, False) if tb[k] != exp[k]]
        chk.add("C03-R3", f"{model.qual}.gradient/geometry-chain-rule", not bad, site(repo, gfn),
                "domain_geometry.gradient(raw gradient, wrt as parameters) flagged as parameters; raw gradient flagged as function values otherwise",
                "the geometry's gradient is not applied to the raw gradient at the parameter point, or its result is converted again: " + "; ".join(bad)[:900], gfn)
    # Posterior: sum rule at one argument
    post = repo.cls("cuqi/distribution/_posterior.py:Posterior")
    pg = repo.method(post, "_gradient")[1]
    x = func_params(pg)[1]
    rets = [n for n in ast.walk(pg) if isinstance(n, ast.Return)]
    V = views(repo, post, pg)
    ok = len(rets) == 1 and any(w in V for w in (f"return self.likelihood.gradient({x})+self.prior.gradient({x})", f"return self.prior.gradient({x})+self.likelihood.gradient({x})"))
    chk.add("C03-R3", f"{post.qual}._gradient/sum-rule", ok, site(repo, pg), "likelihood.gradient(x) + prior.gradient(x)",
            f"posterior gradient is `{unparse(rets[0].value) if rets else '?'}`, not the sum of both component gradients at the same point", pg)
    lp = repo.method(post, "logpdf")[1]
    rets = [n for n in ast.walk(lp) if isinstance(n, ast.Return)]
    V = views(repo, post, lp)
    ok = len(rets) == 1 and any(w in V for w in ("return self.likelihood.logd(*args,**kwargs)+self.prior.logd(*args,**kwargs)", "return self.prior.logd(*args,**kwargs)+self.likelihood.logd(*args,**kwargs)"))
    chk.add("C03-R3", f"{post.qual}.logpdf/sum", ok, site(repo, lp), "likelihood.logd + prior.logd at the same arguments",
            "posterior log-density is not likelihood.logd + prior.logd", lp)
    mlp = repo.cls("cuqi/distribution/_joint_distribution.py:MultipleLikelihoodPosterior")
    mg = repo.method(mlp, "gradient")[1]
    rets = [n for n in ast.walk(mg) if isinstance(n, ast.Return)]
    V = views(repo, mlp, mg)
    ok = len(rets) == 1 and any(w in V for w in ("return sum((_k0.gradient(*args,**kwargs) for _k0 in self._densities))", "return sum([_k0.gradient(*args,**kwargs) for _k0 in self._densities])"))
    chk.add("C03-R3", f"{mlp.qual}.gradient/sum-rule", ok, site(repo, mg), "sum of the gradients of all densities",
            f"multiple-likelihood gradient is `{unparse(rets[0].value) if rets else '?'}`", mg)
    # Likelihood gradient is the distribution's gradient at the data
    lk = repo.cls("cuqi/likelihood/_likelihood.py:Likelihood")
    lg = repo.method(lk, "_gradient")[1]
    rets = [n for n in ast.walk(lg) if isinstance(n, ast.Return)]
    ok = len(rets) == 1 and "return self.distribution.gradient(self.data,*args,**kwargs)" in views(repo, lk, lg)
    chk.add("C03-R3", f"{lk.qual}._gradient", ok, site(repo, lg), "distribution.gradient(data, *args)", "likelihood gradient is not the distribution's gradient at the data", lg)


# ------------------------------------------------------------------------------------------------ R4
def _support_branches(fn):
    """[(test text, returned expr)] for `if TEST: return V` at the top level of fn (also if/else with returns)."""
    out = []
    for s in strip_docstring(fn.body):
        if isinstance(s, ast.If):
            r = [x for x in s.body if isinstance(x, ast.Return)]
            a = [x for x in s.body if isinstance(x, ast.Assign)]
            if r and len(s.body) == 1:
                out.append((s.test, r[0].value, s))
            elif a and len(s.body) == 1:
                out.append((s.test, a[0].value, s))
    return out


def _norm_pred(ci, e) -> str:
    """expand `self._is_out_of_bounds(x)` to its returned predicate; rename the argument to x"""
    if isinstance(e, ast.Call) and (call_name(e) or "").startswith("self."):
        r = ci.lookup((call_name(e))[5:])
        if r is not None:
            rets = [n for n in ast.walk(r[1]) if isinstance(n, ast.Return)]
            if len(rets) == 1:
                return unparse(rets[0].value)
    return unparse(e)


def _aggregates(e, pos=True):
    """(aggregator 'all'|'any', occurs positively?, text) for every np.all/np.any/.all()/.any() over a comparison in the boolean expression e"""
    out = []
    if isinstance(e, ast.UnaryOp) and isinstance(e.op, ast.Not):
        return _aggregates(e.operand, not pos)
    if isinstance(e, ast.BoolOp):
        for v in e.values:
            out += _aggregates(v, pos)
        return out
    if isinstance(e, ast.Call):
        cn = call_name(e) or ""
        agg = None
        if cn in ("np.all", "np.any", "numpy.all", "numpy.any", "all", "any") and e.args:
            agg, inner = cn.rsplit(".", 1)[-1], e.args[0]
        elif isinstance(e.func, ast.Attribute) and e.func.attr in ("all", "any") and not e.args:
            agg, inner = e.func.attr, e.func.value
        if agg and any(isinstance(c, ast.Compare) for c in ast.walk(inner)):
            out.append((agg, pos, unparse(inner)))
    return out


def _r4(chk, repo):
    dens = repo.cls(DENSITY)
    n = 0
    for ci in repo.subclasses(dens):
        gfn = ci.methods.get("_gradient") or ci.methods.get("gradient")
        if gfn is None or _is_refusal_only(gfn) or is_abstract(gfn):
            continue
        lp = ci.methods.get("logpdf")
        gb = [(t, v, s) for t, v, s in _support_branches(gfn)]
        # support branches of the gradient: early returns under a comparison on the argument
        arg = func_params(gfn)[1] if len(func_params(gfn)) > 1 else None
        g_sup = [(t, v, s) for t, v, s in gb if (arg and any(isinstance(c, ast.Compare) for c in ast.walk(t))
                                                 and arg in {x.id for x in ast.walk(t) if isinstance(x, ast.Name)}) or
                 (isinstance(t, ast.Call) and "out_of_bounds" in (call_name(t) or ""))]
        g_sup = [(t, v, s) for t, v, s in g_sup if not any(isinstance(x, ast.Raise) for x in s.body)
                 and "geometry" not in unparse(t) and "is_cond" not in unparse(t) and "callable" not in unparse(t) and "hasattr" not in unparse(t)]
        l_sup = []
        if lp is not None:
            l_sup = [(t, v, s) for t, v, s in _support_branches(lp) if v is not None and "inf" in unparse(v).lower()]
        if not g_sup and not l_sup:
            continue
        n += 1
        inst = f"{ci.qual}.{gfn.name}"
        problems = []
        for t, v, s in g_sup:
            if v is None or "nan" not in unparse(v).lower():
                problems.append(f"out-of-support branch `if {unparse(t)[:60]}` returns `{unparse(v)}`, a finite value instead of NaN")
        if l_sup:
            lpreds = {_norm_pred(ci, t).replace(func_params(lp)[1], "x") for t, v, s in l_sup}
            gpreds = {_norm_pred(ci, t).replace(arg, "x") for t, v, s in g_sup}
            if lpreds != gpreds:
                problems.append(f"log-density is -inf when {sorted(lpreds)} but the gradient's out-of-support test is {sorted(gpreds)}")
        # a point is outside the support of a product density as soon as ONE component is: component-wise comparisons of the argument are
        # aggregated with any(...) where they occur positively in an out-of-support test (and with all(...) under a negation)
        for t, v, s in g_sup + l_sup:
            for agg, pos, txt in _aggregates(ast.parse(_norm_pred(ci, t), mode="eval").body):
                if (agg == "all" and pos) or (agg == "any" and not pos):
                    problems.append(f"out-of-support test aggregates `{txt}` with {'all' if pos else 'not any'}: a point with SOME components outside the support is treated "
                                    f"as inside (the log-density is -inf there while this branch computes a finite value)")
        problems = list(dict.fromkeys(problems))
        chk.add("C03-R4", inst, not problems, site(repo, gfn), "support predicates agree; NaN outside the support", "; ".join(problems), gfn)
    # MHN: scalar helper
    mhn = repo.cls("cuqi/distribution/_modifiedhalfnormal.py:ModifiedHalfNormal")
    gs = repo.method(mhn, "_gradient_scalar")[1]
    sb = _support_branches(gs)
    ok = len(sb) == 1 and "nan" in unparse(sb[0][1]).lower() and unparse(sb[0][0]).replace(" ", "") in ("val<=0.0", "val<=0")
    chk.add("C03-R4", f"{mhn.qual}._gradient_scalar", ok, site(repo, gs), "NaN for val <= 0", "out-of-support gradient of the modified half-normal is not NaN", gs)
    if n < 4:
        raise AnchorError(f"{n} gradients with support branches found, 4 confirmed by hand (Uniform, Beta, Cauchy, InverseGamma)")


# ------------------------------------------------------------------------------------------------ R5
def _r5(chk, repo):
    dens = repo.cls(DENSITY)
    gfn = repo.method(dens, "gradient")[1]
    # two-row decision table on the view with private helpers inlined: FD_enabled -> approx_gradient(self.logd, <the arguments>, epsilon=self.FD_epsilon),
    # otherwise self._gradient(<the arguments>)
    from .common import canon_fn as _cfn
    from ..pathtable import walk as _walk
    gv = _cfn(repo, dens, gfn, 2)
    rows = {}
    from .common import kw_sorted
    for val in (True, False):
        k_, r_ = _walk(gv, {pn("self.FD_enabled"): val}, pn)
        rows[val] = pn(kw_sorted(r_)) if k_ == "return" else None          # keywords in one order: f(**kw, e=1) is f(e=1, **kw)
    ok = rows[True] in (pn("cuqi.utilities.approx_gradient(self.logd,*args,epsilon=self.FD_epsilon,**kwargs)"), pn("approx_gradient(self.logd,*args,epsilon=self.FD_epsilon,**kwargs)")) \
        and rows[False] == pn("self._gradient(*args,**kwargs)")
    chk.add("C03-R5", f"{dens.qual}.gradient", ok, site(repo, gfn), "FD_enabled -> approx_gradient(self.logd, ..., epsilon=self.FD_epsilon); else self._gradient",
            "the finite-difference branch does not differentiate self.logd under FD_enabled, or the analytic branch is not its complement", gfn)
    ag = repo.func("cuqi/utilities/_utilities.py:approx_gradient")
    from .common import match, stmts
    f, x, eps = func_params(ag)[:3]
    b = match(repo, None, ag, [f"$g={x}*0.0", f"$e={x}*0.0", f"$fx={f}({x})", f"for: $i : range(infer_len({x}))", f"$e[$i]={eps}",
                               f"$g[$i]=({f}({x}+$e)-$fx)/{eps}", "$e[$i]=0.0", "return $g"])
    rec = any("[" in t and f"{f}(" in t and t.endswith(f"/{eps}") for t, _ in stmts(repo, None, ag))     # landmark: a difference quotient is stored per component
    chk.decide("C03-R5", "cuqi/utilities/_utilities.py:approx_gradient", b is not None, rec, site(repo, ag), "forward difference (f(x+eps e_i) - f(x))/eps per component, perturbation reset",
            "approx_gradient is not the component-wise forward difference of its function argument", ag)
    # scalar branch: the closed form returned for a plain number must be a difference quotient whose divisor IS the step added to the point
    from ..pathtable import walk_paths
    from .common import canon_fn as _cf
    agv = _cf(repo, None, ag, 1)
    outs = [(k_, r_) for k_, r_ in walk_paths(agv, {pn(f"isinstance({x},Number)"): True}, pn, skip_loops=True)]
    probs, und = [], []
    for k_, r_ in outs:
        if k_ != "return":
            und.append(f"{k_} {r_ if isinstance(r_, str) else ''}")
            continue
        e = r_
        okq = isinstance(e, ast.BinOp) and isinstance(e.op, ast.Div) and isinstance(e.left, ast.BinOp) and isinstance(e.left.op, ast.Sub) \
            and isinstance(e.left.left, ast.Call) and pn(e.left.left.func) == f and len(e.left.left.args) == 1 \
            and isinstance(e.left.right, ast.Call) and pn(e.left.right) == pn(f"{f}({x})")
        if okq:
            a0 = e.left.left.args[0]
            step = a0.right if isinstance(a0, ast.BinOp) and isinstance(a0.op, ast.Add) and pn(a0.left) == x else (a0.left if isinstance(a0, ast.BinOp) and isinstance(a0.op, ast.Add) and pn(a0.right) == x else None)
            okq = step is not None and pn(step) == pn(e.right)
            if not okq:
                probs.append(f"the point is moved by `{pn(step) if step is not None else pn(a0)}` but the difference is divided by `{pn(e.right)}`")
        else:
            probs.append(f"scalar result `{pn(e)[:100]}` is not (f(x + h) - f(x)) / h")
    chk.decide("C03-R5", "cuqi/utilities/_utilities.py:approx_gradient/scalar", not probs and not und and bool(outs), bool(probs) or (bool(outs) and not und), site(repo, ag),
               "scalar point: (f(x+h) - f(x))/h with one and the same h", "; ".join(probs or und), ag)
    lk = repo.cls("cuqi/likelihood/_likelihood.py:Likelihood")
    for name, want in (("enable_FD", "self.distribution.enable_FD(epsilon)"), ("disable_FD", "self.distribution.disable_FD()")):
        fn = repo.method(lk, name)[1]
        from .common import method_effects
        eff = method_effects(repo, lk, fn)
        okf = bool(eff) and all(e["kind"] in ("fall", "return") and e["calls"] == [pn(want)] and not e["stores"] for e in eff)
        chk.add("C03-R5", f"{lk.qual}.{name}", okf, site(repo, fn), f"forwards to the distribution: {want}", f"{name} does not forward to the distribution: {eff}", fn)
    for name in ("FD_enabled", "FD_epsilon"):
        p = lk.lookup_prop(name)
        from .common import closed_is
        ok = p is not None and p.getter is not None and closed_is(repo, lk, p.getter, f"self.distribution.{name}")[0]
        chk.add("C03-R5", f"{lk.qual}.@{name}", ok, site(repo, p.getter) if p and p.getter else "", f"reads the distribution's {name}",
                f"Likelihood.{name} is not the distribution's {name}")
    # classes overriding the public gradient (bypass the FD switch): informational
    over = [c.name for c in repo.subclasses(dens) if "gradient" in c.methods]
    chk.note(f"C03-R5 classes overriding public gradient() (the FD switch is bypassed; an analytic gradient is still the derivative): {over}")
