"""C08 — the No-U-Turn sampler leaves its target invariant (structural facts, per implementation).

 R1 leapfrog: half-step / full-step / half-step data flow with equal half-step coefficients; target evaluated at the new point
 R2 base case: H' = logd' - K(r'), n' = [log u <= H'], s' = [log u < Delta_max + H'], alpha' = min(1, exp(H' - H))
 R3 recursion: second subtree only under s' == 1 from the outermost state in direction v; kept with probability
    n''/max(1, n' + n'') computed BEFORE n' is increased; selected triple copied together; U-turn test uses both end momenta
 R4 transition: slice variable in the log domain (H - Exp(1)); accept under s' == 1, U <= min(1, n'/n) and finite log-density;
    point/log-density/gradient installed together from the primed triple (gradient copied); n += n' after the test; loop
    stops on s != 1 or depth; tuning statistic alpha/n_alpha
 R5 dual averaging update (dependence and sign of each term), identical in both implementations up to renaming
"""
from __future__ import annotations
import ast
from fractions import Fraction
from typing import Dict, List, Optional, Tuple

from ..index import Repo, AnchorError
from ..cfg import CFG, path_of, ReachingDefs
from ..flow import Expander, signed_terms, split_coefficient
from ..astutil import unparse, call_name, func_params
from .common import site
from .c02 import _finite_guard

IMPLS = [
    ("cuqi/experimental/mcmc/_hmc.py", "NUTS", {"pos": "point", "val": "logd"}, "exp"),
    ("cuqi/sampler/_hmc.py", "NUTS", {"pos": "theta", "val": "joint"}, "leg"),
]


def _norm(e) -> str:
    return unparse(e).replace(" ", "").replace("\n", "")


def run(chk, repo: Repo):
    chk.rule("C08-R1", "leapfrog r1 = r + eps/2 g; x1 = x + eps r1; (logd1, g1) = target(x1); r2 = r1 + eps/2 g1; returns (x1, r2, logd1, g1)", floor=2)
    chk.rule("C08-R2", "tree leaf: Hamiltonian, slice indicator (<=), divergence indicator (<, Delta_max), alpha' = min(1, exp(H'-H))", floor=2)
    chk.rule("C08-R3", "tree recursion: guard s'==1, outermost state by direction, selection ratio and update order, paired copy, U-turn with both momenta", floor=2)
    chk.rule("C08-R4", "transition: log-domain slice, accept guard, paired cache update, count update after the test, loop condition, tuning statistic", floor=2)
    chk.rule("C08-R5", "dual averaging: H_bar, epsilon, epsilon_bar updates with the documented dependence and signs", floor=2)
    for mod, cls, names, iface in IMPLS:
        ci = repo.cls(f"{mod}:{cls}")
        _leapfrog(chk, repo, ci, names)
        _buildtree(chk, repo, ci, names)
        _transition(chk, repo, ci, names, iface)
        _dual_averaging(chk, repo, ci, iface)


# ------------------------------------------------------------------------------------------------ R1
def _leapfrog(chk, repo, ci, names):
    fn = repo.method(ci, "_Leapfrog")[1]
    p_old, r_old, g_old, eps = func_params(fn)[1:5]
    ex = Expander(fn)
    rets = ex.cfg.returns()
    inst = f"{ci.qual}._Leapfrog"
    if len(rets) != 1 or not isinstance(rets[0].ast.value, ast.Tuple) or len(rets[0].ast.value.elts) != 4:
        raise AnchorError(f"{inst}: expected `return point, r, logd, grad`")
    rn = rets[0]
    x1, r2, l1, g1 = rets[0].ast.value.elts
    problems = []
    syms = {eps: "e"}
    # momentum: expand fully except the call results
    r2e = ex.expand(r2, rn)
    terms = {}
    for sgn, t in signed_terms(r2e):
        (c, pw), rest = split_coefficient(t, syms)
        terms[tuple(rest)] = (sgn * c, pw)
    g1_name = unparse(g1)
    want_r = {(r_old,): (Fraction(1), {}), (g_old,): (Fraction(1, 2), {"e": Fraction(1)})}
    got_new = [k for k in terms if k not in want_r]
    for k, v in want_r.items():
        if terms.get(k) != v:
            problems.append(f"momentum update: term {k[0]} has coefficient {terms.get(k)}, expected {v}")
    if len(got_new) != 1:
        problems.append(f"momentum update has unexpected terms {got_new}")
    else:
        k = got_new[0]
        if terms[k] != (Fraction(1, 2), {"e": Fraction(1)}):
            problems.append(f"second half-step coefficient is {terms[k]}, not the same eps/2 as the first half-step")
        # the gradient used in the second half-step is the gradient at the new point
        if "_nuts_target" not in k[0]:
            problems.append(f"second half-step uses `{k[0]}`, not the gradient evaluated at the new point")
    # position
    x1e = ex.expand(x1, rn)
    pt = {}
    for sgn, t in signed_terms(x1e):
        (c, pw), rest = split_coefficient(t, syms)
        pt[tuple(rest)] = (sgn * c, pw)
    if pt.get((p_old,)) != (Fraction(1), {}):
        problems.append(f"position update does not start from {p_old}")
    other = [k for k in pt if k != (p_old,)]
    if len(other) != 1 or pt[other[0]] != (Fraction(1), {"e": Fraction(1)}) or _norm(ast.parse(other[0][0], mode="eval").body) not in (
            f"({r_old}+0.5*{eps}*{g_old})", f"{r_old}+0.5*{eps}*{g_old}"):
        problems.append(f"position update `{unparse(x1e)}` is not {p_old} + eps*(half-stepped momentum)")
    # target evaluation at the new point
    l1e, g1e = ex.expand(l1, rn), ex.expand(g1, rn)
    xname = unparse(x1)
    for e, idx in ((l1e, 0), (g1e, 1)):
        ok = isinstance(e, ast.Subscript) and isinstance(e.value, ast.Call) and call_name(e.value) == "self._nuts_target" \
            and isinstance(e.slice, ast.Constant) and e.slice.value == idx
        if not ok:
            problems.append(f"returned {'log-density' if idx == 0 else 'gradient'} `{unparse(e)[:60]}` is not component {idx} of self._nuts_target(new point)")
        elif _norm(e.value.args[0]) != _norm(x1e):
            problems.append("target is not evaluated at the new point")
    chk.add("C08-R1", inst, not problems, site(repo, fn), "half/full/half step with equal coefficients, target at the new point", "; ".join(problems), fn)
    nt = repo.method(ci, "_nuts_target")[1]
    rets = [n for n in ast.walk(nt) if isinstance(n, ast.Return)]
    x = func_params(nt)[1]
    ok = len(rets) == 1 and _norm(rets[0].value) == f"(self.target.logd({x}),self.target.gradient({x}))"
    chk.add("C08-R1", f"{ci.qual}._nuts_target", ok, site(repo, nt), "(target.logd(x), target.gradient(x))", "log-density and gradient are not both of self.target at the same x", nt)
    kf = repo.method(ci, "_Kfun")[1]
    t = _norm(kf)
    ok = "return0.5*(r.T@r)" in t and "np.random.standard_normal(size=self.dim)" in t
    chk.add("C08-R1", f"{ci.qual}._Kfun", ok, site(repo, kf), "K(r) = r.r/2, r ~ N(0, I)", "kinetic energy / momentum draw changed", kf)


# ------------------------------------------------------------------------------------------------ R2 / R3
def _buildtree(chk, repo, ci, names):
    fn = repo.method(ci, "_BuildTree")[1]
    P, V = names["pos"], names["val"]
    g = CFG(fn)
    ex = Expander(fn, g)
    inst = f"{ci.qual}._BuildTree"
    base_t = [t for t in g.tests() if _norm(t.ast) == "j==0"]
    if len(base_t) != 1:
        raise AnchorError(f"{inst}: base-case test j == 0 not found")
    bt = base_t[0]

    def stmts(label):
        return {_norm(n.ast): n for n in g.nodes if n.ast is not None and n.kind == "stmt" and g.requires_edge(n, bt, label)}
    base = stmts("T")
    problems = []
    need = [
        f"{P}_prime,r_prime,{V}_prime,grad_prime=self._Leapfrog({func_params(fn)[1]},r,grad,v*epsilon)",
        f"Ham_prime={V}_prime-self._Kfun(r_prime,'eval')",
        "n_prime=int(log_u<=Ham_prime)",
        "s_prime=int(log_u<Delta_max+Ham_prime)",
        "diff_Ham=Ham_prime-Ham",
        "n_alpha_prime=1",
        f"{P}_minus,{P}_plus=({P}_prime,{P}_prime)",
        "r_minus,r_plus=(r_prime,r_prime)",
        "grad_minus,grad_plus=(grad_prime,grad_prime)",
    ]
    msgs = ["one leapfrog step of signed length v*epsilon from the given state", "H' = logd' - K(r')", "slice indicator n' = [log u <= H']",
            "divergence indicator s' = [log u < Delta_max + H']", "energy error H' - H", "n_alpha' = 1",
            "both tree ends are the new state", "both end momenta are the new momentum", "both end gradients are the new gradient"]
    for pat, msg in zip(need, msgs):
        if pat not in base:
            problems.append(f"leaf: {msg} (`{pat}` not found)")
    ap = [t for t in base if t.startswith("alpha_prime=")]
    if not ap or ap[0] not in ("alpha_prime=1ifdiff_Ham>0elsenp.exp(diff_Ham)", "alpha_prime=min(1,np.exp(diff_Ham))", "alpha_prime=1ifdiff_Ham>=0elsenp.exp(diff_Ham)"):
        problems.append(f"leaf: alpha' is `{ap[0] if ap else None}`, not min(1, exp(H' - H))")
    # Delta_max default
    d = dict(zip(reversed([a.arg for a in fn.args.args]), reversed(fn.args.defaults)))
    if "Delta_max" not in d or not (isinstance(d["Delta_max"], ast.Constant) and d["Delta_max"].value >= 100):
        problems.append("Delta_max default is not a large positive constant")
    chk.add("C08-R2", inst + "/leaf", not problems, site(repo, bt.ast), "leaf quantities as in Hoffman & Gelman Alg. 6", "; ".join(problems), fn)

    # recursion
    rec = stmts("F")
    problems = []
    s_t = [t for t in g.tests() if _norm(t.ast) == "s_prime==1" and g.requires_edge(t, bt, "F")]
    if len(s_t) != 1:
        chk.fail("C08-R3", inst + "/recursion", site(repo, bt.ast), "the second subtree is built although the first one may already have stopped "
                 "(no `s_prime == 1` guard in the recursion): states beyond a U-turn/divergence are counted and can be selected", fn)
        return
    st = s_t[0]
    calls = [n for n in g.nodes if n.ast is not None and n.kind == "stmt" and isinstance(n.ast, ast.Assign)
             and isinstance(n.ast.value, ast.Call) and call_name(n.ast.value) == "self._BuildTree"]
    if len(calls) != 3:
        raise AnchorError(f"{inst}: expected 3 recursive calls, found {len(calls)}")
    first = [c for c in calls if not g.requires_edge(c, st, "T")]
    second = [c for c in calls if g.requires_edge(c, st, "T")]
    if len(first) != 1 or len(second) != 2:
        problems.append("the second subtree is not built exclusively under s' == 1")
    else:
        a0 = [_norm(a) for a in first[0].ast.value.args]
        if a0 != [func_params(fn)[1], "r", "grad", "Ham", "log_u", "v", "j-1", "epsilon"]:
            problems.append(f"first subtree call arguments {a0}")
        vt = [t for t in g.tests() if _norm(t.ast) == "v==-1" and g.requires_edge(t, st, "T")]
        if len(vt) != 1:
            problems.append("direction test v == -1 not found")
        else:
            for c in second:
                args = [_norm(a) for a in c.ast.value.args]
                side = "minus" if g.requires_edge(c, vt[0], "T") else "plus"
                if args != [f"{P}_{side}", f"r_{side}", f"grad_{side}", "Ham", "log_u", "v", "j-1", "epsilon"]:
                    problems.append(f"second subtree in direction {'-1' if side == 'minus' else '+1'} does not start from the {side} end: {args}")
                tg = [_norm(e) for e in c.ast.targets[0].elts]
                keep = [f"{P}_{side}", f"r_{side}", f"grad_{side}"]
                pos = tg[:3] if side == "minus" else tg[3:6]
                if pos != keep:
                    problems.append(f"second subtree's {side} end is not stored back ({pos})")
                if tg[6:] != [f"{P}_2prime", f"{V}_2prime", "grad_2prime", "n_2prime", "s_2prime", "alpha_2prime", "n_alpha_2prime"]:
                    problems.append(f"second subtree results bound to {tg[6:]}")
    a2 = [n for t, n in rec.items() if t.startswith("alpha2=")]
    if len(a2) != 1:
        problems.append("selection probability alpha2 not found")
    else:
        v = _norm(a2[0].ast.value)
        if v not in ("n_2prime/max(1,n_prime+n_2prime)", "n_2prime/max(1,(n_prime+n_2prime))", "n_2prime/max(n_prime+n_2prime,1)"):
            problems.append(f"subtree selection probability is `{unparse(a2[0].ast.value)}`, not n''/max(1, n' + n'')")
        # n_prime used in alpha2 must still be the first subtree's count
        rd = ex.rd
        for dnode in rd.reaching(a2[0], "n_prime"):
            dn = g.nodes[dnode]
            if isinstance(dn.ast, ast.AugAssign):
                problems.append("n' is increased before the selection probability is computed")
    sel_t = [t for t in g.tests() if _norm(t.ast) in ("np.random.rand()<=alpha2", "np.random.rand()<alpha2") and g.requires_edge(t, st, "T")]
    if len(sel_t) != 1:
        problems.append("selection test U <= alpha2 not found")
    else:
        sel = {_norm(n.ast) for n in g.nodes if n.ast is not None and n.kind == "stmt" and g.requires_edge(n, sel_t[0], "T")}
        want = {f"{P}_prime=np.copy({P}_2prime)", f"{V}_prime=np.copy({V}_2prime)", "grad_prime=np.copy(grad_2prime)"}
        if sel != want:
            problems.append(f"selected candidate is not installed as the triple {sorted(want)} (found {sorted(sel)})")
    for pat, msg in (("alpha_prime+=alpha_2prime", "alpha accumulates"), ("n_alpha_prime+=n_alpha_2prime", "n_alpha accumulates"),
                     ("n_prime+=n_2prime", "n' accumulates"), (f"d{P}s={P}_plus-{P}_minus" if P == "point" else f"d{P}={P}_plus-{P}_minus", "trajectory span")):
        if pat not in rec:
            problems.append(f"recursion: {msg} (`{pat}` not found)")
        elif not g.requires_edge(rec[pat], st, "T"):
            problems.append(f"recursion: `{pat}` is executed although the first subtree already stopped")
    span = "dpoints" if P == "point" else f"d{P}"
    sp = [t for t in rec if t.startswith("s_prime=")]
    ok = any(t in (f"s_prime=s_2prime*int({span}@r_minus.T>=0)*int({span}@r_plus.T>=0)",) for t in sp)
    if not ok:
        problems.append(f"U-turn/stop indicator is `{sp}`, not s'' * [span.r_minus >= 0] * [span.r_plus >= 0]")
    rets = g.returns()
    want_ret = f"({P}_minus,r_minus,grad_minus,{P}_plus,r_plus,grad_plus,{P}_prime,{V}_prime,grad_prime,n_prime,s_prime,alpha_prime,n_alpha_prime)"
    if len(rets) != 1 or _norm(rets[0].ast.value) != want_ret:
        problems.append("return tuple changed")
    chk.add("C08-R3", inst + "/recursion", not problems, site(repo, st.ast), "doubling recursion as in Hoffman & Gelman Alg. 6", "; ".join(problems), fn)


# ------------------------------------------------------------------------------------------------ R4
def _transition(chk, repo, ci, names, iface):
    P, V = names["pos"], names["val"]
    fn = repo.method(ci, "step" if iface == "exp" else "_sample")[1]
    g = CFG(fn)
    inst = f"{ci.qual}.{fn.name}"
    problems = []
    S = {_norm(n.ast): n for n in g.nodes if n.ast is not None and n.kind == "stmt"}
    # slice variable
    lu = [(t, n) for t, n in S.items() if t.startswith("log_u=")]
    if len(lu) != 1:
        raise AnchorError(f"{inst}: slice variable log_u not found")
    v = lu[0][0][len("log_u="):]
    if v not in ("Ham-np.random.exponential(1,size=1)", "Ham-np.random.exponential(1)", "Ham+np.log(np.random.rand())"):
        if "np.exp(Ham)" in v:
            problems.append(f"slice variable `{unparse(lu[0][1].ast.value)}` exponentiates the Hamiltonian: exp(H) underflows to 0 for H < -745 "
                            f"(log u = -inf: every leaf is in the slice, no divergence is ever detected); it must be drawn in the log domain (H - Exp(1))")
        else:
            raise AnchorError(f"{inst}: unknown slice-variable idiom `{v}`")
    ham = [t for t in S if t.startswith("Ham=")]
    cur_l = "logd_k" if iface == "exp" else "joint_k"
    if ham != [f"Ham={cur_l}-self._Kfun(r_k,'eval')"]:
        problems.append(f"Hamiltonian is `{ham}`, not current log-density minus K(r)")
    if "r_k=self._Kfun(1,'sample')" not in S:
        problems.append("momentum is not resampled each transition")
    # loop
    loops = [n for n in ast.walk(fn) if isinstance(n, ast.While)]
    wl = [w for w in loops if _norm(w.test) in ("s==1andj<=self.max_depth",)]
    if len(wl) != 1:
        problems.append(f"doubling loop condition is not (s == 1) and (j <= max_depth): {[unparse(w.test) for w in loops]}")
    if "j,s,n=(0,1,1)" not in S:
        problems.append("tree state is not initialised as j, s, n = 0, 1, 1")
    # accept test
    acc_t = [t for t in g.tests() if _norm(t.ast) in ("np.random.rand()<=alpha2", "np.random.rand()<alpha2")]
    sp_t = [t for t in g.tests() if _norm(t.ast) == "s_prime==1"]
    if len(acc_t) != 1 or len(sp_t) != 1:
        raise AnchorError(f"{inst}: accept test not found")
    if "alpha2=min(1,n_prime/n)" not in S:
        problems.append("top-level acceptance probability is not min(1, n'/n)")
    acc_nodes = [n for n in g.nodes if n.ast is not None and n.kind == "stmt" and g.requires_edge(n, acc_t[0], "T")]
    acc_txt = {_norm(n.ast) for n in acc_nodes}
    if iface == "exp":
        want = {f"self.current_point={P}_prime", f"self.current_target_logd={V}_prime", "self.current_target_grad=np.copy(grad_prime)", "acc=1"}
    else:
        want = {f"{P}[:,k]={P}_prime", f"{V}_eval[k]={V}_prime", "grad=np.copy(grad_prime)"}
    if acc_txt != want:
        problems.append(f"accepted candidate is not installed as {sorted(want)} (found {sorted(acc_txt)})")
    for n in acc_nodes:
        if not g.requires_edge(n, sp_t[0], "T"):
            problems.append("acceptance is not conditional on s' == 1")
            break
    # finite guard (experimental: in the test; legacy: NaN aborts the run by a raise after the iteration)
    have = set()
    for n in acc_nodes[:1]:
        for t, lab in g.guards_of(n):
            fg = _finite_guard(t.ast, lab)
            if fg and _norm(fg[1]) == f"{V}_prime":
                have.add(fg[0])
    if iface == "exp":
        if not ("finite" in have or {"nan", "inf"} <= have):
            problems.append("accept branch is not guarded against a NaN/infinite proposed log-density")
    else:
        post = [n for n in g.nodes if n.kind == "raisestmt" and any("np.isnan(joint_eval[k])" in _norm(t.ast) for t, lab in g.guards_of(n))]
        if not post and not ("finite" in have or {"nan", "inf"} <= have):
            problems.append("neither a finite guard on the accept branch nor a NaN abort after the iteration")
        elif post and "inf" not in have and "finite" not in have:
            chk.note(f"C08-R4 {inst}: NaN states abort the run (raise after the iteration); -inf candidates cannot be selected because they are "
                     f"outside the slice (n' = 0 for H' = -inf), so no isinf conjunct is needed for soundness — sibling divergence from the experimental guard, tabled")
    # n += n_prime after the accept test, inside the loop; s update with both momenta; depth increment
    cnt = S.get("n+=n_prime")
    if cnt is None:
        problems.append("`n += n_prime` not found")
    else:
        if not g.reaches(acc_t[0], cnt) or g.reaches(cnt, g.node_of(acc_t[0].ast)) and not wl:
            problems.append("n is not increased after the acceptance test")
        a2 = S.get("alpha2=min(1,n_prime/n)")
        if a2 is not None:
            # within one loop iteration: alpha2 computed before n += n_prime
            if not g.dominates(a2, cnt):
                problems.append("n is increased before the acceptance probability is computed")
    span = "dpoints" if P == "point" else f"d{P}"
    if not any(t == f"s=s_prime*int({span}@r_minus.T>=0)*int({span}@r_plus.T>=0)" for t in S):
        problems.append("stop indicator is not s' * [span.r_minus >= 0] * [span.r_plus >= 0]")
    if f"{span}={P}_plus-{P}_minus" not in S:
        problems.append("trajectory span is not plus end minus minus end")
    if "j+=1" not in S:
        problems.append("depth is not increased")
    # tuning statistic
    if iface == "exp":
        if "self._current_alpha_ratio=alpha/n_alpha" not in S:
            problems.append("tuning statistic is not alpha / n_alpha of the last doubling")
    chk.add("C08-R4", inst, not problems, site(repo, fn), "slice, doubling loop, accept guard, paired cache update, counters", "; ".join(problems), fn)


# ------------------------------------------------------------------------------------------------ R5
def _dual_averaging(chk, repo, ci, iface):
    if iface == "exp":
        fn = repo.method(ci, "tune")[1]
        t = {_norm(s) for s in fn.body}
        want = {
            "k=update_count+1",
            "gamma,t_0,kappa=(0.05,10,0.75)",
            "eta1=1/(k+t_0)",
            "self._H_bar=(1-eta1)*self._H_bar+eta1*(self.opt_acc_rate-self._current_alpha_ratio)",
            "self._epsilon=np.exp(self._mu-np.sqrt(k)/gamma*self._H_bar)",
            "eta=k**(-kappa)",
            "self._epsilon_bar=np.exp(eta*np.log(self._epsilon)+(1-eta)*np.log(self._epsilon_bar))",
        }
        missing = sorted(want - t)
        init = repo.method(ci, "_initialize")[1]
        ti = _norm(init)
        extra = []
        if "self._mu=np.log(10*self._epsilon)" not in ti:
            extra.append("mu is not log(10 * initial epsilon)")
        if "self._H_bar=0" not in ti:
            extra.append("H_bar does not start at 0")
        st = repo.method(ci, "step")[1]
        if "self._epsilon=self._epsilon_bar" not in _norm(st):
            extra.append("after the transition epsilon is not set to epsilon_bar")
        ps = repo.method(ci, "_pre_sample")[1]
        if "self._epsilon_bar=self._epsilon" not in _norm(ps):
            extra.append("without warm-up epsilon_bar is not the initial epsilon")
        chk.add("C08-R5", f"{ci.qual}.tune", not missing and not extra, site(repo, fn), "Hoffman & Gelman Alg. 6 dual averaging",
                "; ".join([f"missing update `{m}`" for m in missing] + extra), fn)
    else:
        fn = repo.method(ci, "_sample")[1]
        t = _norm(fn)
        want = [
            "eta1=1/(k+t_0)",
            "H_bar=(1-eta1)*H_bar+eta1*(delta-alpha/n_alpha)",
            "epsilon=np.exp(mu-np.sqrt(k)/gamma*H_bar)",
            "eta=k**(-kappa)",
            "epsilon_bar=np.exp(eta*np.log(epsilon)+(1-eta)*np.log(epsilon_bar))",
            "mu=np.log(10*epsilon)",
            "gamma,t_0,kappa=(0.05,10,0.75)",
            "epsilon_bar,H_bar=(1,0)",
            "delta=self.opt_acc_rate",
        ]
        missing = [w for w in want if w not in t]
        g = CFG(fn)
        fix = [n for n in g.nodes if n.ast is not None and _norm(n.ast) == "epsilon=epsilon_bar"]
        extra = []
        if len(fix) != 1 or not any(_norm(tt.ast) == "k==Nb+1" and lab == "T" for tt, lab in g.guards_of(fix[0])):
            extra.append("step size is not frozen to epsilon_bar at the first iteration after burn-in")
        upd = [n for n in g.nodes if n.ast is not None and _norm(n.ast).startswith("H_bar=(1-eta1)")]
        if upd and not any(_norm(tt.ast) == "k<=Nb" and lab == "T" for tt, lab in g.guards_of(upd[0])):
            extra.append("adaptation is not restricted to the burn-in iterations k <= Nb")
        chk.add("C08-R5", f"{ci.qual}._sample/dual-averaging", not missing and not extra, site(repo, fn), "inline dual averaging during burn-in",
                "; ".join([f"missing update `{m}`" for m in missing] + extra), fn)
