"""C08 — the No-U-Turn sampler leaves its target invariant (structural facts, per implementation).

 R1 leapfrog: half-step / full-step / half-step data flow with equal half-step coefficients; target evaluated at the new point
 R2 base case: H' = logd' - K(r'), n' = [log u <= H'], s' = [log u < Delta_max + H'], alpha' = min(1, exp(H' - H))
 R3 recursion: second subtree only under s' == 1 from the outermost state in direction v; kept with probability
    n''/max(1, n' + n'') computed BEFORE n' is increased; selected triple copied together; U-turn test uses both end momenta
 R4 transition: slice variable in the log domain (H - Exp(1)); accept under s' == 1, U <= min(1, n'/n) and finite log-density;
    point/log-density/gradient installed together from the primed triple (gradient copied); n += n' after the test; loop
    stops on s != 1 or depth; tuning statistic alpha/n_alpha
 R5 dual averaging update (dependence and sign of each term)

All statement patterns are matched modulo consistent renaming of local variables and parameters (sa/pattern.py): `$x` is a
metavariable; the two implementations (experimental `point/logd`, legacy `theta/joint`) are checked by the same patterns.
"""
from __future__ import annotations
import ast
from fractions import Fraction
from typing import Dict, List, Optional, Tuple

from ..index import Repo, AnchorError
from ..cfg import CFG, path_of
from ..flow import Expander, signed_terms, split_coefficient
from ..astutil import unparse, call_name, func_params
from ..pattern import statements, unify, find, norm
from .common import site
from .c02 import _finite_guard

IMPLS = [("cuqi/experimental/mcmc/_hmc.py", "NUTS", "exp"), ("cuqi/sampler/_hmc.py", "NUTS", "leg")]


def _norm(e) -> str:
    return norm(e)


def run(chk, repo: Repo):
    chk.rule("C08-R1", "leapfrog r1 = r + eps/2 g; x1 = x + eps r1; (logd1, g1) = target(x1); r2 = r1 + eps/2 g1; returns (x1, r2, logd1, g1)", floor=2)
    chk.rule("C08-R2", "tree leaf: exactly one leapfrog step, Hamiltonian, slice indicator (<=), divergence indicator (<, Delta_max), alpha' = min(1, exp(H'-H))", floor=2)
    chk.rule("C08-R3", "tree recursion: guard s'==1, outermost state by direction, selection ratio and update order, paired copy, U-turn with both momenta", floor=2)
    chk.rule("C08-R4", "transition: log-domain slice, one fresh direction per doubling, accept guard, paired cache update, count update after the test, loop condition, tuning statistic", floor=2)
    chk.rule("C08-R5", "dual averaging: H_bar, epsilon, epsilon_bar updates with the documented dependence and signs", floor=2)
    chk.rule("C08-R6", "the cached (log-density, gradient) pair of the stateful NUTS always belongs to current_point: evaluated there, or adopted "
                       "together with the point; a function outside the kernel that stores current_point recomputes the pair or restores it together", floor=5)
    from ..cachepoint import cache_point_rule
    cache_point_rule(chk, repo, "C08-R6", [repo.cls("cuqi/experimental/mcmc/_hmc.py:NUTS")])
    from ..cachepoint import point_writers_rule
    point_writers_rule(chk, repo, "C08-R6", [repo.cls("cuqi/experimental/mcmc/_hmc.py:NUTS")])
    for mod, cls, iface in IMPLS:
        ci = repo.cls(f"{mod}:{cls}")
        _leapfrog(chk, repo, ci)
        _buildtree(chk, repo, ci)
        _transition(chk, repo, ci, iface)
        _dual_averaging(chk, repo, ci, iface)


# ------------------------------------------------------------------------------------------------ R1
KEEP = {"_BuildTree", "_Leapfrog", "_Kfun", "_nuts_target", "_FindGoodEpsilon", "_print_progress", "_call_callback"}


def _views(repo, ci, fn):
    """the function as written and its normal form (private helpers other than the NUTS building blocks inlined, temporaries substituted); a third view
    names the kinetic terms: every expression that is the closed form of K(r) (however it got there: written out, or a helper that was inlined) is
    rewritten to the dispatcher call self._Kfun(r, 'eval'), every standard-normal momentum draw to self._Kfun(1, 'sample')"""
    from .common import canon_keep
    v = canon_keep(repo, ci, fn, KEEP, subst=True)
    from ..canon import _fix
    k = (id(repo), id(fn))
    if k not in _KV:
        # kinetic terms are named on the inlined form, temporaries are substituted afterwards (a temporary holding H' = logd' - K(r') then contains a
        # call again and stays a temporary, exactly as with the dispatcher written out)
        kv = _fix(_kinetic_named(canon_keep(repo, ci, fn, KEEP, subst=False)))
        kv._rel = getattr(v, "_rel", None)
        # ... and on the function as written, with single-expression private helpers (other than the building blocks) resolved inside expressions only
        from ..canon import Resolver, _ExprInliner, set_parents
        from ..flow import clone
        raw = _ExprInliner(Resolver(repo, ci, keep=frozenset(KEEP)), 2, (fn.name,)).visit(clone(fn))
        if isinstance(raw, ast.FunctionDef):
            raw.body = [_ExprInliner(Resolver(repo, ci, keep=frozenset(KEEP)), 2, (fn.name,)).visit(st) for st in clone(fn).body]
        kr = _kinetic_named(set_parents(ast.fix_missing_locations(raw)))
        kr._rel = getattr(v, "_rel", None)
        # ... and the function as written with the locals that merely name an attribute (`max_depth = self.max_depth`) read through
        from ..canon import substituted, structural
        ka = substituted(structural(fn), only=lambda rhs: path_of(rhs) is not None and isinstance(rhs, ast.Attribute))
        ka._rel = getattr(v, "_rel", None)
        _KV[k] = (kv, kr, set_parents(ka))
    return [fn, v, _KV[k][0], _KV[k][1], _KV[k][2]]


_KV = {}


def _kinetic_named(v):
    from .common import expected_text
    from ..flow import clone
    from ..pattern import norm as pn
    from ..canon import _SymOrder, set_parents
    draw = expected_text("np.random.standard_normal(size=self.dim)")

    class T(ast.NodeTransformer):
        def generic_visit(self, n):
            n = super().generic_visit(n)
            if isinstance(n, ast.BinOp):
                t = pn(_SymOrder().visit(clone(n)))
                for x in {unparse(c) for c in ast.walk(n) if isinstance(c, (ast.Name, ast.Attribute)) and isinstance(getattr(c, "ctx", None), ast.Load)
                          and not (isinstance(c, ast.Attribute) and c.attr == "T")}:
                    if t in {expected_text(f) for f in (f"0.5*({x}.T@{x})", f"0.5*({x}@{x})", f"0.5*{x}.T@{x}", f"({x}.T@{x})/2", f"({x}@{x})/2")}:
                        return ast.copy_location(ast.parse(f"self._Kfun({x}, 'eval')", mode="eval").body, n)
            if isinstance(n, ast.Call) and pn(_SymOrder().visit(clone(n))) == draw:
                return ast.copy_location(ast.parse("self._Kfun(1, 'sample')", mode="eval").body, n)
            return n
    out = T().visit(clone(v))
    out._rel = getattr(v, "_rel", None)
    return set_parents(ast.fix_missing_locations(out))


def _leapfrog(chk, repo, ci):
    fn = repo.method(ci, "_Leapfrog")[1]
    p_old, r_old, g_old, eps = func_params(fn)[1:5]
    ex = Expander(fn)
    rets = ex.cfg.returns()
    inst = f"{ci.qual}._Leapfrog"
    if len(rets) != 1 or not isinstance(rets[0].ast.value, ast.Tuple) or len(rets[0].ast.value.elts) != 4:
        raise AnchorError(f"{inst}: expected `return point, r, logd, grad`")
    rn = rets[0]
    x1, r2, l1, g1 = rets[0].ast.value.elts
    problems = []
    syms = {eps: "e"}
    r2e = ex.expand(r2, rn)
    terms = {}
    for sgn, t in signed_terms(r2e):
        (c, pw), rest = split_coefficient(t, syms)
        terms[tuple(rest)] = (sgn * c, pw)
    want_r = {(r_old,): (Fraction(1), {}), (g_old,): (Fraction(1, 2), {"e": Fraction(1)})}
    got_new = [k for k in terms if k not in want_r]
    for k, v in want_r.items():
        if terms.get(k) != v:
            problems.append(f"momentum update: term {k[0]} has coefficient {terms.get(k)}, expected {v}")
    if len(got_new) != 1:
        problems.append(f"momentum update has unexpected terms {got_new}")
    else:
        k = got_new[0]
        if terms[k] != (Fraction(1, 2), {"e": Fraction(1)}):
            problems.append(f"second half-step coefficient is {terms[k]}, not the same eps/2 as the first half-step")
        if len(k) != 1 or "_nuts_target" not in k[0]:
            problems.append(f"second half-step uses `{k}`, not the gradient evaluated at the new point")
    x1e = ex.expand(x1, rn)
    pt = {}
    for sgn, t in signed_terms(x1e):
        (c, pw), rest = split_coefficient(t, syms)
        pt[tuple(rest)] = (sgn * c, pw)
    if pt.get((p_old,)) != (Fraction(1), {}):
        problems.append(f"position update does not start from {p_old}")
    other = [k for k in pt if k != (p_old,)]
    half = None
    if len(other) == 1 and len(other[0]) == 1:
        inner = ast.parse(other[0][0], mode="eval").body
        it = {}
        for sgn, t in signed_terms(inner):
            (c, pw), rest = split_coefficient(t, syms)
            it[tuple(rest)] = (sgn * c, pw)
        half = it
    if len(other) != 1 or pt[other[0]] != (Fraction(1), {"e": Fraction(1)}) or half != want_r:
        problems.append(f"position update `{unparse(x1e)}` is not {p_old} + eps*(half-stepped momentum)")
    l1e, g1e = ex.expand(l1, rn), ex.expand(g1, rn)
    for e, idx in ((l1e, 0), (g1e, 1)):
        ok = isinstance(e, ast.Subscript) and isinstance(e.value, ast.Call) and call_name(e.value) == "self._nuts_target" \
            and isinstance(e.slice, ast.Constant) and e.slice.value == idx
        if not ok:
            problems.append(f"returned {'log-density' if idx == 0 else 'gradient'} `{unparse(e)[:60]}` is not component {idx} of self._nuts_target(new point)")
        elif _norm(e.value.args[0]) != _norm(x1e):
            problems.append("target is not evaluated at the new point")
    chk.add("C08-R1", inst, not problems, site(repo, fn), "half/full/half step with equal coefficients, target at the new point", "; ".join(problems), fn)
    nt = repo.method(ci, "_nuts_target")[1]
    x = func_params(nt)[1]
    from .common import closed_is
    ok = closed_is(repo, ci, nt, f"(self.target.logd({x}),self.target.gradient({x}))")[0]
    chk.add("C08-R1", f"{ci.qual}._nuts_target", ok, site(repo, nt), "(target.logd(x), target.gradient(x))", "log-density and gradient are not both of self.target at the same x", nt)
    kf = repo.method(ci, "_Kfun")[1]
    r, fl = func_params(kf)[1:3]
    from .common import case_effects, expected_text
    e1, e2 = case_effects(repo, ci, kf, fl, "eval", level=2), case_effects(repo, ci, kf, fl, "sample", level=2)      # private helpers inlined
    ok = bool(e1) and bool(e2) and all(e["kind"] == "return" and e["ret"] in (expected_text(f"0.5*({r}.T@{r})"), expected_text(f"0.5*({r}@{r})"), expected_text(f"0.5*{r}.T@{r}")) for e in e1) \
        and all(e["kind"] == "return" and e["ret"] == expected_text("np.random.standard_normal(size=self.dim)") for e in e2)
    chk.add("C08-R1", f"{ci.qual}._Kfun", ok, site(repo, kf), "K(r) = r.r/2, r ~ N(0, I)", "kinetic energy / momentum draw changed", kf)


# ------------------------------------------------------------------------------------------------ R2 / R3
def _buildtree(chk, repo, ci):
    from .common import best_of
    src = repo.method(ci, "_BuildTree")[1]
    best_of(chk, _views(repo, ci, src), lambda t, v: _buildtree_on(t, repo, ci, v, src))


def _buildtree_on(chk, repo, ci, fn, src):
    g = CFG(fn)
    inst = f"{ci.qual}._BuildTree"
    P = func_params(fn)
    if len(P) < 9:
        raise AnchorError(f"{inst}: signature changed")
    B0 = dict(zip(["x0", "r0", "g0", "H", "U", "V", "J", "E"], P[1:9]))
    base_t = [t for t in g.tests() if _norm(t.ast) in (f"{B0['J']}==0", f"0=={B0['J']}")]
    if len(base_t) != 1:
        raise AnchorError(f"{inst}: base-case test j == 0 not found")
    bt = base_t[0]

    def region(label):
        return [( _norm(n.ast) if n.kind != "test" else "if: " + _norm(n.ast), n.ast) for n in g.nodes
                if n.ast is not None and n.kind in ("stmt", "test") and g.requires_edge(n, bt, label)]
    base = region("T")
    leaf_patterns = [
        "$x1,$r1,$l1,$g1=self._Leapfrog($x0,$r0,$g0,$V*$E)",
        "$H1=$l1-self._Kfun($r1,'eval')",
        "$n1=int($U<=$H1)",
        "$s1=int($U<$Dmax+$H1)",
        "$na1=1",
        "$xm,$xp=($x1,$x1)",
        "$rm,$rp=($r1,$r1)",
        "$gm,$gp=($g1,$g1)",
    ]
    msgs = ["one leapfrog step of signed length v*epsilon from the given state", "H' = logd' - K(r')", "slice indicator n' = [log u <= H']",
            "divergence indicator s' = [log u < Delta_max + H']", "n_alpha' = 1", "both tree ends are the new state",
            "both end momenta are the new momentum", "both end gradients are the new gradient"]
    problems = []
    # the names of the 13 tree quantities are read off the first recursive call (by position), so that the leaf patterns cannot bind e.g. `n_alpha' = 1`
    # to another variable that happens to be set to 1
    pre, _ = unify(["$xm,$rm,$gm,$xp,$rp,$gp,$x1,$l1,$g1,$n1,$s1,$a1,$na1=self._BuildTree($x0,$r0,$g0,$H,$U,$V,$J-1,$E)"], region("F"), B0)
    if pre is not None:
        B0 = dict(pre)
    # the leaf is ONE leapfrog step of the trajectory's step size: the base case integrates exactly once and has no loop (a leaf re-computed with another
    # step size makes the trajectory's steps position dependent: the integrator is no longer reversible)
    n_leap = sum(1 for t_, a_ in base for c_ in (ast.walk(a_) if not isinstance(a_, (ast.If, ast.While, ast.For)) else ast.walk(getattr(a_, "test", a_)))
                 if isinstance(c_, ast.Call) and call_name(c_) == "self._Leapfrog")
    loops_in_base = [n_ for n_ in g.nodes if n_.ast is not None and isinstance(n_.ast, (ast.While, ast.For)) and g.requires_edge(n_, bt, "T")] + \
                    [n_ for n_ in g.nodes if n_.kind == "iter" and g.requires_edge(n_, bt, "T")]
    base_block = next((x for x in ast.walk(fn) if isinstance(x, ast.If) and x.test is bt.ast), None)
    has_loop = bool(loops_in_base) or (base_block is not None and any(isinstance(x, (ast.While, ast.For)) for st in base_block.body for x in ast.walk(st)))
    if n_leap != 1 or has_loop:
        problems.append(f"leaf: the base case calls the integrator {n_leap} time(s){' inside / next to a loop' if has_loop else ''}: a leaf is exactly one leapfrog step "
                        f"of signed length v*epsilon (re-trying with a smaller step where the target is infinite replaces rejected leaves by points hugging the boundary)")
    b, fail = unify(leaf_patterns, base, B0)
    if b is None:
        problems.append(f"leaf: {msgs[fail]} (no statement of the base case matches `{leaf_patterns[fail]}` consistently with the others)")
        b = dict(B0)
    else:
        # alpha' = min(1, exp(H' - H))
        ok = False
        for pats in (["$dH=$H1-$H", "$a1=1 if $dH>0 else np.exp($dH)"], ["$dH=$H1-$H", "$a1=1 if $dH>=0 else np.exp($dH)"], ["$dH=$H1-$H", "$a1=min(1,np.exp($dH))"],
                     ["$a1=min(1,np.exp($H1-$H))"], ["$a1=1 if 0<$H1-$H else np.exp($H1-$H)"], ["$a1=1 if 0<=$H1-$H else np.exp($H1-$H)"],
                     ["$dH=$H1-$H", "$a1=1 if 0<$dH else np.exp($dH)"], ["$dH=$H1-$H", "$a1=1 if 0<=$dH else np.exp($dH)"]):
            bb, _ = unify(pats, base, b)
            if bb is not None:
                b, ok = bb, True
                break
        if not ok:
            # the same conditional written as a statement (the views' normal form): `if 0 < dH: a = 1  else: a = exp(dH)`
            for pats in (["$dH=$H1-$H", "if: 0<$dH", "$a1=1", "$a1=np.exp($dH)"], ["$dH=$H1-$H", "if: 0<=$dH", "$a1=1", "$a1=np.exp($dH)"],
                         ["if: 0<$H1-$H", "$a1=1", "$a1=np.exp($H1-$H)"], ["if: 0<=$H1-$H", "$a1=1", "$a1=np.exp($H1-$H)"],
                         ["if: $H<$H1", "$a1=1", "$a1=np.exp($H1-$H)"], ["if: $H<=$H1", "$a1=1", "$a1=np.exp($H1-$H)"]):
                bb, used = unify(pats, base, b)
                if bb is None:
                    continue
                tnode = next((t for t in g.tests() if t.ast is used[-3] or getattr(used[-3], "test", None) is t.ast), None)
                one = g.stmt_node_containing(used[-2])
                if tnode is not None and one is not None and g.requires_edge(one, tnode, "T"):
                    b, ok = bb, True
                    break
        if not ok:
            problems.append("leaf: alpha' is not min(1, exp(H' - H))")
        d = dict(zip(reversed([a.arg for a in fn.args.args]), reversed(fn.args.defaults)))
        dm = b.get("Dmax")
        from .common import default_literal
        dv = default_literal(repo, ci, src, d[dm]) if dm in d else None
        if dm not in d or not (isinstance(dv, (int, float)) and not isinstance(dv, bool) and dv >= 100):
            problems.append("Delta_max is not a parameter with a large positive default")
    chk.add("C08-R2", inst + "/leaf", not problems, site(repo, src), "leaf quantities as in Hoffman & Gelman Alg. 6", "; ".join(problems), src)

    # ---- recursion
    rec = region("F")
    problems = []
    need = ["x1", "l1", "g1", "n1", "s1", "a1", "na1", "xm", "rm", "gm", "xp", "rp", "gp"]
    if any(k not in b for k in need):
        chk.fail("C08-R3", inst + "/recursion", site(repo, src), "leaf bindings incomplete; recursion not analysed", src)
        return
    first = unify(["$xm,$rm,$gm,$xp,$rp,$gp,$x1,$l1,$g1,$n1,$s1,$a1,$na1=self._BuildTree($x0,$r0,$g0,$H,$U,$V,$J-1,$E)"], rec, b)
    if first[0] is None:
        problems.append("first subtree is not built from the given state with depth j-1 and bound to the same 13 result names as the leaf")
    s_t = [t for t in g.tests() if _norm(t.ast) in (f"{b['s1']}==1", f"1=={b['s1']}") and g.requires_edge(t, bt, "F")]
    if len(s_t) != 1:
        chk.fail("C08-R3", inst + "/recursion", site(repo, src), "the second subtree is built although the first one may already have stopped "
                 "(no `s' == 1` guard in the recursion): states beyond a U-turn/divergence are counted and can be selected", src)
        return
    st = s_t[0]
    inner = [(t, a) for (t, a) in rec if g.requires_edge(g.stmt_node_containing(a) if not isinstance(a, ast.expr) else g.node_of(a), st, "T")]
    vt = [t for t in g.tests() if _norm(t.ast) in (f"{b['V']}==-1", f"-1=={b['V']}") and g.requires_edge(t, st, "T")]
    if len(vt) != 1:
        problems.append("direction test v == -1 not found under the guard")
    else:
        minus = [(t, a) for (t, a) in inner if not isinstance(a, ast.expr) and g.requires_edge(g.stmt_node_containing(a), vt[0], "T")]
        plus = [(t, a) for (t, a) in inner if not isinstance(a, ast.expr) and g.requires_edge(g.stmt_node_containing(a), vt[0], "F")]
        bm, _ = unify(["$xm,$rm,$gm,$_a,$_b,$_c,$x2,$l2,$g2,$n2,$s2,$a2,$na2=self._BuildTree($xm,$rm,$gm,$H,$U,$V,$J-1,$E)"], minus, b, distinct=False)
        if bm is None:
            problems.append("second subtree in direction -1 does not start from (and store back) the minus end")
        bp, _ = unify(["$_a,$_b,$_c,$xp,$rp,$gp,$x2,$l2,$g2,$n2,$s2,$a2,$na2=self._BuildTree($xp,$rp,$gp,$H,$U,$V,$J-1,$E)"], plus, bm or b, distinct=False)
        if bp is None:
            problems.append("second subtree in direction +1 does not start from (and store back) the plus end, or binds other result names than the -1 branch")
        b2 = bp or bm
        if b2 is not None:
            b = b2
    # every recursive call beyond the first is guarded
    calls = [n for n in g.nodes if n.ast is not None and n.kind == "stmt" and isinstance(n.ast, ast.Assign)
             and isinstance(n.ast.value, ast.Call) and call_name(n.ast.value) == "self._BuildTree"]
    if sum(1 for c in calls if not g.requires_edge(c, st, "T")) != 1 or len(calls) != 3:
        problems.append("the second subtree is not built exclusively under s' == 1")
    if "n2" in b:
        sel = None
        for form in ("$p=$n2/max(1,$n1+$n2)", "$p=$n2/max(1,($n1+$n2))", "$p=$n2/max($n1+$n2,1)"):
            bb, used = unify([form, "if: np.random.rand()<=$p"], inner, b)
            if bb is None:
                bb, used = unify([form, "if: np.random.rand()<$p"], inner, b)
            if bb is not None:
                sel = (bb, used)
                break
        if sel is None:     # the probability is written directly in the test (no temporary)
            for form in ("if: np.random.rand()<=$n2/max(1,$n1+$n2)", "if: np.random.rand()<$n2/max(1,$n1+$n2)", "if: np.random.rand()<=$n2/max($n1+$n2,1)"):
                bb, used = unify([form], inner, b)
                if bb is not None:
                    bb = dict(bb)
                    bb["p"] = None
                    sel = (bb, [used[0], used[0]])
                    break
        if sel is None:
            cand = find("$p=$n2/$den", inner, b)
            cand2 = [(bb, nd) for pat in ("$p=$rhs",) for bb, nd in [] ]
            anyp = [t for t, a in inner if t.split("=")[0] and f"{b['n2']}/" in t]
            problems.append(f"subtree selection probability is `{anyp[0] if anyp else '?'}`, not n''/max(1, n' + n'') compared with one uniform draw")
        else:
            b, used = sel
            # n' must not have been increased before the probability is computed
            from ..cfg import ReachingDefs
            rd = ReachingDefs(g)
            pn = g.stmt_node_containing(used[0]) if not isinstance(used[0], ast.expr) else g.node_of(used[0])
            for dnode in rd.reaching(pn, b["n1"]):
                da = g.nodes[dnode].ast
                if isinstance(da, ast.AugAssign) or (isinstance(da, ast.Assign) and isinstance(da.targets[0], ast.Name) and b.get("n2") and b["n2"] in _norm(da.value)):
                    problems.append("n' is increased before the selection probability is computed")
            seltest = g.node_of(used[1].test) if isinstance(used[1], ast.If) else None
            if seltest is None and isinstance(used[1], ast.expr):
                try:
                    seltest = g.node_of(used[1])
                except Exception:
                    seltest = None
            if seltest is None and b.get("p"):
                tests = [t for t in g.tests() if _norm(t.ast) in (f"np.random.rand()<={b['p']}", f"np.random.rand()<{b['p']}")]
                seltest = tests[0] if tests else None
            if seltest is not None:
                chosen = {_norm(n.ast) for n in g.nodes if n.ast is not None and n.kind == "stmt" and g.requires_edge(n, seltest, "T")}
                want = {f"{b['x1']}=np.copy({b['x2']})", f"{b['l1']}=np.copy({b['l2']})", f"{b['g1']}=np.copy({b['g2']})"}
                alt = {w.replace("np.copy(", "").replace(")", ".copy()") for w in want}
                if chosen != want and chosen != alt:
                    problems.append(f"selected candidate is not installed as the copied triple {sorted(want)} (found {sorted(chosen)})")
        upd = ["$a1+=$a2", "$na1+=$na2", "$n1+=$n2"]
        bb = b
        for u in upd:       # `x += y` or the rebinding `x = x + y` (the quantities are numbers)
            lhs, rhs = u.split("+=")
            nb = None
            for form in (u, f"{lhs}={lhs}+{rhs}", f"{lhs}={rhs}+{lhs}"):
                nb, _ = unify([form], inner, bb)
                if nb is not None:
                    break
            if nb is None:
                problems.append(f"recursion: accumulation `{u}` missing under the guard")
                bb = None
                break
            bb = nb
        if bb is not None:
            b = bb
            ok = False
            for pats in (["$span=$xp-$xm", "$s1=$s2*int($span@$rm.T>=0)*int($span@$rp.T>=0)"], ["$span=$xp-$xm", "$s1=$s2*int(0<=$span@$rm.T)*int(0<=$span@$rp.T)"],
                         ["$s1=$s2*int(0<=($xp-$xm)@$rm.T)*int(0<=($xp-$xm)@$rp.T)"], ["$s1=$s2*int(($xp-$xm)@$rm.T>=0)*int(($xp-$xm)@$rp.T>=0)"],
                         ["$s1=$s2*(int(($xp-$xm)@$rm.T>=0)*int(($xp-$xm)@$rp.T>=0))"], ["$s1=$s2*(int(0<=($xp-$xm)@$rm.T)*int(0<=($xp-$xm)@$rp.T))"]):
                if unify(pats, inner, b)[0] is not None:
                    ok = True
                    break
            if not ok:
                sp = [t for t, a in inner if t.startswith(b["s1"] + "=")]
                problems.append(f"U-turn/stop indicator is `{sp}`, not s'' * [span.r_minus >= 0] * [span.r_plus >= 0]")
    rets = g.returns()
    want_ret = "(" + ",".join(b.get(k, "?") for k in ["xm", "rm", "gm", "xp", "rp", "gp", "x1", "l1", "g1", "n1", "s1", "a1", "na1"]) + ")"
    if len(rets) != 1 or _norm(rets[0].ast.value) != want_ret:
        problems.append("the 13 results are not returned in the order the callers unpack them")
    chk.add("C08-R3", inst + "/recursion", not problems, site(repo, src), "doubling recursion as in Hoffman & Gelman Alg. 6", "; ".join(problems), src)


# ------------------------------------------------------------------------------------------------ R4
def _transition(chk, repo, ci, iface):
    from .common import best_of
    src = repo.method(ci, "step" if iface == "exp" else "_sample")[1]
    best_of(chk, _views(repo, ci, src), lambda t, v: _transition_on(t, repo, ci, iface, v, src))


def _result_names(fn, a, inst, arity=13):
    """names the 13 results of a tree-building call are bound to, by position: the call's own tuple target, or -- when the result tuple is first held in a
    variable t -- the targets of the later unpackings `x, y, z = t[i:j]` / `x = t[k]` with literal bounds (`_` where a position is never unpacked)"""
    t0 = a.targets[0]
    if isinstance(t0, (ast.Tuple, ast.List)):
        return [_norm(e) for e in t0.elts]
    if not isinstance(t0, ast.Name):
        raise AnchorError(f"{inst}: result of the tree-building call is bound to `{unparse(t0)}`")
    out = ["_"] * arity
    # the unpackings this binding reaches: same block after the call, and the blocks enclosing it after the statement that contains the call
    cands = []
    node = a
    while node is not None and node is not fn:
        par = getattr(node, "_parent", None)
        if par is None:
            break
        for fld in ("body", "orelse", "finalbody"):
            blk = getattr(par, fld, None)
            if isinstance(blk, list) and any(x is node for x in blk):
                cands += blk[[i for i, x in enumerate(blk) if x is node][0] + 1:]
        if isinstance(par, (ast.While, ast.For)):
            break                    # the next iteration re-binds t before any earlier statement reads it
        node = par
    for st in cands:
        if not (isinstance(st, ast.Assign) and len(st.targets) == 1 and isinstance(st.value, ast.Subscript) and isinstance(st.value.value, ast.Name)
                and st.value.value.id == t0.id):
            continue
        sl = st.value.slice
        tg = st.targets[0]
        if isinstance(sl, ast.Slice) and sl.step is None and isinstance(tg, (ast.Tuple, ast.List)):
            lo = 0 if sl.lower is None else (sl.lower.value if isinstance(sl.lower, ast.Constant) else None)
            hi = arity if sl.upper is None else (sl.upper.value if isinstance(sl.upper, ast.Constant) else None)
            if lo is None or hi is None or hi - lo != len(tg.elts):
                raise AnchorError(f"{inst}: unpacking `{unparse(st)[:60]}` of the tree result has no literal bounds")
            for k_, e in enumerate(tg.elts):
                out[lo + k_] = _norm(e)
        elif isinstance(sl, ast.Constant) and isinstance(sl.value, int) and isinstance(tg, ast.Name):
            out[sl.value] = tg.id
    if all(x == "_" for x in out):
        raise AnchorError(f"{inst}: result of the tree-building call held in `{t0.id}` is never unpacked")
    return out


def _transition_on(chk, repo, ci, iface, fn, src):
    g = CFG(fn)
    inst = f"{ci.qual}.{fn.name}"
    problems = []
    S = statements(fn)
    # slice variable
    lu = find("$U=$rhs", [(t, a) for t, a in S if "exponential" in t or "uniform" in t or ("np.log(np.random" in t)])
    b = None
    for form in ("$U=$H-np.random.exponential(1,size=1)", "$U=$H-np.random.exponential(1)", "$U=$H+np.log(np.random.rand())"):
        bb, used = unify([form, "$H=$l0-self._Kfun($r0,'eval')", "$r0=self._Kfun(1,'sample')"], S)
        if bb is not None:
            b = bb
            break
    if b is None:
        bad = [t for t, a in S if "np.exp(" in t and ("uniform" in t or "rand" in t)]
        if bad:
            problems.append(f"slice variable `{bad[0]}` exponentiates the Hamiltonian: exp(H) underflows to 0 for H < -745 "
                            f"(log u = -inf: every leaf is in the slice, no divergence is ever detected); it must be drawn in the log domain (H - Exp(1))")
            chk.fail("C08-R4", inst, site(repo, fn), "; ".join(problems), fn)
            return
        raise AnchorError(f"{inst}: slice variable / Hamiltonian / momentum resampling idiom not recognised")
    # doubling loop
    loops = [n for n in ast.walk(fn) if isinstance(n, ast.While)]
    lb = None
    for w in loops:
        m = find("while: $s==1 and $j<=self.max_depth", [("while: " + _norm(w.test), w)]) or \
            find("while: $s==1 and self.max_depth>=$j", [("while: " + _norm(w.test), w)])
        if m:
            lb = m[0][0]
            wl = w
    if lb is None:
        problems.append(f"doubling loop condition is not (s == 1) and (j <= max_depth): {[unparse(w.test) for w in loops]}")
        chk.fail("C08-R4", inst, site(repo, fn), "; ".join(problems), fn)
        return
    b.update(lb)
    bb, _ = unify(["$j,$s,$n=(0,1,1)"], S, b)
    if bb is None:
        problems.append("tree state is not initialised as j, s, n = 0, 1, 1")
    else:
        b = bb
    body = statements(wl) + [("if: " + _norm(t.ast), t.ast) for t in g.tests()]
    # the two direction branches bind the same primed results
    calls = find("$_t=self._BuildTree($_args)", [])  # placeholder (not used)
    tup = [a for t, a in body if isinstance(a, ast.Assign) and isinstance(a.value, ast.Call) and call_name(a.value) == "self._BuildTree"]
    if len(tup) != 2:
        problems.append("expected one tree-building call per direction")
    else:
        names = [_result_names(fn, a, inst) for a in tup]
        if names[0][6:] != names[1][6:]:
            problems.append("the two directions bind the subtree results to different names")
        x1, l1, g1, n1, s1, al, nal = names[0][6:13]
        b.update({"x1": x1, "l1": l1, "g1": g1, "n1": n1, "s1": s1, "al": al, "nal": nal})
        for a in tup:
            args = [_norm(x) for x in a.value.args]
            tg = _result_names(fn, a, inst)
            side = tg[:3] if tg[0] != "_" else tg[3:6]
            if args[:3] != side or args[3:] != [b["H"], b["U"], args[5], b["j"], args[7]]:
                problems.append(f"tree is not extended from (and stored back to) its own end with (H, log u, v, j, eps): args {args}, targets {tg[:6]}")
            # one fresh direction per doubling: every binding of the direction handed to the subtree lies in the doubling loop
            dirv = a.value.args[5]
            if isinstance(dirv, ast.Name):
                inside = {id(n) for n in ast.walk(wl)}
                defs = [n for n in ast.walk(fn) if isinstance(n, (ast.Assign, ast.AugAssign, ast.AnnAssign))
                        and any(isinstance(t, ast.Name) and t.id == dirv.id for tt in (n.targets if isinstance(n, ast.Assign) else [n.target]) for t in ast.walk(tt))]
                outside = [n for n in defs if id(n) not in inside]
                if outside:
                    problems.append(f"direction `{dirv.id}` is bound outside the doubling loop (`{unparse(outside[0])}`): the tree must be doubled in a freshly drawn direction at every depth, "
                                    f"a single draw per transition grows the trajectory one-sidedly and breaks the uniform choice among doublings")
                elif not defs:
                    raise AnchorError(f"{inst}: no binding of the doubling direction `{dirv.id}`")
    if "n1" in b:
        acc = None
        for form in (["$p=min(1,$n1/$n)", "if: $s1==1", "if: np.random.rand()<=$p"], ["$p=min(1,$n1/$n)", "if: $s1==1", "if: np.random.rand()<$p"]):
            bb, used = unify(form, body, b)
            if bb is not None:
                acc = (bb, used)
                break
        direct = None
        if acc is None:     # probability written directly in the test
            for form in (["if: $s1==1", "if: np.random.rand()<=min(1,$n1/$n)"], ["if: $s1==1", "if: np.random.rand()<min(1,$n1/$n)"]):
                bb, used = unify(form, body, b)
                if bb is not None:
                    bb = dict(bb)
                    bb["p"] = None
                    acc = (bb, [used[1], used[0], used[1]])
                    direct = used[1]
                    break
        if acc is None:
            problems.append("top-level acceptance is not `s' == 1 and U <= min(1, n'/n)`")
        else:
            b, used = acc
            sp_t = [t for t in g.tests() if _norm(t.ast) in (f"{b['s1']}==1", f"1=={b['s1']}")]
            if direct is not None:
                acc_t = [t for t in g.tests() if t.ast is direct]
            else:
                acc_t = [t for t in g.tests() if _norm(t.ast) in (f"np.random.rand()<={b['p']}", f"np.random.rand()<{b['p']}")]
            acc_nodes = [n for n in g.nodes if n.ast is not None and n.kind == "stmt" and g.requires_edge(n, acc_t[0], "T")]
            acc_txt = {_norm(n.ast) for n in acc_nodes}
            if iface == "exp":
                # the acceptance indicator is whatever local the step returns
                rn = {path_of(r_.ast.value) for r_ in g.returns() if r_.ast.value is not None}
                flag = next(iter(rn)) if len(rn) == 1 and None not in rn else "acc"
                want = {f"self.current_point={b['x1']}", f"self.current_target_logd={b['l1']}", f"self.current_target_grad=np.copy({b['g1']})", f"{flag}=1"}
                ok_inst = acc_txt == want
            else:
                inst_b, _ = unify(["$chain[:,$k]=$x1", "$lchain[$k]=$l1", "$gcur=np.copy($g1)"], [(t, n.ast) for t, n in zip([_norm(n.ast) for n in acc_nodes], acc_nodes)], b)
                ok_inst = inst_b is not None and len(acc_txt) == 3
                if inst_b:
                    b = inst_b
            if not ok_inst:
                problems.append(f"accepted candidate is not installed as (point, log-density, copied gradient) of the primed triple (found {sorted(acc_txt)})")
            for n in acc_nodes:
                if not sp_t or not g.requires_edge(n, sp_t[0], "T"):
                    problems.append("acceptance is not conditional on s' == 1")
                    break
            have = set()
            for n in acc_nodes[:1]:
                for t, lab in g.guards_of(n):
                    fg = _finite_guard(t.ast, lab)
                    if fg and _norm(fg[1]) == b["l1"]:
                        have.add(fg[0])
            if iface == "exp":
                if not ("finite" in have or {"nan", "inf"} <= have):
                    problems.append("accept branch is not guarded against a NaN/infinite proposed log-density")
            else:
                post = [n for n in g.nodes if n.kind == "raisestmt" and any("np.isnan(" in _norm(t.ast) for t, lab in g.guards_of(n))]
                if not post and not ("finite" in have or {"nan", "inf"} <= have):
                    problems.append("neither a finite guard on the accept branch nor a NaN abort after the iteration")
                elif post and "inf" not in have and "finite" not in have:
                    chk.note(f"C08-R4 {inst}: NaN states abort the run (raise after the iteration); -inf candidates cannot be selected because they are "
                             f"outside the slice (n' = 0 for H' = -inf) — sibling divergence from the experimental guard, tabled")
            # counters after the test, within one iteration
            bb = None
            for pats in (["$n+=$n1", "$span=$xp-$xm", "$s=$s1*int($span@$rm.T>=0)*int($span@$rp.T>=0)", "$j+=1"],
                         ["$n+=$n1", "$s=$s1*int(($xp-$xm)@$rm.T>=0)*int(($xp-$xm)@$rp.T>=0)", "$j+=1"],
                         ["$n+=$n1", "$s=$s1*(int(($xp-$xm)@$rm.T>=0)*int(($xp-$xm)@$rp.T>=0))", "$j+=1"],
                         ["$n+=$n1", "$s=$s1*int(0<=($xp-$xm)@$rm.T)*int(0<=($xp-$xm)@$rp.T)", "$j+=1"],
                         ["$n+=$n1", "$s=$s1*(int(0<=($xp-$xm)@$rm.T)*int(0<=($xp-$xm)@$rp.T))", "$j+=1"]):
                bb, used = unify(pats, body, b)
                if bb is not None:
                    break
            if bb is None:
                problems.append("after the acceptance test the loop does not update n += n', s = s' * [span.r_minus >= 0] * [span.r_plus >= 0], j += 1")
            else:
                b = bb
                cnt = g.stmt_node_containing(used[0])
                pnode = [n for n in g.nodes if n.ast is not None and n.kind == "stmt" and _norm(n.ast).startswith(b["p"] + "=min(1,")] if b.get("p") else [(sp_t or acc_t)[0]]
                if not pnode or not g.dominates(pnode[0], cnt) or not g.reaches(acc_t[0], cnt):
                    problems.append("n is increased before the acceptance probability is computed / the test is made")
            if iface == "exp" and f"self._current_alpha_ratio={b.get('al')}/{b.get('nal')}" not in {t for t, a in body}:
                problems.append("tuning statistic is not alpha / n_alpha of the last doubling")
    chk.add("C08-R4", inst, not problems, site(repo, src), "slice, doubling loop, accept guard, paired cache update, counters", "; ".join(dict.fromkeys(problems)), src)


# ------------------------------------------------------------------------------------------------ R5
def _fold_class_literals(ci, fn):
    """`self.NAME` / `Class.NAME` with NAME a class-level attribute bound to a number literal (and never stored on instances in the class) is the literal"""
    from ..flow import clone
    from ..canon import set_parents
    lits = {}
    for c in ci.mro():
        for k_, v_ in c.class_attrs.items():
            if k_ not in lits and isinstance(v_, ast.Constant) and isinstance(v_.value, (int, float)) and not isinstance(v_.value, bool):
                lits[k_] = v_.value
    stored = {path_of(t)[5:] for c in ci.mro() for _, _, f in c.all_functions() for n in ast.walk(f) if isinstance(n, (ast.Assign, ast.AugAssign))
              for t in (n.targets if isinstance(n, ast.Assign) else [n.target]) if (path_of(t) or "").startswith("self.") and (path_of(t) or "").count(".") == 1}
    names = {c.name for c in ci.mro()} | {"self", "type(self)"}

    class T(ast.NodeTransformer):
        def visit_Attribute(self, n):
            self.generic_visit(n)
            if isinstance(n.ctx, ast.Load) and n.attr in lits and n.attr not in stored and path_of(n.value) in names:
                return ast.copy_location(ast.Constant(lits[n.attr]), n)
            return n
    out = T().visit(clone(fn))
    out._rel = getattr(fn, "_rel", None)
    return set_parents(ast.fix_missing_locations(out))


def _dual_averaging(chk, repo, ci, iface):
    if iface == "exp":
        fn = repo.method(ci, "tune")[1]
        S = statements(fn)
        uc = func_params(fn)[2]
        pats = ["$k=" + uc + "+1", "$gam,$t0,$kap=(0.05,10,0.75)", "$e1=1/($k+$t0)",
                "self._H_bar=(1-$e1)*self._H_bar+$e1*(self.opt_acc_rate-self._current_alpha_ratio)",
                "self._epsilon=np.exp(self._mu-np.sqrt($k)/$gam*self._H_bar)", "$e=$k**(-$kap)",
                "self._epsilon_bar=np.exp($e*np.log(self._epsilon)+(1-$e)*np.log(self._epsilon_bar))"]
        b, fail = unify(pats, S)
        extra = []
        if b is None:
            # the same update spelled with other temporaries: compare the fully expanded values the three attributes end up with
            from ..flow import Expander
            ex = Expander(fn)
            k = f"({uc}+1)"
            H = f"(1-1/({uc}+1+10))*self._H_bar+1/({uc}+1+10)*(self.opt_acc_rate-self._current_alpha_ratio)"
            eps = f"np.exp(self._mu-np.sqrt({uc}+1)/0.05*({H}))"
            ebar = f"np.exp(({uc}+1)**(-0.75)*np.log({eps})+(1-({uc}+1)**(-0.75))*np.log(self._epsilon_bar))"
            want = {"self._H_bar": H, "self._epsilon": eps, "self._epsilon_bar": ebar}
            for attr, w in want.items():
                asg = [n for n in ex.cfg.nodes if n.kind == "stmt" and isinstance(n.ast, ast.Assign) and path_of(n.ast.targets[0]) == attr]
                if len(asg) != 1:
                    extra.append(f"`{attr}` is assigned {len(asg)} times in tune")
                    continue
                got = _norm(ast.parse(unparse(ex.expand(asg[0].ast.value, asg[0])), mode="eval").body)
                if got != _norm(ast.parse(w, mode="eval").body):
                    extra.append(f"dual-averaging update of `{attr}` is `{unparse(ex.expand(asg[0].ast.value, asg[0]))[:160]}`, not the documented "
                                 f"recursion (H_bar <- (1-1/(m+t0)) H_bar + (delta - alpha)/(m+t0); eps <- exp(mu - sqrt(m)/gamma H_bar); "
                                 f"eps_bar <- exp(m^-kappa log eps + (1-m^-kappa) log eps_bar))")
        # initial values, read off the attribute stores at the end of every path (locals replaced by their bindings)
        from ..pathtable import walk_paths
        from ..pattern import norm as pn
        from .common import canon_fn

        def end_states(meth, valuation=None):
            from .common import canon_keep
            # small private setters are inlined; the routines that run the sampler (step-size search, initialisation) stay calls
            v = canon_keep(repo, ci, repo.method(ci, meth)[1], keep={"_FindGoodEpsilon", "_ensure_initialized", "_initialize", "_nuts_target", "_Leapfrog", "_BuildTree"})
            ends = walk_paths(v, dict(valuation or {}), pn)
            if any(k_ in ("unknown", "loop") for k_, _ in ends):
                return None
            return [r for k_, r in ends if k_ == "fall"] + [r._env for k_, r in ends if k_ == "return" and hasattr(r, "_env")]
        envs = end_states("_initialize")
        if not envs:
            extra.append("_initialize: paths not decidable")
        for env in envs or []:
            mu, e0, hb = env.get("self._mu"), env.get("self._epsilon"), env.get("self._H_bar")
            ok_mu = mu is not None and e0 is not None and pn(mu) in (pn("np.log(10*self._epsilon)"), "np.log(10*" + pn(e0) + ")", "np.log(10*(" + pn(e0) + "))")
            if not ok_mu:
                extra.append("mu is not log(10 * initial epsilon)")
            if hb is None or pn(hb) != "0":
                extra.append("H_bar does not start at 0")
        st = repo.method(ci, "step")[1]
        from .common import canon_keep as _ck
        if "self._epsilon=self._epsilon_bar" not in _norm(st) and "self._epsilon=self._epsilon_bar" not in unparse(_ck(repo, ci, st, KEEP)).replace(" ", ""):
            extra.append("after the transition epsilon is not set to epsilon_bar")
        envs = end_states("_pre_sample", {pn("self._epsilon_bar=='unset'"): True})
        if not envs or not all(e_.get("self._epsilon_bar") is not None and pn(e_["self._epsilon_bar"]) == "self._epsilon" for e_ in envs):
            extra.append("without warm-up epsilon_bar is not the initial epsilon")
        extra = sorted(set(extra))
        chk.add("C08-R5", f"{ci.qual}.tune", not extra, site(repo, fn), "Hoffman & Gelman Alg. 6 dual averaging", "; ".join(extra), fn)
    else:
        fn = repo.method(ci, "_sample")[1]
        S = statements(fn, nested=True)
        pats = ["$gam,$t0,$kap=(0.05,10,0.75)", "$ebar,$Hb=(1,0)", "$del=self.opt_acc_rate", "$mu=np.log(10*$eps)",
                "$e1=1/($k+$t0)", "$Hb=(1-$e1)*$Hb+$e1*($del-$al/$nal)", "$eps=np.exp($mu-np.sqrt($k)/$gam*$Hb)", "$e=$k**(-$kap)",
                "$ebar=np.exp($e*np.log($eps)+(1-$e)*np.log($ebar))"]
        b, fail = unify(pats, S)
        extra = []
        if b is None:
            # the same recursion in closed form: helpers inlined, named constants (locals or class attributes) folded, temporaries substituted
            from .common import canon_keep
            fv = _fold_class_literals(ci, canon_keep(repo, ci, fn, KEEP, subst=True))
            SV = statements(fv, nested=True)
            HB = "(1-1/($k+10))*$Hb+1/($k+10)*($del-$al/$nal)"
            for eps_form in (f"$eps=np.exp($mu-np.sqrt($k)/0.05*$Hb)", f"$eps=np.exp($mu-np.sqrt($k)/0.05*({HB}))"):
                bb, fail2 = unify([f"$Hb={HB}", eps_form, "$ebar=np.exp($k**(-0.75)*np.log($eps)+(1-$k**(-0.75))*np.log($ebar))",
                                   "$mu=np.log(10*$eps)", "$ebar=1", "$Hb=0"], SV)
                if bb is not None:
                    b, fn, S = bb, fv, SV
                    break
        if b is None:
            extra.append(f"dual-averaging update `{pats[fail]}` not found")
        else:
            g = CFG(fn)
            fix = [n for n in g.nodes if n.ast is not None and n.kind == "stmt" and _norm(n.ast) == f"{b['eps']}={b['ebar']}"]
            if len(fix) != 1 or not any(_norm(tt.ast) in (f"{b['k']}==Nb+1", f"Nb+1=={b['k']}", f"{b['k']}==1+Nb", f"1+Nb=={b['k']}") and lab == "T" for tt, lab in g.guards_of(fix[0])):
                extra.append("step size is not frozen to epsilon_bar at the first iteration after burn-in")
            upd = [n for n in g.nodes if n.ast is not None and n.kind == "stmt" and _norm(n.ast).startswith(f"{b['Hb']}=(1-")]
            if upd and not any(_norm(tt.ast) == f"{b['k']}<=Nb" and lab == "T" for tt, lab in g.guards_of(upd[0])):
                extra.append("adaptation is not restricted to the burn-in iterations k <= Nb")
        chk.add("C08-R5", f"{ci.qual}._sample/dual-averaging", not extra, site(repo, fn), "inline dual averaging during burn-in", "; ".join(extra), fn)
