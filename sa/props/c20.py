"""C20 — difference operators and the priors built on them (structural clauses).

 R1 the precision operator is D.T @ D of one and the same difference operator D
 R2 the Markov-random-field log-densities act on the shifted variable (x - location/mean) through these operators
 R3 boundary-condition tables agree: every literal GMRF accepts is implemented by both operator classes and has a sampling branch;
    LMRF/CMRF forward bc_type unchanged to the operator (which refuses unknown values)
 R4 one source: Cholesky factor, log-determinant, rank and sqrt-precision of the Gaussian field derive from its own precision
    operator; the reported rank cannot exceed the number of rows of the difference operator and must depend on the operator's
    order as the operator itself does
 R5 1-D scaling by dx**order; the 2-D operators are vstack([kron(I, D), kron(D, I)]) in both operator classes
 R6 lazy caches are reset by every writer of their inputs (shared rule)
"""
from __future__ import annotations
import ast, re
from typing import Dict, List, Optional, Set, Tuple

from ..index import Repo, AnchorError
from ..cfg import CFG, path_of
from ..astutil import unparse, call_name, func_params, strip_docstring, walk_no_nested
from .common import site

OP = "cuqi/operator/_operator.py"


def _norm(e) -> str:
    from .common import vstr
    return vstr(e)


def _cdm(repo, ci):
    """_create_diff_matrix of an operator class; when the 1-D stencil (the dispatch on the boundary condition) has been moved into a private method,
    the view with that method inlined"""
    src = ci.lookup("_create_diff_matrix")[1]
    if any(isinstance(n, ast.Compare) and "bc_type" in unparse(n) for n in ast.walk(src)):
        return src
    from .common import canon_fn
    from ..canon import set_parents
    return set_parents(canon_fn(repo, ci, src, 2))


def _bc_table(fn) -> Dict[str, Dict[str, str]]:
    """bc literal -> {'rows': row-count expression of the 1-D stencil matrix}: for every literal the option is compared with, the paths through
    _create_diff_matrix are followed (tests on the option decided, all others both ways) and the value bound to `Dmat` at the end is read off with
    locals replaced by their bindings; its innermost spdiags(...) / eye(...) call gives the number of rows. Literals whose paths all raise are absent."""
    from .common import case_valuation, lit_test_any
    from ..pathtable import walk_paths
    from ..pattern import norm as pn
    from ..flow import Expander
    out: Dict[str, Dict[str, str]] = {}
    ex = Expander(fn)
    lits = []
    for t in ex.cfg.tests():
        try:
            r = lit_test_any(ex.expand(t.ast, t))
        except Exception:
            r = lit_test_any(t.ast)
        if r is not None and pn(r[0]) == "self.bc_type":
            lits += [v for v in sorted(r[1], key=repr) if isinstance(v, str) and v not in lits]
    for lit in lits:
        rows = set()
        for kind, res in walk_paths(fn, case_valuation(fn, "self.bc_type", lit), pn, limit=128, skip_loops=True):
            env = res if kind == "fall" else (getattr(res, "_env", {}) if kind == "return" else None)
            if env is None or "Dmat" not in env:
                continue
            r_ = None
            for c in ast.walk(env["Dmat"]):
                if isinstance(c, ast.Call) and call_name(c) == "spdiags" and len(c.args) >= 4:
                    r_ = _norm(c.args[2])
                elif isinstance(c, ast.Call) and call_name(c) == "eye" and c.args and r_ is None:
                    r_ = _norm(c.args[0])
            if r_ is not None and "N" in env and isinstance(env["N"], ast.AST):
                r_ = r_.replace(_norm(env["N"]), "N")            # the grid size is written N in the table
            # rows cut off afterwards by a slice with literal bounds: M[a:-b] has a + b rows fewer
            cut = 0
            for c in ast.walk(env["Dmat"]):
                if isinstance(c, ast.Subscript) and isinstance(c.slice, ast.Slice) and c.slice.step is None and any(
                        isinstance(x, ast.Call) and call_name(x) in ("spdiags", "eye") for x in ast.walk(c.value)):
                    lo, hi = c.slice.lower, c.slice.upper
                    lo_v = 0 if lo is None else (lo.value if isinstance(lo, ast.Constant) and isinstance(lo.value, int) else None)
                    hi_v = 0 if hi is None else (-hi.operand.value if isinstance(hi, ast.UnaryOp) and isinstance(hi.op, ast.USub) and isinstance(hi.operand, ast.Constant) else None)
                    if lo_v is None or hi_v is None or lo_v < 0 or hi_v > 0:
                        r_ = None
                    else:
                        cut += lo_v - hi_v
            import re as _re
            m_ = _re.fullmatch(r"N(?:([+-])(\d+))?", r_ or "")
            if m_ and cut:
                off = (int(m_.group(2)) if m_.group(2) else 0) * (1 if m_.group(1) != "-" else -1) - cut
                r_ = "N" + (f"+{off}" if off > 0 else (str(off) if off < 0 else ""))
            rows.add(r_)
        if rows:
            out[lit] = {"rows": rows.pop() if len(rows) == 1 else None}
    return out


def _row_offset(expr: Optional[str]) -> Optional[int]:
    if expr is None:
        return None
    m = re.fullmatch(r"N([+-]\d+)?", expr)
    if not m:
        return None
    return int(m.group(1) or 0)


def _rank_offset(e, order: int):
    """value of a rank expression minus self.dim, for a given operator order: integers, + - *, max/min, `order` and `self.dim`; None if not of that form"""
    def ev(n):          # -> (coefficient of dim, constant) or None
        if isinstance(n, ast.Constant) and isinstance(n.value, int) and not isinstance(n.value, bool):
            return (0, n.value)
        if isinstance(n, ast.Name) and n.id == "order":
            return (0, order)
        if path_of(n) == "self.dim":
            return (1, 0)
        if isinstance(n, ast.UnaryOp) and isinstance(n.op, ast.USub):
            r = ev(n.operand)
            return None if r is None else (-r[0], -r[1])
        if isinstance(n, ast.BinOp) and isinstance(n.op, (ast.Add, ast.Sub)):
            a, b = ev(n.left), ev(n.right)
            if a is None or b is None:
                return None
            sgn = 1 if isinstance(n.op, ast.Add) else -1
            return (a[0] + sgn * b[0], a[1] + sgn * b[1])
        if isinstance(n, ast.BinOp) and isinstance(n.op, ast.Mult):
            a, b = ev(n.left), ev(n.right)
            if a is None or b is None or (a[0] and b[0]):
                return None
            if a[0] == 0:
                return (a[1] * b[0], a[1] * b[1])
            return (b[1] * a[0], b[1] * a[1])
        if isinstance(n, ast.Call) and call_name(n) in ("max", "min") and n.args and not n.keywords:
            vs = [ev(x) for x in n.args]
            if any(v_ is None or v_[0] != 0 for v_ in vs):
                return None
            f_ = max if call_name(n) == "max" else min
            return (0, f_(v_[1] for v_ in vs))
        if isinstance(n, ast.Call) and call_name(n) == "int" and len(n.args) == 1:
            return ev(n.args[0])
        return None
    r = ev(e)
    return r[1] if r is not None and r[0] == 1 else None


def _storage(repo) -> str:
    """the attribute in which an Operator keeps its matrix, whatever it is called: the one Operator.__matmul__ applies"""
    op = repo.cls(f"{OP}:Operator")
    mm = repo.method(op, "__matmul__")[1]
    v = func_params(mm)[1]
    rets = [r.value for r in ast.walk(mm) if isinstance(r, ast.Return) and r.value is not None]
    if len(rets) == 1 and isinstance(rets[0], ast.BinOp) and isinstance(rets[0].op, ast.MatMult) and path_of(rets[0].left) and path_of(rets[0].left).startswith("self.") \
            and _norm(rets[0].right) == v:
        return path_of(rets[0].left)
    raise AnchorError("Operator.__matmul__ is not `return self.<matrix> @ vec`")


def run(chk, repo: Repo):
    chk.rule("C20-R7", "shared matrices are never written into: results of memoised (lru_cache) builders, matrices obtained from another object's accessor "
                       "(get_matrix()), and values of module-level keyed caches (a shared stencil patched for one boundary condition would change every operator "
                       "built from the same entry)", floor=1)
    from ..memo import memo_rule
    from ..memo import handout_methods, keyed_cache_rule
    keyed_cache_rule(chk, repo, "C20-R7", ("cuqi/operator/", "cuqi/distribution/", "cuqi/geometry/"))
    memo_rule(chk, repo, "C20-R7", ("cuqi/operator/", "cuqi/distribution/", "cuqi/geometry/", "cuqi/utilities/"),
              handouts=handout_methods(repo, [(f"{OP}:Operator", "get_matrix")]))
    chk.rule("C20-R1", "precision matrix = (D.T @ D) of the same stored difference operator", floor=1)
    chk.rule("C20-R2", "GMRF/LMRF/CMRF densities apply the operator to x minus the location/mean", floor=4)
    chk.rule("C20-R3", "boundary-condition literals: GMRF ⊆ both operator classes; sampling branch per literal; LMRF/CMRF forward bc_type; "
                       "number of rows of each difference operator per (order, boundary condition) as documented (read off the slices of the stencil)", floor=4)
    chk.rule("C20-R4", "Cholesky/logdet/rank/sqrtprec derive from the field's own precision operator; rank bounded by operator rows and order-aware", floor=4)
    chk.rule("C20-R5", "1-D scaling dx**order; 2-D Kronecker stacking identical in both operator classes", floor=3)
    chk.rule("C20-R6", "lazy caches in the MRF/operator classes are reset by every writer of their inputs", floor=0)
    pf = repo.cls(f"{OP}:PrecisionFiniteDifference")
    # the matrix the constructor stores, wherever it is assembled (constructor with its private helpers inlined)
    cp = repo.method(pf, "__init__")[1]
    from .common import canon_fn
    from ..flow import Expander
    exq = Expander(canon_fn(repo, pf, cp, 2))
    asg = [n for n in exq.cfg.nodes if n.kind == "stmt" and isinstance(n.ast, ast.Assign) and path_of(n.ast.targets[0]) == _storage(repo)]
    ok = len(asg) == 1
    shown = "?"
    if ok:
        e = exq.expand(asg[0].ast.value, asg[0], stop=frozenset({"self._diff_op"}))
        shown = unparse(e)
        while isinstance(e, ast.Call) and isinstance(e.func, ast.Attribute) and e.func.attr in ("tocsc", "tocsr") and not e.args:
            e = e.func.value
        ok = isinstance(e, ast.BinOp) and isinstance(e.op, ast.MatMult) and isinstance(e.left, ast.Attribute) and e.left.attr == "T" \
            and _norm(e.left.value) == _norm(e.right) and _norm(e.right) in ("self._diff_op", "self._diff_op.get_matrix()")
    chk.add("C20-R1", f"{pf.qual}/precision-matrix", ok, site(repo, cp), "D.T @ D",
            f"precision matrix is `{shown}`, not D.T @ D of the stored difference operator", cp)
    init = repo.method(pf, "__init__")[1]
    # order dispatch as a table: for each value of `order` the path through __init__ is followed and the value stored in self._diff_op read off
    from .common import canon_fn, case_valuation, OTHER, KwCanon, expected_text, closed_outcomes
    from ..pathtable import walk, _Sub
    from ..pattern import norm as pn
    from ..canon import clone as _clone
    from .common import best_of
    best_of(chk, (1, 2), lambda t_, lvl: _r1_dispatch(t_, repo, pf, init, lvl))        # as written; with a private "pick the operator" helper inlined
    # R2
    gm = repo.cls("cuqi/distribution/_gmrf.py:GMRF")
    lp = repo.method(gm, "logpdf")[1]
    x = func_params(lp)[1]
    got = closed_outcomes(repo, gm, lp)
    E = expected_text(f"0.5*(self._rank*(np.log(self.prec)-np.log(2*np.pi))+self._logdet)-0.5*(self.prec*(({x}-self.mean).T@(self._prec_op@({x}-self.mean))))")
    chk.add("C20-R2", f"{gm.qual}.logpdf", got == {("return", E)}, site(repo, lp), "quadratic form of (x - mean) in the precision operator, normalised with rank and logdet of the same object",
            f"GMRF log-density does not act on the shifted variable through its own precision operator/rank/logdet: closed form {sorted(got, key=str)}", lp)
    for mod, cls, meths in (("cuqi/distribution/_lmrf.py", "LMRF", ("logpdf", "pdf")), ("cuqi/distribution/_cmrf.py", "CMRF", ("logpdf",))):
        ci = repo.cls(f"{mod}:{cls}")
        for mname in meths:
            f = repo.method(ci, mname)[1]
            # in the closed form of the returned value the argument occurs only inside `self._diff_op @ (x - self.location)`
            x = func_params(f)[1]
            outs = closed_outcomes(repo, ci, f, project=lambda e: e)
            from ..pathtable import walk_all
            fv = canon_fn(repo, ci, f, 2)           # private helpers (a shared `differences of the shifted variable` method) inlined
            seen_d = [0]

            class _D(ast.NodeTransformer):
                def visit_BinOp(self, n):
                    if pn(n) == pn(f"self._diff_op@({x}-self.location)"):
                        seen_d[0] += 1
                        return ast.Name(id="_DX", ctx=ast.Load())
                    return self.generic_visit(n)
            res = walk_all(fv, {}, pn, project=lambda e: _D().visit(_clone(e)))
            rets = [t for k_, t in res if k_ == "return"]
            import re as _re
            ok = bool(rets) and seen_d[0] > 0 and all(k_ in ("return", "raise") for k_, _ in res) and not any(_re.search(rf"(?<![A-Za-z0-9_.]){x}(?![A-Za-z0-9_])", t or "") for t in rets)
            chk.add("C20-R2", f"{ci.qual}.{mname}", ok, site(repo, f), "differences of x - location",
                    f"{cls}.{mname} does not apply the difference operator to the shifted variable x - location", f)
            # the density has one factor per ROW of the difference operator (boundary rows included): the closed form, written in D = diff_op @ (x - loc)
            FORMS = {("LMRF", "logpdf"): "{n}*(-(np.log(2)+np.log(self.scale)))-np.linalg.norm(_DX,ord=1,axis=0)/self.scale",
                     ("LMRF", "pdf"): "(1/(2*self.scale))**{n}*np.exp(-np.linalg.norm(_DX,ord=1,axis=0)/self.scale)",
                     ("CMRF", "logpdf"): "-{n}*np.log(np.pi)+sum(np.log(self.scale)-np.log(_DX**2+self.scale**2))"}
            wantf = {expected_text(FORMS[(cls, mname)].format(n=n_)) for n_ in ("len(_DX)", "_DX.shape[0]", "(len(_DX))", "self._diff_op.shape[0]")}
            okf = bool(rets) and all(expected_text(t) in wantf or t in wantf for t in rets)
            chk.add("C20-R2", f"{ci.qual}.{mname}/closed-form", okf, site(repo, f), "normalised with one factor per row of the difference operator",
                    f"{cls}.{mname} is `{rets[0][:160] if rets else '?'}`: it is not the documented density with one Laplace/Cauchy factor per row of D "
                    f"(len(D) rows, which exceeds dim for zero / periodic / neumann boundaries and on 2-D grids)", f)
    # R3
    fo = repo.cls(f"{OP}:FirstOrderFiniteDifference")
    so = repo.cls(f"{OP}:SecondOrderFiniteDifference")
    t1 = _bc_table(_cdm(repo, fo))
    t2 = _bc_table(_cdm(repo, so)) if "_create_diff_matrix" in so.methods else {}
    ginit_src = repo.method(gm, "__init__")[1]
    ginit = canon_fn(repo, gm, ginit_src, 2)          # private helpers the constructor is split into (factorisation, node count) are inlined
    gg = CFG(ginit)
    accepted: Set[str] = set()
    for tt in gg.tests():
        if isinstance(tt.ast, ast.Compare) and _norm(tt.ast.left) == "bc_type" and isinstance(tt.ast.comparators[0], ast.Constant):
            accepted.add(tt.ast.comparators[0].value)
    if not accepted:
        raise AnchorError("GMRF.__init__: boundary-condition dispatch not found")
    # the documented row counts of the 1-D stencils (instance table confirmed by hand): order k with zero / periodic boundary N + k rows, neumann N - k
    # (pure k-th differences, null space = polynomials of degree < k), first-order backward / none N
    ROWS = {1: {"zero": "N+1", "periodic": "N+1", "neumann": "N-1", "backward": "N", "none": "N"}, 2: {"zero": "N+2", "periodic": "N+2", "neumann": "N-2"}}
    for order_, tab, cls_ in ((1, t1, fo), (2, t2, so)):
        wrong = {bc: r_["rows"] for bc, r_ in tab.items() if bc in ROWS[order_] and r_["rows"] != ROWS[order_][bc]}
        chk.add("C20-R3", f"{cls_.qual}._create_diff_matrix/rows", not wrong, site(repo, cls_.methods["_create_diff_matrix"]) if "_create_diff_matrix" in cls_.methods else "",
                f"rows per boundary condition {ROWS[order_]}",
                f"order-{order_} stencil has {wrong} rows, documented {({bc: ROWS[order_][bc] for bc in wrong})}: with other row counts the operator is not the k-th difference with that "
                f"boundary condition (e.g. truncated boundary rows make D.T @ D positive definite and the improper prior's null space is lost)")
    miss1, miss2 = sorted(accepted - set(t1)), sorted(accepted - set(t2))
    chk.add("C20-R3", f"{gm.qual}.__init__/bc-vs-operators", not miss1 and not miss2, site(repo, ginit),
            f"GMRF accepts {sorted(accepted)}; first-order implements {sorted(t1)}, second-order {sorted(t2)}",
            f"GMRF accepts boundary conditions that an operator class does not implement: first-order lacks {miss1}, second-order lacks {miss2}", ginit)
    last_else = [n for n in gg.nodes if n.kind == "raisestmt" and "bc_type" in _norm(n.ast)]
    chk.add("C20-R3", f"{gm.qual}.__init__/bc-refusal", bool(last_else), site(repo, ginit), "unknown boundary condition refused", "unknown bc_type is not refused", ginit)
    smp = repo.method(gm, "_sample")[1]
    sg = CFG(smp)
    sb = {tt.ast.comparators[0].value for tt in sg.tests() if isinstance(tt.ast, ast.Compare) and _norm(tt.ast.left) == "self._bc_type"
          and isinstance(tt.ast.comparators[0], ast.Constant)}
    chk.add("C20-R3", f"{gm.qual}._sample/bc-branches", accepted <= sb and not sg.falls_off_end, site(repo, smp), f"sampling branches {sorted(sb)}",
            f"no sampling branch for {sorted(accepted - sb)}", smp)
    for mod, cls in (("cuqi/distribution/_lmrf.py", "LMRF"), ("cuqi/distribution/_cmrf.py", "CMRF")):
        ci = repo.cls(f"{mod}:{cls}")
        f = repo.method(ci, "__init__")[1]
        from .common import assigned_values as _av, KwCanon as _KC, expected_text as _et
        kcf = _KC().add("FirstOrderFiniteDifference", repo.method(fo, "__init__")[1])
        ok = _av(repo, ci, f, "self._diff_op", stop=frozenset({"num_nodes"}), kc=kcf) == [_et("FirstOrderFiniteDifference(num_nodes=num_nodes,bc_type=bc_type)", kcf)]
        chk.add("C20-R3", f"{ci.qual}.__init__", ok, site(repo, f), "bc_type forwarded unchanged to the first-order operator", f"{cls} does not forward bc_type to its operator", f)
    for ci in (fo, so):
        f = _cdm(repo, ci)
        ok = any(isinstance(n, ast.Raise) and "Unknownboundarytype" in _norm(n) for n in ast.walk(f))
        chk.add("C20-R3", f"{ci.qual}._create_diff_matrix/refusal", ok, site(repo, f), "unknown boundary type refused", "operator accepts unknown boundary types", f)
    # R4
    t = _norm(ginit)
    problems = []
    from .common import assigned_values, KwCanon, expected_text
    kcp = KwCanon().add("PrecisionFiniteDifference", repo.method(pf, "__init__")[1])
    for fld, want, msg, stop_ in (("self._prec_op", "PrecisionFiniteDifference(num_nodes=num_nodes,bc_type=bc_type,order=order)", "precision operator built from (num_nodes, bc_type, order)", {"num_nodes"}),
                                  ("self._diff_op", "self._prec_op._diff_op", "difference operator is the precision operator's own", {"self._prec_op"})):
        got = assigned_values(repo, gm, ginit_src, fld, stop=frozenset(stop_), kc=kcp)
        okf = got == [expected_text(want, kcp)]
        if not okf and fld == "self._prec_op" and len(got) == 1:
            # the node count may come from a helper / local: what must hold is that boundary condition and order are the constructor's own and the
            # node count is computed from the field's size
            try:
                c_ = ast.parse(got[0], mode="eval").body
                kw_ = {k_.arg: pn(k_.value) for k_ in c_.keywords} if isinstance(c_, ast.Call) and call_name(c_) == "PrecisionFiniteDifference" and not c_.args else {}
            except SyntaxError:
                kw_ = {}
            nn_ = kw_.get("num_nodes", "")
            okf = kw_.get("bc_type") == "bc_type" and kw_.get("order") == "order" and ("self.dim" in nn_ or "num_nodes" in nn_ or "_num_nodes" in nn_)
        if not okf:
            problems.append(f"{msg} (`{fld}` is {got})")
    # every value stored in the factor / log-determinant / eigenvalue fields, with temporaries and one-line helpers resolved
    exg = Expander(ginit)
    STOP = frozenset({"self._chol", "self._L_eigval", "self._rank", "self.dim", "self._prec_op"})
    P = ("self._prec_op", "self._prec_op.get_matrix()")
    JIT = ("np.sqrt(np.finfo(float).eps)",)
    allowed = {
        "self._chol": {f"sparse_cholesky({P[1]}).T"} | {f"sparse_cholesky({p_}+{j}*eye(self.dim,dtype=int)).T" for p_ in P for j in JIT},
        "self._logdet": {"2*sum(np.log(self._chol.diagonal()))", "sum(np.log(self._L_eigval))"},
        "self._L_eigval": {f"splinalg.eigsh({P[1]},self._rank,which='LM',return_eigenvectors=False)"},
    }
    seenv = {k: set() for k in allowed}
    for n in exg.cfg.nodes:
        if n.kind == "stmt" and isinstance(n.ast, ast.Assign) and path_of(n.ast.targets[0]) in allowed:
            fld = path_of(n.ast.targets[0])
            v_ = _norm(exg.expand(n.ast.value, n, stop=STOP))
            seenv[fld].add(v_)
            if v_ not in {_norm(ast.parse(a_, mode="eval").body) for a_ in allowed[fld]}:
                problems.append(f"`{fld}` is computed as `{v_[:120]}`: it does not derive from the field's own precision operator self._prec_op")
    for fld, vals in seenv.items():
        if not vals:
            problems.append(f"`{fld}` is never computed")
    sp = gm.lookup_prop("sqrtprec")
    if sp is None or "np.sqrt(self.prec)*self._chol.T" not in _norm(sp.getter):
        problems.append("sqrtprec is not sqrt(prec) * chol.T")
    chk.add("C20-R4", f"{gm.qual}.__init__/one-source", not problems, site(repo, ginit), "chol, logdet, eigenvalues and sqrtprec all come from self._prec_op", "; ".join(problems), ginit)
    # rank: upper bound by operator rows, and order awareness
    ranks = []
    for n in gg.nodes:
        if isinstance(n.ast, ast.Assign) and n.kind == "stmt" and path_of(n.ast.targets[0]) == "self._rank":
            # the boundary conditions under which this assignment executes (path-sensitive in bc_type; ==, in (...), or-chains, early raises alike)
            from .common import cases_reaching, OTHER
            lits = [c for c in cases_reaching(gg, n, "bc_type") if c is not OTHER]
            v = _norm(n.ast.value)
            try:
                rv_ = exg.expand(n.ast.value, exg.cfg.node_of(n.ast), stop=frozenset({"self.dim"}))       # a local alias of self.dim is resolved
            except Exception:
                rv_ = n.ast.value
            off = {o_: _rank_offset(rv_, o_) for o_ in (1, 2)}        # rank - dim for each operator order (integer arithmetic, max/min folded)
            ranks.append((n, lits, off, v))
    if not ranks:
        raise AnchorError("GMRF.__init__: rank assignments not found")
    for n, lits, off, v in ranks:
        for bc in lits:
            for order, table, cname in ((1, t1, "FirstOrderFiniteDifference"), (2, t2, "SecondOrderFiniteDifference")):
                if bc not in table:
                    continue       # already reported by C20-R3 (boundary condition not implemented by this operator class)
                rows = _row_offset(table.get(bc, {}).get("rows"))
                inst = f"{gm.qual}.__init__/rank(bc={bc},order={order})"
                o = off[order]
                if rows is None or o is None:
                    raise AnchorError(f"{inst}: cannot read rank `{v}` or the row count of {cname} for bc={bc}")
                ok = o <= min(0, rows)
                chk.add("C20-R4", inst, ok, site(repo, n.ast), f"reported rank dim{o:+d} <= rows of D (N{rows:+d})",
                        f"GMRF reports rank dim{o:+d} for bc_type='{bc}', but the order-{order} difference operator ({cname}) has only N{rows:+d} rows, "
                        f"so rank(D.T D) <= N{rows:+d}: the normalising constant (rank, log pseudo-determinant over `rank` eigenvalues) does not belong to the precision", n.ast)
                # exact null-space dimension where it is known for every order and dimension: zero boundaries -> 0; periodic -> 1 (the constants: every
                # difference of a constant field vanishes and, on the torus, nothing else does); neumann order 1 -> 1
                exact = {("zero", 1): 0, ("zero", 2): 0, ("periodic", 1): -1, ("periodic", 2): -1, ("neumann", 1): -1}.get((bc, order))
                if exact is not None and ok:
                    chk.add("C20-R4", inst + "/nullity", o == exact, site(repo, n.ast), f"rank = dim{exact:+d}",
                            f"GMRF reports rank dim{o:+d} for bc_type='{bc}', order {order}; the null space of that difference operator has dimension {-exact} "
                            f"(rank dim{exact:+d}): rank, the number of eigenvalues in the log pseudo-determinant and the exponent of prec in logpdf are off", n.ast)
        # order awareness: does the rank (or its guards) depend on `order`?
        deps = {x.id for x in ast.walk(n.ast.value) if isinstance(x, ast.Name)} | {x.id for tt, lab in gg.guards_of(n) for x in ast.walk(tt.ast) if isinstance(x, ast.Name)}
        if lits and "zero" not in lits:
            chk.add("C20-R4", f"{gm.qual}.__init__/rank-order-aware({'|'.join(sorted(lits))})", "order" in deps, site(repo, n.ast), "rank depends on the operator's order",
                    f"the rank `{v}` for bc_type in {lits} does not depend on `order`, but the operator does (order 0 builds the identity regardless of "
                    f"bc_type: full rank dim; order 2 with neumann has a two-dimensional null space): reported rank/logdet differ from those of the precision", n.ast)
    # R5: follow self-method calls from each class's _create_diff_matrix to the statements that assign self._matrix
    def matrix_assigns(ci):
        seen, work, out = set(), [ci.lookup("_create_diff_matrix")[1]], []
        while work:
            f = work.pop()
            if id(f) in seen:
                continue
            seen.add(id(f))
            for n in ast.walk(f):
                if isinstance(n, ast.Assign) and path_of(n.targets[0]) == _storage(repo):
                    out.append((f, n))
                if isinstance(n, ast.Call) and (call_name(n) or "").startswith("self.") and (call_name(n) or "").count(".") == 1:
                    r = ci.lookup(call_name(n)[5:])
                    if r is not None:
                        work.append(r[1])
        return out
    for ci, order, want in ((fo, 1, ("Dmat/self._dx",)), (so, 2, ("Dmat/self._dx**2", "Dmat/(self._dx*self._dx)", "Dmat/self._dx/self._dx"))):
        cdm = ci.lookup("_create_diff_matrix")[1]
        exm = Expander(canon_fn(repo, ci, cdm, 2))        # helpers that assemble the matrix are inlined
        asg = [n for n in exm.cfg.nodes if n.kind == "stmt" and isinstance(n.ast, ast.Assign) and path_of(n.ast.targets[0]) == _storage(repo)]
        vals = [_norm(exm.expand(n.ast.value, n, stop=frozenset({"Dmat", "N"}))) for n in asg]
        one_d = [v_ for v_ in vals if "kron" not in v_ and "vstack" not in v_]
        two_d = [v_ for v_ in vals if "vstack" in v_]
        if not one_d or not two_d:
            raise AnchorError(f"{ci.qual}: assignments of the operator matrix not found")
        ok = all(v_ in want for v_ in one_d)
        chk.add("C20-R5", f"{ci.qual}._create_diff_matrix/scaling", ok, site(repo, cdm), f"order-{order} stencil divided by dx**{order}",
                f"the 1-D order-{order} operator is assembled as {one_d}, not divided by dx**{order} (differs from the documented stencil whenever dx != 1)", cdm)
        KRON = "vstack([kron(eye(N,dtype=int),Dmat),kron(Dmat,eye(N,dtype=int))])"
        chk.add("C20-R5", f"{ci.qual}._create_diff_matrix/2-D", all(v_ == KRON for v_ in two_d), site(repo, cdm), "vstack([kron(I, D), kron(D, I)])",
                f"the 2-D operator is {two_d}, not the documented Kronecker stacking vstack([kron(I, D), kron(D, I)])", cdm)
    for ci, d in ((fo, "np.vstack([-one_vec,one_vec])"), (so, "np.vstack([-one_vec,2*one_vec,-one_vec])")):
        f = _cdm(repo, ci) if ci.lookup("_create_diff_matrix") else None
        if f is not None:
            # the value of `diags` with module-level literal stencils folded and comprehensions over them unrolled
            from .common import module_literal_nodes, LiteralUnroll, assigned_values
            lu = LiteralUnroll(module_literal_nodes(repo, ci.module.rel))
            vals = []
            for n_ in ast.walk(f):
                if isinstance(n_, ast.Assign) and path_of(n_.targets[0]) == "diags":
                    vals.append(_norm(lu.visit(_clone(n_.value))))
            chk.add("C20-R5", f"{ci.qual}._create_diff_matrix/stencil", vals == [d], site(repo, f), f"stencil diagonals {d}", f"stencil diagonals changed: {vals}", f)
    from ..cachecoh import cache_coherence
    cache_coherence(chk, repo, "C20-R6", ("cuqi/distribution/_gmrf.py", "cuqi/distribution/_lmrf.py", "cuqi/distribution/_cmrf.py", "cuqi/operator/", "cuqi/implicitprior/_regularizedGMRF.py"))


def _r1_dispatch(chk, repo, pf, init, level):
    from .common import canon_fn, case_valuation, OTHER, KwCanon, expected_text, closed_outcomes
    from ..pathtable import walk, _Sub
    from ..pattern import norm as pn
    from ..canon import clone as _clone
    iv = canon_fn(repo, pf, init, level)
    nn, bc, od = func_params(init)[1:4]
    kc = KwCanon()
    for cname in ("FirstOrderFiniteDifference", "SecondOrderFiniteDifference"):
        kc.add(cname, repo.method(repo.cls(f"{OP}:{cname}"), "__init__")[1])
    want = {0: f"FirstOrderFiniteDifference({nn},'none')", 1: f"FirstOrderFiniteDifference({nn},bc_type={bc})", 2: f"SecondOrderFiniteDifference({nn},bc_type={bc})", OTHER: None}
    bad, undec = [], []
    for val, w in want.items():
        kind, res = walk(iv, case_valuation(iv, od, val), pn, stop_pred=lambda a_: isinstance(a_, ast.Assign) and path_of(a_.targets[0]) == "self._diff_op")
        if kind == "unknown":
            undec.append(f"order={val}: {res}")
        elif w is None:
            if kind != "raise":
                bad.append(f"order outside 0/1/2 is not refused ({kind})")
        else:
            got = pn(kc.visit(_Sub(res[0]).visit(_clone(res[1].value)))) if kind == "stop" else kind
            if got != expected_text(w, kc):
                bad.append(f"order={val}: self._diff_op = `{got}`, expected `{w}`")
    chk.decide("C20-R1", f"{pf.qual}.__init__", not bad and not undec, not undec, site(repo, init),
               "order 0/1/2 -> identity / first / second difference operator with the given boundary condition; else refuse",
               "order dispatch of the precision operator changed: " + "; ".join(bad or undec), init)
