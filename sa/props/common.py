"""Shared discovery helpers for the property rules."""
from __future__ import annotations
import ast
from typing import Dict, List, Optional, Set, Tuple

from ..index import Repo, ClassInfo, AnchorError
from ..astutil import is_abstract, unparse, call_name, walk_no_nested
from ..cfg import path_of

EXP_SAMPLER = "cuqi/experimental/mcmc/_sampler.py:Sampler"
LEG_SAMPLER = "cuqi/sampler/_sampler.py:Sampler"


def concrete_experimental_samplers(repo: Repo) -> List[ClassInfo]:
    base = repo.cls(EXP_SAMPLER)
    out = []
    for c in repo.subclasses(base):
        st = c.lookup("step")
        if st is None or is_abstract(st[1]):
            continue
        out.append(c)
    return sorted(out, key=lambda c: c.qual)


def legacy_samplers(repo: Repo) -> List[ClassInfo]:
    base = repo.cls(LEG_SAMPLER)
    return sorted(repo.subclasses(base), key=lambda c: c.qual)


def site(repo: Repo, node) -> str:
    try:
        m = repo.module_of(node)
        return f"{m.rel}:{getattr(node, 'lineno', 0)}"
    except Exception:
        return f"?:{getattr(node, 'lineno', 0)}"


def fn_label(ci: Optional[ClassInfo], fn) -> str:
    name = getattr(fn, "name", "<lambda>")
    return f"{ci.qual}.{name}" if ci is not None else name


def top_level_index(body: List[ast.stmt], node: ast.AST) -> Optional[int]:
    """Index of the top-level statement of `body` that contains `node` (None if not inside)."""
    from ..index import parents
    chain = [node] + list(parents(node))
    for i, s in enumerate(body):
        if any(s is c for c in chain):
            return i
    return None


def find_calls(root: ast.AST, pred) -> List[ast.Call]:
    return [n for n in ast.walk(root) if isinstance(n, ast.Call) and pred(n)]


def is_self_call(c: ast.Call, name: str) -> bool:
    return call_name(c) == f"self.{name}"


def shadow(chk, src_rule: str, dst_rule: str, fn):
    """Run another property's rule function `fn(chk)`; keep only its obligations of `src_rule`, recorded under `dst_rule`
    (obligations of the other property's remaining rules are dropped: they are decided by that property's own check)."""
    before = len(chk.obligations)
    fn(chk)
    new = chk.obligations[before:]
    del chk.obligations[before:]
    for o in new:
        if o.rule == src_rule:
            o.rule = dst_rule
            if hasattr(o, "key") and isinstance(getattr(o, "key", None), str):
                pass
            chk.obligations.append(o)
