"""Shared discovery helpers for the property rules."""
from __future__ import annotations
import ast
from typing import Dict, List, Optional, Set, Tuple

from ..index import Repo, ClassInfo, AnchorError
from ..astutil import is_abstract, unparse, call_name, walk_no_nested
from ..cfg import path_of

EXP_SAMPLER = "cuqi/experimental/mcmc/_sampler.py:Sampler"
LEG_SAMPLER = "cuqi/sampler/_sampler.py:Sampler"


def concrete_experimental_samplers(repo: Repo) -> List[ClassInfo]:
    base = repo.cls(EXP_SAMPLER)
    out = []
    for c in repo.subclasses(base):
        st = c.lookup("step")
        if st is None or is_abstract(st[1]):
            continue
        out.append(c)
    return sorted(out, key=lambda c: c.qual)


def legacy_samplers(repo: Repo) -> List[ClassInfo]:
    base = repo.cls(LEG_SAMPLER)
    return sorted(repo.subclasses(base), key=lambda c: c.qual)


def site(repo: Repo, node) -> str:
    try:
        m = repo.module_of(node)
        return f"{m.rel}:{getattr(node, 'lineno', 0)}"
    except Exception:
        n = node
        for _ in range(200):
            if n is None:
                break
            if getattr(n, "_rel", None):
                return f"{n._rel}:{getattr(node, 'lineno', 0)}"
            n = getattr(n, "_parent", None)
        return f"?:{getattr(node, 'lineno', 0)}"


def fn_label(ci: Optional[ClassInfo], fn) -> str:
    name = getattr(fn, "name", "<lambda>")
    return f"{ci.qual}.{name}" if ci is not None else name


def top_level_index(body: List[ast.stmt], node: ast.AST) -> Optional[int]:
    """Index of the top-level statement of `body` that contains `node` (None if not inside)."""
    from ..index import parents
    chain = [node] + list(parents(node))
    for i, s in enumerate(body):
        if any(s is c for c in chain):
            return i
    return None


def find_calls(root: ast.AST, pred) -> List[ast.Call]:
    return [n for n in ast.walk(root) if isinstance(n, ast.Call) and pred(n)]


def is_self_call(c: ast.Call, name: str) -> bool:
    return call_name(c) == f"self.{name}"


def shadow(chk, src_rule: str, dst_rule: str, fn):
    """Run another property's rule function `fn(chk)`; keep only its obligations of `src_rule`, recorded under `dst_rule`
    (obligations of the other property's remaining rules are dropped: they are decided by that property's own check)."""
    before, ubefore = len(chk.obligations), len(chk.unknowns)
    try:
        fn(chk)
    finally:
        new = chk.obligations[before:]
        del chk.obligations[before:]
        unew = chk.unknowns[ubefore:]
        del chk.unknowns[ubefore:]
        for o in new:
            if o.rule == src_rule:
                o.rule = dst_rule
                chk.obligations.append(o)
        for o in unew:
            if o.rule == src_rule:
                o.rule = dst_rule
                chk.unknowns.append(o)


# ------------------------------------------------------------------------------------------------ canonical views (sa/canon.py)
_VCACHE = {}


def views(repo: Repo, ci, fn, rel=None):
    """cached Views (source, structural normal form, helpers inlined, temporaries substituted) of one function"""
    from ..canon import Views
    from ..pattern import norm
    k = (id(repo), id(fn))
    if k not in _VCACHE:
        r = rel or (ci.module.rel if ci is not None else None)
        if r is None:
            try:
                r = repo.module_of(fn).rel
            except Exception:
                r = None
        V = Views(fn, repo, ci, r, normaliser=norm)
        for v in V.views:
            v._rel = r            # lets site() name the file of a node of a (cloned) view
        _VCACHE[k] = V
    return _VCACHE[k]


def canon_fn(repo: Repo, ci, fn, level=3, rel=None):
    """one canonical view: 1 structural, 2 + private helpers inlined, 3 + single-assignment temporaries substituted"""
    v = views(repo, ci, fn, rel).views
    # Views order: [source, V1, V2, V3(V2), V3(V1)]
    # level 4: structural + substituted, helpers NOT inlined (for rules that are about the calls of those helpers)
    return {0: v[0], 1: v[1], 2: v[2] if len(v) > 2 else v[-1], 3: v[3] if len(v) > 3 else v[-1], 4: v[4] if len(v) > 4 else v[-1]}[level]


def match(repo: Repo, ci, fn, patterns, bound=None, nested=True, distinct=True):
    """unify metavariable patterns against the statements of all views of fn; returns bindings or None"""
    from ..pattern import unify
    S = views(repo, ci, fn).statements(nested)
    b, _ = unify(list(patterns), S, bound, distinct)
    return b


def stmts(repo: Repo, ci, fn, nested=True):
    return views(repo, ci, fn).statements(nested)


_GCACHE = {}


def cfgv(repo: Repo, ci, fn, level=3):
    """(canonical view, its CFG)"""
    from ..cfg import CFG
    k = (id(repo), id(fn), level)
    if k not in _GCACHE:
        v = canon_fn(repo, ci, fn, level)
        _GCACHE[k] = (v, CFG(v))
    return _GCACHE[k]


def pmatch(pattern: str, node, bound=None):
    """full match of one metavariable pattern against one AST node (statement header or expression); returns bindings or None"""
    from ..pattern import _compile, norm
    rx, new = _compile(pattern, dict(bound or {}))
    m = rx.fullmatch(norm(node))
    if not m:
        return None
    return {**(bound or {}), **{n: m.group(n) for n in new}}


def nodes_matching(g, pattern: str, bound=None, kinds=("stmt", "return", "test", "iter", "raise")):
    out = []
    for n in g.nodes:
        if n.ast is None:
            continue
        a = n.ast
        if isinstance(a, (ast.For, ast.While, ast.If, ast.With, ast.Try)):
            continue
        b = pmatch(pattern, a, bound)
        if b is not None:
            out.append((n, b))
    return out


def guarded(g, node, pattern: str, label: str, bound=None, only_raise_otherwise=True) -> bool:
    """`node` requires the `label` edge of a test matching `pattern`; the test's other edge never reaches `node`
    (and, with only_raise_otherwise, cannot complete the function normally through it... it may only raise)"""
    for t, lab in g.guards_of(node):
        if lab != label or pmatch(pattern, t.ast, bound) is None:
            continue
        other = "T" if label == "F" else "F"
        tgt = [m for m, l in g.succ[t.id] if l == other]
        reach = g.reachable_from(tgt)
        if node.id in reach:
            continue
        return True
    return False


def canon_keep(repo: Repo, ci, fn, keep, subst=False):
    """structural normal form with private helpers inlined EXCEPT those named in `keep` (the helpers a rule reasons about)"""
    from ..canon import inlined, _fix
    k = (id(repo), id(fn), tuple(sorted(keep)), subst)
    if k not in _GCACHE:
        v = inlined(fn, repo, ci, ci.module.rel if ci is not None else repo.module_of(fn).rel, keep=frozenset(keep))
        if subst == "bool":
            from ..canon import bool_temps_substituted
            v = bool_temps_substituted(v)
        elif subst:
            v = _fix(v)
        v._rel = ci.module.rel if ci is not None else None
        _GCACHE[k] = v
    return _GCACHE[k]


class Trial:
    """records the obligations a rule function would emit, so that the same rule can be evaluated on several equivalent views of the code
    and the outcome of the view on which the construct is recognised best is kept (a fact established on any view holds for the function)"""

    def __init__(self, chk):
        self._chk = chk
        self.calls = []
        self.known = chk.known
        self.prop = chk.prop

    def ok(self, *a, **k): self.calls.append(("ok", a, k))
    def fail(self, *a, **k): self.calls.append(("fail", a, k))
    def unknown(self, *a, **k): self.calls.append(("unknown", a, k))
    def note(self, *a, **k): self.calls.append(("note", a, k))

    def add(self, rule, instance, cond, site="", reason_ok="", reason_fail="", construct=""):
        (self.ok if cond else self.fail)(rule, instance, site, reason_ok if cond else reason_fail, construct)
        return cond

    def decide(self, rule, instance, holds, recognised, site="", reason_ok="", reason_fail="", construct=""):
        if holds:
            self.ok(rule, instance, site, reason_ok, construct)
        elif recognised:
            self.fail(rule, instance, site, reason_fail, construct)
        else:
            self.unknown(rule, instance, site, "construct not recognised in any normal form (" + reason_fail[:160] + ")", construct)
        return holds

    def score(self):
        return (sum(1 for c in self.calls if c[0] == "fail"), sum(1 for c in self.calls if c[0] == "unknown"))

    def commit(self):
        for kind, a, k in self.calls:
            getattr(self._chk, kind)(*a, **k)


def best_of(chk, candidates, rule_fn):
    """rule_fn(trial, candidate) for each candidate view; the trial with the fewest violations (then fewest unknowns) is committed.
    A candidate on which the rule raises AnchorError counts as 'not recognised'; if every candidate raises, the first error propagates."""
    best, first_err = None, None
    for cand in candidates:
        t = Trial(chk)
        try:
            rule_fn(t, cand)
        except AnchorError as e:
            first_err = first_err or e
            continue
        if best is None or t.score() < best.score():
            best = t
        if t.score() == (0, 0):
            break
    if best is None:
        raise first_err
    best.commit()


class VStr(str):
    """whitespace-free source text of a function whose `in` test also looks at the text of the function's normal forms (sa/canon.py):
    a statement that occurs in a view of the function is a statement of the function"""
    _views = ()

    def __contains__(self, item):
        if str.__contains__(self, item):
            return True
        return any(item in v for v in self._views)


def vstr(e) -> str:
    """drop-in for the modules' `_norm`: functions of the analysed repository get the view-aware text"""
    from ..index import LAST_REPO, parents
    base = unparse(e).replace(" ", "").replace("\n", "")
    if not isinstance(e, ast.FunctionDef) or LAST_REPO[0] is None or getattr(e, "_rel", None) is not None:
        return base
    repo = LAST_REPO[0]
    try:
        m = repo.module_of(e)
    except Exception:
        return base
    ci = None
    for anc in parents(e):
        if isinstance(anc, ast.ClassDef):
            ci = next((c for c in m.classes.values() if c.node is anc), None)
            break
        if isinstance(anc, ast.FunctionDef):
            return base              # nested function: no views
    try:
        V = views(repo, ci, e, rel=m.rel)
    except Exception:
        return base
    out = VStr(base)
    out._views = tuple(unparse(v).replace(" ", "").replace("\n", "") for v in V.views[1:])
    return out


def assigned_values(repo: Repo, ci, fn, target_path: str, stop=frozenset()):
    """normalised texts of the values assigned to `target_path` in fn, with temporaries replaced by their definitions (def-use expansion on the
    structural normal form); [] if never assigned"""
    from ..flow import Expander
    from ..pattern import norm
    v = canon_fn(repo, ci, fn, 1)
    ex = Expander(v)
    out = []
    for n in ex.cfg.nodes:
        if n.kind == "stmt" and isinstance(n.ast, ast.Assign) and any(path_of(t) == target_path for t in n.ast.targets):
            out.append(norm(ex.expand(n.ast.value, n, stop=stop)))
    return out
