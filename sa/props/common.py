"""Shared discovery helpers for the property rules."""
from __future__ import annotations
import ast
from typing import Dict, List, Optional, Set, Tuple

from ..index import Repo, ClassInfo, AnchorError
from ..astutil import is_abstract, unparse, call_name, walk_no_nested, func_params
from ..cfg import path_of

EXP_SAMPLER = "cuqi/experimental/mcmc/_sampler.py:Sampler"
LEG_SAMPLER = "cuqi/sampler/_sampler.py:Sampler"


def concrete_experimental_samplers(repo: Repo) -> List[ClassInfo]:
    base = repo.cls(EXP_SAMPLER)
    out = []
    for c in repo.subclasses(base):
        st = c.lookup("step")
        if st is None or is_abstract(st[1]):
            continue
        out.append(c)
    return sorted(out, key=lambda c: c.qual)


def legacy_samplers(repo: Repo) -> List[ClassInfo]:
    base = repo.cls(LEG_SAMPLER)
    return sorted(repo.subclasses(base), key=lambda c: c.qual)


def site(repo: Repo, node) -> str:
    try:
        m = repo.module_of(node)
        return f"{m.rel}:{getattr(node, 'lineno', 0)}"
    except Exception:
        n = node
        for _ in range(200):
            if n is None:
                break
            if getattr(n, "_rel", None):
                return f"{n._rel}:{getattr(node, 'lineno', 0)}"
            n = getattr(n, "_parent", None)
        return f"?:{getattr(node, 'lineno', 0)}"


def fn_label(ci: Optional[ClassInfo], fn) -> str:
    name = getattr(fn, "name", "<lambda>")
    return f"{ci.qual}.{name}" if ci is not None else name


def top_level_index(body: List[ast.stmt], node: ast.AST) -> Optional[int]:
    """Index of the top-level statement of `body` that contains `node` (None if not inside)."""
    from ..index import parents
    chain = [node] + list(parents(node))
    for i, s in enumerate(body):
        if any(s is c for c in chain):
            return i
    return None


def find_calls(root: ast.AST, pred) -> List[ast.Call]:
    return [n for n in ast.walk(root) if isinstance(n, ast.Call) and pred(n)]


def is_self_call(c: ast.Call, name: str) -> bool:
    return call_name(c) == f"self.{name}"


def shadow(chk, src_rule: str, dst_rule: str, fn):
    """Run another property's rule function `fn(chk)`; keep only its obligations of `src_rule`, recorded under `dst_rule`
    (obligations of the other property's remaining rules are dropped: they are decided by that property's own check)."""
    before, ubefore = len(chk.obligations), len(chk.unknowns)
    try:
        fn(chk)
    finally:
        new = chk.obligations[before:]
        del chk.obligations[before:]
        unew = chk.unknowns[ubefore:]
        del chk.unknowns[ubefore:]
        for o in new:
            if o.rule == src_rule:
                o.rule = dst_rule
                chk.obligations.append(o)
        for o in unew:
            if o.rule == src_rule:
                o.rule = dst_rule
                chk.unknowns.append(o)


# ------------------------------------------------------------------------------------------------ canonical views (sa/canon.py)
_VCACHE = {}


def views(repo: Repo, ci, fn, rel=None):
    """cached Views (source, structural normal form, helpers inlined, temporaries substituted) of one function"""
    from ..canon import Views
    from ..pattern import norm
    k = (id(repo), id(fn))
    if k not in _VCACHE:
        r = rel or (ci.module.rel if ci is not None else None)
        if r is None:
            try:
                r = repo.module_of(fn).rel
            except Exception:
                r = None
        V = Views(fn, repo, ci, r, normaliser=norm)
        for v in V.views:
            v._rel = r            # lets site() name the file of a node of a (cloned) view
        _VCACHE[k] = V
    return _VCACHE[k]


def canon_fn(repo: Repo, ci, fn, level=3, rel=None):
    """one canonical view: 1 structural, 2 + private helpers inlined, 3 + single-assignment temporaries substituted"""
    v = views(repo, ci, fn, rel).views
    # Views order: [source, V1, V2, V3(V2), V3(V1)]
    # level 4: structural + substituted, helpers NOT inlined (for rules that are about the calls of those helpers)
    return {0: v[0], 1: v[1], 2: v[2] if len(v) > 2 else v[-1], 3: v[3] if len(v) > 3 else v[-1], 4: v[4] if len(v) > 4 else v[-1]}[level]


def match(repo: Repo, ci, fn, patterns, bound=None, nested=True, distinct=True):
    """unify metavariable patterns against the statements of all views of fn; returns bindings or None"""
    from ..pattern import unify
    S = views(repo, ci, fn).statements(nested)
    b, _ = unify(list(patterns), S, bound, distinct)
    return b


def stmts(repo: Repo, ci, fn, nested=True):
    return views(repo, ci, fn).statements(nested)


_GCACHE = {}


def cfgv(repo: Repo, ci, fn, level=3):
    """(canonical view, its CFG)"""
    from ..cfg import CFG
    k = (id(repo), id(fn), level)
    if k not in _GCACHE:
        v = canon_fn(repo, ci, fn, level)
        _GCACHE[k] = (v, CFG(v))
    return _GCACHE[k]


def pmatch(pattern: str, node, bound=None):
    """full match of one metavariable pattern against one AST node (statement header or expression); returns bindings or None"""
    from ..pattern import _compile, norm
    rx, new = _compile(pattern, dict(bound or {}))
    m = rx.fullmatch(norm(node))
    if not m:
        return None
    return {**(bound or {}), **{n: m.group(n) for n in new}}


def nodes_matching(g, pattern: str, bound=None, kinds=("stmt", "return", "test", "iter", "raise")):
    out = []
    for n in g.nodes:
        if n.ast is None:
            continue
        a = n.ast
        if isinstance(a, (ast.For, ast.While, ast.If, ast.With, ast.Try)):
            continue
        b = pmatch(pattern, a, bound)
        if b is not None:
            out.append((n, b))
    return out


def guarded(g, node, pattern: str, label: str, bound=None, only_raise_otherwise=True) -> bool:
    """`node` requires the `label` edge of a test matching `pattern`; the test's other edge never reaches `node`
    (and, with only_raise_otherwise, cannot complete the function normally through it... it may only raise)"""
    # the complementary spelling of the same guard: `a != b` on the F edge is `a == b` on the T edge (and so on)
    alts = [(pattern, label)]
    for neg, pos in (("!=", "=="), (" is not ", " is "), (" not in ", " in ")):
        for a_, b_ in ((neg, pos), (pos, neg)):
            if a_ in pattern and pattern.count(a_) == 1 and not (a_ == "==" and "!=" in pattern) and not (a_ == " is " and " is not " in pattern) \
                    and not (a_ == " in " and (" not in " in pattern or " for " in pattern)):
                alts.append((pattern.replace(a_, b_), "T" if label == "F" else "F"))
    for t, lab in g.guards_of(node):
        if not any(lab == l_ and pmatch(p_, t.ast, bound) is not None for p_, l_ in alts):
            continue
        label_ = lab
        other = "T" if label_ == "F" else "F"
        tgt = [m for m, l in g.succ[t.id] if l == other]
        reach = g.reachable_from(tgt)
        if node.id in reach:
            continue
        return True
    return False


def canon_keep(repo: Repo, ci, fn, keep, subst=False):
    """structural normal form with private helpers inlined EXCEPT those named in `keep` (the helpers a rule reasons about)"""
    from ..canon import inlined, _fix
    k = (id(repo), id(fn), tuple(sorted(keep)), subst)
    if k not in _GCACHE:
        v = inlined(fn, repo, ci, ci.module.rel if ci is not None else repo.module_of(fn).rel, keep=frozenset(keep))
        if subst == "bool":
            from ..canon import bool_temps_substituted
            v = bool_temps_substituted(v)
        elif subst == "attr":
            # locals that merely name an attribute (`names = self._non_default_args`) are read through; every other temporary stays
            from ..canon import substituted, set_parents
            v = set_parents(substituted(v, only=lambda rhs: isinstance(rhs, ast.Attribute) and path_of(rhs) is not None))
        elif subst:
            v = _fix(v)
        v._rel = ci.module.rel if ci is not None else None
        _GCACHE[k] = v
    return _GCACHE[k]


class Trial:
    """records the obligations a rule function would emit, so that the same rule can be evaluated on several equivalent views of the code
    and the outcome of the view on which the construct is recognised best is kept (a fact established on any view holds for the function)"""

    def __init__(self, chk):
        self._chk = chk
        self.calls = []
        self.known = chk.known
        self.prop = chk.prop

    def ok(self, *a, **k): self.calls.append(("ok", a, k))
    def fail(self, *a, **k): self.calls.append(("fail", a, k))
    def unknown(self, *a, **k): self.calls.append(("unknown", a, k))
    def note(self, *a, **k): self.calls.append(("note", a, k))

    def add(self, rule, instance, cond, site="", reason_ok="", reason_fail="", construct=""):
        (self.ok if cond else self.fail)(rule, instance, site, reason_ok if cond else reason_fail, construct)
        return cond

    def decide(self, rule, instance, holds, recognised, site="", reason_ok="", reason_fail="", construct=""):
        if holds:
            self.ok(rule, instance, site, reason_ok, construct)
        elif recognised:
            self.fail(rule, instance, site, reason_fail, construct)
        else:
            self.unknown(rule, instance, site, "construct not recognised in any normal form (" + reason_fail[:160] + ")", construct)
        return holds

    def score(self):
        return (sum(1 for c in self.calls if c[0] == "fail"), sum(1 for c in self.calls if c[0] == "unknown"))

    def commit(self):
        for kind, a, k in self.calls:
            getattr(self._chk, kind)(*a, **k)


def best_of(chk, candidates, rule_fn):
    """rule_fn(trial, candidate) for each candidate view; the trial with the fewest violations (then fewest unknowns) is committed.
    A candidate on which the rule raises AnchorError counts as 'not recognised'; if every candidate raises, the first error propagates."""
    best, first_err = None, None
    for cand in candidates:
        t = Trial(chk)
        try:
            rule_fn(t, cand)
        except AnchorError as e:
            first_err = first_err or e
            continue
        if best is None or t.score() < best.score():
            best = t
        if t.score() == (0, 0):
            break
    if best is None:
        raise first_err
    best.commit()


class VStr(str):
    """whitespace-free source text of a function whose `in` test also looks at the text of the function's normal forms (sa/canon.py):
    a statement that occurs in a view of the function is a statement of the function"""
    _views = ()

    def __contains__(self, item):
        if str.__contains__(self, item):
            return True
        return any(item in v for v in self._views)


def vstr(e) -> str:
    """drop-in for the modules' `_norm`: functions of the analysed repository get the view-aware text"""
    from ..index import LAST_REPO, parents
    base = unparse(e).replace(" ", "").replace("\n", "")
    if not isinstance(e, ast.FunctionDef) or LAST_REPO[0] is None or getattr(e, "_rel", None) is not None:
        return base
    repo = LAST_REPO[0]
    try:
        m = repo.module_of(e)
    except Exception:
        return base
    ci = None
    for anc in parents(e):
        if isinstance(anc, ast.ClassDef):
            ci = next((c for c in m.classes.values() if c.node is anc), None)
            break
        if isinstance(anc, ast.FunctionDef):
            return base              # nested function: no views
    try:
        V = views(repo, ci, e, rel=m.rel)
    except Exception:
        return base
    out = VStr(base)
    out._views = tuple(unparse(v).replace(" ", "").replace("\n", "") for v in V.views[1:])
    return out


def assigned_values(repo: Repo, ci, fn, target_path: str, stop=frozenset(), kc=None):
    """normalised texts of the values assigned to `target_path` in fn, with temporaries replaced by their definitions (def-use expansion on the
    structural normal form); [] if never assigned"""
    from ..flow import Expander
    from ..pattern import norm
    v = canon_fn(repo, ci, fn, 1)
    ex = Expander(v)
    out = []
    for n in ex.cfg.nodes:
        if n.kind == "stmt" and isinstance(n.ast, ast.Assign) and any(path_of(t) == target_path for t in n.ast.targets):
            e_ = ex.expand(n.ast.value, n, stop=stop)
            out.append(norm(kc.visit(clone_(e_)) if kc is not None else e_))
    return out


class KwCanon(ast.NodeTransformer):
    """calls of known callables (`self.m(a, b, k=c)` for methods of one class, `Cls(a, k=c)` for constructors) rewritten to the all-keyword form
    `f(p1=a, p2=b, k=c, <defaults>)` sorted by parameter name: positional/keyword spelling and omitted defaults do not distinguish two calls"""

    def __init__(self, repo: Repo = None, ci=None, methods=()):
        self.sig = {}
        for m in methods:
            try:
                f = repo.method(ci, m)[1]
            except Exception:
                continue
            self.add(f"self.{m}", f)

    def add(self, name: str, f, skip_first=True):
        a = f.args
        if a.vararg or a.posonlyargs:
            return self
        self.open_kw = getattr(self, "open_kw", set())
        if a.kwarg:
            self.open_kw.add(name)         # further keywords are collected by **kwargs: kept as written
        ps = [x.arg for x in a.args][1 if skip_first else 0:]
        dfl = dict(zip(reversed(ps), reversed(a.defaults)))
        npos = len(ps)
        for k_, d_ in zip(a.kwonlyargs, a.kw_defaults):
            ps.append(k_.arg)
            if d_ is not None:
                dfl[k_.arg] = d_
        self.sig[name] = (ps, dfl, npos)
        return self

    def visit_Call(self, n):
        self.generic_visit(n)
        cn = call_name(n)
        if cn in self.sig:
            ps, dfl, npos = self.sig[cn]
            if any(isinstance(a, ast.Starred) for a in n.args) or any(k.arg is None for k in n.keywords) or len(n.args) > npos:
                return n
            b = dict(zip(ps, n.args))
            for k in n.keywords:
                if k.arg in b or (k.arg not in ps and cn not in getattr(self, "open_kw", ())):
                    return n
                b[k.arg] = k.value
            for p_ in ps:
                if p_ not in b:
                    if p_ not in dfl:
                        return n
                    b[p_] = dfl[p_]
            return ast.copy_location(ast.Call(func=n.func, args=[], keywords=[ast.keyword(arg=p_, value=b[p_]) for p_ in sorted(b)]), n)
        return n


def model_gradient_table(repo: Repo, model, fn_src):
    """Model.gradient as a decision table over `hasattr(self.domain_geometry, 'gradient')`: {True/False: normalised text of the returned expression
    with every local replaced by what it was bound to on that path and the conversion calls in all-keyword form} or (None, reason)"""
    from ..pathtable import walk
    from ..pattern import norm as pn
    # private helpers the method may be split into (conversion of wrt, conversion of the result) are inlined; the conversion primitives stay calls
    fn = canon_keep(repo, model, fn_src, {"_2par", "_2fun", "_gradient_func", "_check_gradient_can_be_computed", "_apply_func", "_forward_func", "_parse_args_add_to_kwargs"})
    kc = KwCanon(repo, model, ["_2par", "_2fun", "_gradient_func"])
    atom = pn("hasattr(self.domain_geometry,'gradient')")
    out = {}
    for val in (True, False):
        kind, res = walk(fn, {atom: val}, pn)
        if kind != "return":
            return None, f"path [{atom}={val}] ends in {kind}: {res if isinstance(res, str) else ''}"
        out[val] = pn(kc.visit(clone_(res)))
    return out, kc


def clone_(e):
    import copy
    return copy.deepcopy(e)


def model_gradient_expected(repo, model, fn_src, kc):
    from ..pattern import norm as pn
    P = func_params(fn_src)
    d, w, dp, wp = P[1:5]
    D = f"self._2fun({d},self.range_geometry,is_par={dp})"
    W = f"self._2fun({w},self.domain_geometry,is_par={wp})"
    WP = f"self._2par({w},geometry=self.domain_geometry,is_par={wp},to_CUQIarray=False)"
    raw = f"self._gradient_func({D},{W})"
    wrap = f"type({d}) is CUQIarray"
    exp = {True: f"self._2par(self.domain_geometry.gradient({raw},{WP}),self.domain_geometry,to_CUQIarray={wrap},is_par=True)",
           False: f"self._2par({raw},self.domain_geometry,to_CUQIarray={wrap},is_par=False)"}
    from ..canon import _SymOrder
    return {k: pn(_SymOrder().visit(kc.visit(ast.parse(v, mode="eval").body))) for k, v in exp.items()}


OTHER = "<any other value>"


def lit_test_any(e, consts=None):
    """a test comparing some expression with literals -> (subject expression, set of literals, True if the test holds exactly on that set / False if exactly
    off it) or None. `consts`: module-level names bound to literal dicts / tuples / sets (membership in them is membership in their keys / elements)."""
    consts = consts or {}
    if isinstance(e, ast.UnaryOp) and isinstance(e.op, ast.Not):
        r = lit_test_any(e.operand, consts)
        return None if r is None else (r[0], r[1], not r[2])
    if isinstance(e, ast.Compare) and len(e.ops) == 1:
        l, r, op = e.left, e.comparators[0], e.ops[0]

        def lit(x):
            return isinstance(x, ast.Constant) and isinstance(x.value, (str, int, bool, type(None)))
        if isinstance(op, (ast.Eq, ast.NotEq, ast.Is, ast.IsNot)):
            if lit(r) and not lit(l):
                return (l, {r.value}, isinstance(op, (ast.Eq, ast.Is)))
            if lit(l) and not lit(r):
                return (r, {l.value}, isinstance(op, (ast.Eq, ast.Is)))
        if isinstance(op, (ast.In, ast.NotIn)) and not lit(l):
            if isinstance(r, (ast.Tuple, ast.List, ast.Set)) and r.elts and all(lit(x) for x in r.elts):
                return (l, {x.value for x in r.elts}, isinstance(op, ast.In))
            if isinstance(r, ast.Dict) and r.keys and all(k is not None and lit(k) for k in r.keys):
                return (l, {k.value for k in r.keys}, isinstance(op, ast.In))
            if isinstance(r, ast.Name) and r.id in consts:
                return (l, set(consts[r.id]), isinstance(op, ast.In))
            if isinstance(r, ast.Call) and isinstance(r.func, ast.Attribute) and r.func.attr == "keys" and not r.args and isinstance(r.func.value, ast.Name) \
                    and r.func.value.id in consts:
                return (l, set(consts[r.func.value.id]), isinstance(op, ast.In))
    return None


def literal_collections(tree) -> Dict[str, set]:
    """module-level NAME = {literal: ...} / (literal, ...) / [..] / {..}, bound once: name -> set of keys / elements"""
    out, count = {}, {}
    for s in tree.body:
        if isinstance(s, ast.Assign) and len(s.targets) == 1 and isinstance(s.targets[0], ast.Name):
            nm, v = s.targets[0].id, s.value
            count[nm] = count.get(nm, 0) + 1
            if isinstance(v, ast.Dict) and v.keys and all(k is not None and isinstance(k, ast.Constant) for k in v.keys):
                out[nm] = {k.value for k in v.keys}
            elif isinstance(v, (ast.Tuple, ast.List, ast.Set)) and v.elts and all(isinstance(k, ast.Constant) for k in v.elts):
                out[nm] = {k.value for k in v.elts}
    return {k: v for k, v in out.items() if count.get(k) == 1}


def literal_dicts(tree) -> Dict[str, dict]:
    """module-level NAME = {literal: expr, ...} bound once: name -> {key: value node}"""
    out, count = {}, {}
    for s_ in tree.body:
        if isinstance(s_, ast.Assign) and len(s_.targets) == 1 and isinstance(s_.targets[0], ast.Name):
            nm, v = s_.targets[0].id, s_.value
            count[nm] = count.get(nm, 0) + 1
            if isinstance(v, ast.Dict) and v.keys and all(k is not None and isinstance(k, ast.Constant) for k in v.keys):
                out[nm] = {k.value: x for k, x in zip(v.keys, v.values)}
    return {k: v for k, v in out.items() if count.get(k) == 1}


def _lit_test(e, var: str):
    r = lit_test_any(e)
    if r is None or path_of(r[0]) != var:
        return None
    return (r[1], r[2])


def case_domain(g, var: str):
    """all literals `var` is compared with in the function, plus OTHER"""
    dom = []
    for t in g.tests():
        r = _lit_test(t.ast, var)
        if r is not None:
            for v in sorted(r[0], key=repr):
                if v not in dom:
                    dom.append(v)
    return dom + [OTHER]


def cases_reaching(g, node, var: str, domain=None):
    """the values of `var` (literals it is compared with, and OTHER) under which `node` can execute: for each value the out-edges of the tests on `var`
    that the value makes impossible are removed and reachability from the entry is recomputed (path-sensitive in `var`, insensitive in everything else;
    `var` must not be re-assigned in the function)"""
    domain = domain if domain is not None else case_domain(g, var)
    out = []
    for v in domain:
        avoid = set()
        for t in g.tests():
            r = _lit_test(t.ast, var)
            if r is None:
                continue
            lits, pos = r
            holds = ((v in lits) if v is not OTHER else False)
            truth = holds if pos else not holds
            avoid.add((t.id, "F" if truth else "T"))
        if node.id in g.reachable_from([g.entry.id], avoid_edges=avoid):
            out.append(v)
    return out



def closed_outcomes(repo: Repo, ci, fn, level=1, valuation=None, project=None, kc=None):
    """the set of (kind, text) outcomes of a function over all its paths: each returned expression has the locals replaced by what they were bound to on
    the path (closed in the parameters and self), tests that are not decided by `valuation` are explored both ways. Loops on a path -> ('loop', None)."""
    from ..pathtable import walk_all
    from ..pattern import norm as pn
    v = canon_fn(repo, ci, fn, level)
    proj = project
    if kc is not None:
        proj = (lambda e: kc.visit(clone_(project(e) if project else e)))
    return walk_all(v, dict(valuation or {}), pn, project=proj)


def expected_text(src: str, kc=None) -> str:
    """normal-form text of an expression given as source (same normalisation as the views: symmetric operand order, keyword form)"""
    from ..pattern import norm as pn
    from ..canon import _SymOrder, nnf
    e = ast.parse(src, mode="eval").body
    if kc is not None:
        e = kc.visit(e)
    return pn(_SymOrder().visit(e))


def case_valuation(fn, var: str, value, consts=None):
    """valuation for sa.pathtable.walk that decides every test of `fn` on the literal-valued subject `var` (a name, or any expression given as text such
    as `BC.lower()`; locals holding it are resolved) as `var == value` (OTHER: none of the literals). `consts`: module-level literal tables."""
    from ..pathtable import _strip_not
    from ..pattern import norm as pn
    from ..flow import Expander
    val = {}
    ex = Expander(fn)
    want = pn(var)
    for t in ex.cfg.tests():
        core, _ = _strip_not(t.ast)
        try:
            exp = ex.expand(core, t)
        except Exception:
            exp = core
        for c in (core, exp):
            r = lit_test_any(c, consts)
            if r is None or pn(r[0]) != want:
                continue
            _, lits, pos = r
            holds = (value in lits) if value is not OTHER else False
            val[pn(core)] = holds if pos else not holds
            val[pn(exp)] = holds if pos else not holds
    return val


def closed_is(repo: Repo, ci, fn, *alternatives, kc=None, allow_raise=False, level=1):
    """(holds, outcomes): the function returns, on every path, one closed expression equal to one of the alternatives (source text)"""
    outs = closed_outcomes(repo, ci, fn, kc=kc, level=level)
    want = {expected_text(a, kc) for a in alternatives}
    rets = {t for k, t in outs if k == "return"}
    others = {k for k, t in outs if k != "return"}
    ok = len(rets) == 1 and rets <= want and (not others or (allow_raise and others == {"raise"}))
    return ok, sorted(outs, key=str)


class _ConstFold(ast.NodeTransformer):
    def __init__(self, consts):
        self.consts = consts

    def visit_Name(self, n):
        if isinstance(n.ctx, ast.Load) and n.id in self.consts:
            return ast.copy_location(ast.Constant(self.consts[n.id]), n)
        return n


def module_literals(repo: Repo, rel, fn=None):
    """module-level names bound exactly once, at the top level of the module, to a number / string / bool / None literal and not re-bound in `fn`:
    reading such a name is reading the literal (a named constant such as _ACCEPTANCE_RATE = 1)"""
    if rel is None or rel not in repo.modules:
        return {}
    tree = repo.modules[rel].tree
    cnt, val = {}, {}
    for n in ast.walk(tree):
        if isinstance(n, ast.Name) and isinstance(n.ctx, (ast.Store, ast.Del)):
            cnt[n.id] = cnt.get(n.id, 0) + 1
        elif isinstance(n, (ast.FunctionDef, ast.ClassDef)):
            cnt[n.name] = cnt.get(n.name, 0) + 1
        elif isinstance(n, ast.arg):
            cnt[n.arg] = cnt.get(n.arg, 0) + 1
        elif isinstance(n, (ast.Global, ast.Nonlocal)):
            for x in n.names:
                cnt[x] = cnt.get(x, 0) + 2
        elif isinstance(n, ast.alias):
            cnt[(n.asname or n.name).split(".")[0]] = cnt.get((n.asname or n.name).split(".")[0], 0) + 1
    for st in tree.body:
        if isinstance(st, ast.Assign) and len(st.targets) == 1 and isinstance(st.targets[0], ast.Name) and isinstance(st.value, ast.Constant) \
                and cnt.get(st.targets[0].id) == 1 and (st.value.value is None or isinstance(st.value.value, (int, float, str, bool))):
            val[st.targets[0].id] = st.value.value
    return val


def kw_sorted(e):
    """copy of an expression in which the keywords of every call are sorted by name, `**mapping` last, when their values are plain names / attribute reads /
    literals (evaluation order cannot matter then): `f(**kw, e=1)` and `f(e=1, **kw)` are the same call"""
    if e is None:
        return None

    class T(ast.NodeTransformer):
        def visit_Call(self, c):
            self.generic_visit(c)
            if all(isinstance(k.value, (ast.Name, ast.Attribute, ast.Constant)) for k in c.keywords):
                c.keywords = sorted(c.keywords, key=lambda k: (k.arg is None, k.arg or ""))
            return c
    return T().visit(clone_(e))


def default_literal(repo: Repo, ci, fn, node):
    """the literal a parameter default denotes: a literal, or a name bound once to a literal in the body of the defining class (defaults are evaluated in
    the class body) or at module level; None when it is anything else"""
    if isinstance(node, ast.Constant):
        return node.value
    if isinstance(node, ast.UnaryOp) and isinstance(node.op, ast.USub) and isinstance(node.operand, ast.Constant) and isinstance(node.operand.value, (int, float)):
        return -node.operand.value
    if not isinstance(node, ast.Name):
        return None
    owner = next((c for c in ([ci] + [c for c in ci.mro() if c is not ci]) if any(x is fn for x in ast.walk(c.node))), None) if ci is not None else None
    if owner is not None:
        binds = [st for st in owner.node.body if any(isinstance(x, ast.Name) and isinstance(x.ctx, ast.Store) and x.id == node.id for x in ast.walk(st))
                 and not isinstance(st, (ast.FunctionDef, ast.ClassDef))]
        if binds:
            st = binds[0]
            if len(binds) == 1 and isinstance(st, ast.Assign) and len(st.targets) == 1 and isinstance(st.targets[0], ast.Name) and isinstance(st.value, ast.Constant):
                return st.value.value
            return None
    rel = getattr(fn, "_rel", None) or (owner.module.rel if owner is not None else None)
    return module_literals(repo, rel).get(node.id)


def _is_literal(e) -> bool:
    if isinstance(e, ast.Constant):
        return e.value is None or isinstance(e.value, (int, float, str, bool))
    if isinstance(e, ast.UnaryOp) and isinstance(e.op, (ast.USub, ast.UAdd)):
        return isinstance(e.operand, ast.Constant) and isinstance(e.operand.value, (int, float))
    if isinstance(e, (ast.Tuple, ast.List)):
        return all(_is_literal(x) for x in e.elts)
    return False


def module_literal_nodes(repo: Repo, rel):
    """like module_literals, as AST nodes and including tuples / lists of literals (a stencil (-1, 2, -1)); lists only if the module never mutates them
    (judged by: the name occurs exactly once as a store and never as the base of a subscript store / method call)"""
    if rel is None or rel not in repo.modules:
        return {}
    tree = repo.modules[rel].tree
    cnt, touched = {}, set()
    for n in ast.walk(tree):
        if isinstance(n, ast.Name) and isinstance(n.ctx, (ast.Store, ast.Del)):
            cnt[n.id] = cnt.get(n.id, 0) + 1
        elif isinstance(n, (ast.FunctionDef, ast.ClassDef)):
            cnt[n.name] = cnt.get(n.name, 0) + 1
        elif isinstance(n, ast.arg):
            cnt[n.arg] = cnt.get(n.arg, 0) + 1
        elif isinstance(n, (ast.Global, ast.Nonlocal)):
            for x in n.names:
                cnt[x] = cnt.get(x, 0) + 2
        elif isinstance(n, ast.alias):
            k = (n.asname or n.name).split(".")[0]
            cnt[k] = cnt.get(k, 0) + 1
        if isinstance(n, (ast.Subscript, ast.Attribute)) and isinstance(n.ctx, (ast.Store, ast.Del)) and isinstance(n.value, ast.Name):
            touched.add(n.value.id)
        if isinstance(n, ast.Call) and isinstance(n.func, ast.Attribute) and isinstance(n.func.value, ast.Name):
            touched.add(n.func.value.id)
    out = {}
    for st in tree.body:
        if isinstance(st, ast.Assign) and len(st.targets) == 1 and isinstance(st.targets[0], ast.Name) and _is_literal(st.value) and cnt.get(st.targets[0].id) == 1:
            if isinstance(st.value, ast.List) and st.targets[0].id in touched:
                continue
            out[st.targets[0].id] = st.value
    return out


class LiteralUnroll(ast.NodeTransformer):
    """module-level literal constants folded, comprehensions over a literal tuple / list unrolled into a list display, and products with a literal
    coefficient written canonically (1*x -> x, -1*x -> -x, c*x with c < 0 -> -(|c|*x)): `[c*v for c in (-1, 2, -1)]` is `[-v, 2*v, -v]`"""

    def __init__(self, consts):
        self.consts = consts

    def visit_Name(self, n):
        if isinstance(n.ctx, ast.Load) and n.id in self.consts:
            return clone_(self.consts[n.id])
        return n

    def visit_ListComp(self, n):
        n = self.generic_visit(n)
        if len(n.generators) == 1 and not n.generators[0].ifs and isinstance(n.generators[0].target, ast.Name) and isinstance(n.generators[0].iter, (ast.Tuple, ast.List)) \
                and _is_literal(n.generators[0].iter):
            k = n.generators[0].target.id

            class _S(ast.NodeTransformer):
                def __init__(self, v):
                    self.v = v

                def visit_Name(self, m):
                    return clone_(self.v) if m.id == k and isinstance(m.ctx, ast.Load) else m
            elts = [self.visit(_S(v).visit(clone_(n.elt))) for v in n.generators[0].iter.elts]
            return ast.copy_location(ast.List(elts, ast.Load()), n)
        return n

    def visit_BinOp(self, n):
        n = self.generic_visit(n)
        if isinstance(n.op, ast.Mult):
            for c, x in ((n.left, n.right), (n.right, n.left)):
                v = None
                if isinstance(c, ast.Constant) and isinstance(c.value, (int, float)) and not isinstance(c.value, bool):
                    v = c.value
                elif isinstance(c, ast.UnaryOp) and isinstance(c.op, ast.USub) and isinstance(c.operand, ast.Constant) and isinstance(c.operand.value, (int, float)):
                    v = -c.operand.value
                if v is None:
                    continue
                if v == 1:
                    return x
                if v == -1:
                    return ast.copy_location(ast.UnaryOp(ast.USub(), x), n)
                if v < 0:
                    return ast.copy_location(ast.UnaryOp(ast.USub(), ast.BinOp(ast.Constant(-v), ast.Mult(), x)), n)
        return n


def method_effects(repo: Repo, ci, fn, valuation=None, level=1, kc=None, view=None):
    """what a (small) method does on each of its paths, independent of how it is spelled: list of
    {kind: return|fall|raise|unknown|loop, ret: text|None, stores: {"self.x": text}, calls: [text, ...]} with locals replaced by their bindings;
    tests not decided by `valuation` are followed both ways"""
    from ..pathtable import walk_paths
    from ..pattern import norm as pn
    v = view if view is not None else canon_fn(repo, ci, fn, level)

    consts = module_literals(repo, ci.module.rel if ci is not None else getattr(v, "_rel", None), fn)

    def tx(e):
        e = clone_(e)
        if consts:
            e = _ConstFold(consts).visit(e)
        if kc is not None:
            e = kc.visit(e)
        return pn(e)
    out = []
    for kind, res in walk_paths(v, dict(valuation or {}), pn):
        env = {}
        ret = None
        if kind == "return":
            env = getattr(res, "_env", {})
            ret = tx(res)
        elif kind == "fall":
            env = res
        rec = {"kind": kind, "ret": ret, "stores": {k: tx(x) for k, x in env.items() if k.startswith("self.") and isinstance(x, ast.AST) and not isinstance(x, ast.FunctionDef)},
               "calls": [tx(c) for c in env["<calls>"].elts] if "<calls>" in env else [], "why": res if isinstance(res, str) else None}
        out.append(rec)
    return out


def case_effects(repo: Repo, ci, fn, var: str, value, extra=None, level=1, kc=None):
    """method_effects on the paths a literal value of the option variable `var` selects (`var == value`; OTHER = none of the literals it is compared with)"""
    v = canon_fn(repo, ci, fn, level)
    val = case_valuation(v, var, value)
    val.update(extra or {})
    return method_effects(repo, ci, fn, valuation=val, kc=kc, view=v)
