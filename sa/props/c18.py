"""C18 — PDE models solve the discretised equations given and observe them consistently.

 R1 pipeline: PDEModel._forward_func is assemble(parameter=x) -> solve() -> observe(solution), returning the observation;
    steady-state solve refuses when nothing was assembled and solves exactly the assembled (operator, rhs)
 R2 Euler loops: forward Euler iterates the start-of-step times time_steps[:-1], backward Euler the end-of-step times
    time_steps[1:]; in each iteration assemble_step(loop time) precedes the update; dt is the difference of the two
    consecutive time levels of this step; level idx+1 is computed from level idx with the documented recurrence
 R3 observation: restriction without interpolation only when the grids (and, time-dependent, the observation times) coincide;
    otherwise interpolation (grid_sol[, time_steps]) -> (grid_obs[, time_obs]); the observation map is applied afterwards; both
    grid setters recompute the grids-equal flag
 R4 _solve_linear_system returns the solver's first value as the solution for tuple results
 R5 PDEModel._gradient_func dispatch (shared with C12-R3)
"""
from __future__ import annotations
import ast
from typing import List

from ..index import Repo, AnchorError
from ..cfg import CFG, path_of
from ..astutil import unparse, call_name, func_params, strip_docstring
from .common import site

PDE = "cuqi/pde/_pde.py"


def _norm(e) -> str:
    return unparse(e).replace(" ", "").replace("\n", "")


def run(chk, repo: Repo):
    chk.rule("C18-R1", "assemble -> solve -> observe data flow; steady-state solve refuses when not assembled and uses the assembled system", floor=4)
    chk.rule("C18-R2", "Euler loops: time level of assembly, dt from consecutive levels, recurrence from level idx to idx+1, initial column", floor=3)
    chk.rule("C18-R3", "restriction only when grids/times coincide, else interpolation; observation map applied afterwards; setters recompute the flag", floor=5)
    chk.rule("C18-R4", "linear solver wrapper unpacks tuple results as (solution, info)", floor=1)
    chk.rule("C18-R5", "PDE gradient dispatch", floor=1)
    _r1(chk, repo)
    _r2(chk, repo)
    _r3(chk, repo)
    _r4(chk, repo)


def _r1(chk, repo):
    pm = repo.cls("cuqi/model/_model.py:PDEModel")
    ff = repo.method(pm, "_forward_func")[1]
    x = func_params(ff)[1]
    body = [_norm(s) for s in strip_docstring(ff.body)]
    want = [f"self.pde.assemble(parameter={x})", "sol,info=self.pde.solve()", "obs=self.pde.observe(sol)", "returnobs"]
    alt = [f"self.pde.assemble({x})"] + want[1:]
    chk.add("C18-R1", f"{pm.qual}._forward_func", body in (want, alt), site(repo, ff), "assemble(x); sol, info = solve(); obs = observe(sol); return obs",
            f"forward map of the PDE model is {body}", ff)
    init = repo.method(pm, "__init__")[1]
    t = _norm(init)
    ok = "super().__init__(self._forward_func,range_geometry,domain_geometry,gradient=self._gradient_func)" in t and "self.pde=PDE" in t
    chk.add("C18-R1", f"{pm.qual}.__init__", ok, site(repo, init), "model wraps its own _forward_func/_gradient_func and stores the PDE", "PDEModel wiring changed", init)
    ss = repo.cls(f"{PDE}:SteadyStateLinearPDE")
    asm = repo.method(ss, "assemble")[1]
    p = func_params(asm)[1]
    body = [_norm(s) for s in strip_docstring(asm.body)]
    chk.add("C18-R1", f"{ss.qual}.assemble", body == [f"self.diff_op,self.rhs=self.PDE_form({p})"], site(repo, asm), "(diff_op, rhs) = PDE_form(parameter)",
            f"assemble is {body}", asm)
    sv = repo.method(ss, "solve")[1]
    g = CFG(sv)
    rets = g.returns()
    ok = len(rets) == 1 and _norm(rets[0].ast.value) == "self._solve_linear_system(self.diff_op,self.rhs,self._linalg_solve,self._linalg_solve_kwargs)"
    guards = {(_norm(t.ast), lab) for t, lab in g.guards_of(rets[0])} if rets else set()
    ok = ok and ("hasattr(self,'diff_op')", "T") in guards and ("hasattr(self,'rhs')", "T") in guards
    chk.add("C18-R1", f"{ss.qual}.solve", ok, site(repo, sv), "refuses when not assembled; solves (diff_op, rhs) with the configured solver",
            "steady-state solve does not refuse an unassembled PDE or does not solve the assembled system", sv)
    pmg = repo.method(pm, "_gradient_func")[1]
    rets = [_norm(n.value) for n in ast.walk(pmg) if isinstance(n, ast.Return)]
    ok = rets == ["self.pde.gradient_wrt_parameter(direction,wrt)", "direction@self.pde.jacobian_wrt_parameter(wrt)"] and not CFG(pmg).falls_off_end
    chk.add("C18-R5", f"{pm.qual}._gradient_func", ok, site(repo, pmg), "gradient_wrt_parameter, else direction @ jacobian_wrt_parameter, else raise",
            f"PDE gradient dispatch returns {rets}", pmg)


def _r2(chk, repo):
    from ..pattern import statements, unify, norm
    td = repo.cls(f"{PDE}:TimeDependentLinearPDE")
    sv = repo.method(td, "solve")[1]
    g = CFG(sv)
    inst = f"{td.qual}.solve"
    S = statements(sv, nested=True)
    b0, fail = unify(["self.assemble_step(self.time_steps[0])", "$u=np.empty((len(self.initial_condition),len(self.time_steps)))", "$u[:,0]=self.initial_condition"], S)
    chk.add("C18-R2", inst + "/initial", b0 is not None, site(repo, sv), "initial condition assembled at the first time level and stored in column 0",
            "initialisation is not: assemble at time_steps[0], allocate (n, len(time_steps)), u[:, 0] = initial_condition", sv)
    if b0 is None:
        b0 = {"u": "u"}
    asm = repo.method(td, "assemble_step")[1]
    t = func_params(asm)[1]
    body = [_norm(s_) for s_ in strip_docstring(asm.body)]
    ok = body == [f"self.diff_op,self.rhs,self.initial_condition=self.PDE_form(self._parameter,{t})"]
    a0 = [_norm(s_) for s_ in strip_docstring(repo.method(td, "assemble")[1].body)]
    ok = ok and a0 == [f"self._parameter={func_params(repo.method(td, 'assemble')[1])[1]}"]
    chk.add("C18-R2", f"{td.qual}.assemble_step", ok, site(repo, asm), "(diff_op, rhs, initial_condition) = PDE_form(parameter, t)", f"assemble_step is {body}; assemble is {a0}", asm)
    u = b0["u"]
    found = {}
    for lp in [n for n in ast.walk(sv) if isinstance(n, ast.For)]:
        if not (isinstance(lp.target, ast.Tuple) and len(lp.target.elts) == 2 and isinstance(lp.iter, ast.Call) and call_name(lp.iter) == "enumerate"):
            continue
        i, tt = [e.id for e in lp.target.elts]
        LS = statements(lp, nested=True)
        for txt, a in LS:
            if not (isinstance(a, ast.Assign) and norm(a.targets[0]).startswith((f"{u}[:,{i}+1]", f"({u}[:,{i}+1],"))):
                continue
            sn = g.stmt_node_containing(a)
            kind = None
            for tst, lab in g.guards_of(sn):
                nt = _norm(tst.ast)
                if "forward_euler" in nt and "==" in nt:
                    kind = "forward" if lab == "T" else "backward"
                if "backward_euler" in nt and "==" in nt:
                    kind = "backward" if lab == "T" else "forward"
            if kind is None:
                kind = "backward" if "_solve_linear_system" in txt else "forward"
            found[kind] = (lp, a, i, tt, LS)
    for kind in ("forward", "backward"):
        if kind not in found:
            chk.fail("C18-R2", f"{inst}/{kind}_euler", site(repo, sv), f"no store of time level idx+1 found for {kind} Euler", sv)
            continue
        lp, upd, i, tt, LS = found[kind]
        problems = []
        want_iter = "enumerate(self.time_steps[:-1])" if kind == "forward" else "enumerate(self.time_steps[1:])"
        it = _norm(lp.iter)
        if it != want_iter:
            problems.append(f"{kind} Euler iterates `{unparse(lp.iter)}`: the operator and source would be assembled at the "
                            f"{'end' if kind == 'forward' else 'start'} of each step instead of the {'start' if kind == 'forward' else 'end'} "
                            f"(expected {want_iter})")
        dtp = f"$dt=self.time_steps[{i}+1]-{tt}" if kind == "forward" else f"$dt={tt}-self.time_steps[{i}]"
        bb, fail = unify([dtp, f"self.assemble_step({tt})", f"$up={u}[:,{i}]"], LS)
        if bb is None:
            if it == want_iter or fail > 0:
                problems.append(["time step is not the difference of the two levels of this step", "operator/source are not re-assembled at the loop's time level in every step",
                                 "previous level is not column idx"][fail])
            bb, _ = unify(["$dt=$rhs"], [(t_, a_) for t_, a_ in LS if "time_steps" in t_], distinct=False)
            bb = bb or {}
        if "dt" in bb and "up" in bb:
            dt, up = bb["dt"], bb["up"]
            eyes = {path_of(x.targets[0]) for x in ast.walk(sv) if isinstance(x, ast.Assign) and isinstance(x.value, ast.Call) and call_name(x.value) == "np.eye" and path_of(x.targets[0])}
            import re
            v = _norm(upd.value)
            vv = re.sub(r"np\.eye\([^()]*(\([^()]*\))?[^()]*\)", "I", v)
            for e in eyes:
                vv = re.sub(rf"\b{re.escape(e)}\b", "I", vv)
            if kind == "forward":
                ok = vv in (f"({dt}*self.diff_op+I)@{up}+{dt}*self.rhs", f"(I+{dt}*self.diff_op)@{up}+{dt}*self.rhs")
            else:
                amat = [norm(a_.value) for t_, a_ in LS if isinstance(a_, ast.Assign) and norm(a_.value).replace(" ", "") in (f"np.eye(len({up}))-{dt}*self.diff_op",)]
                ok = vv.startswith(f"self._solve_linear_system(I-{dt}*self.diff_op,{up}+{dt}*self.rhs,") or \
                    (bool(amat) and any(vv.startswith(f"self._solve_linear_system({path_of(a_.targets[0])},{up}+{dt}*self.rhs,") for t_, a_ in LS
                                        if isinstance(a_, ast.Assign) and norm(a_.value).replace(" ", "") == f"np.eye(len({up}))-{dt}*self.diff_op"))
            if not ok:
                problems.append(f"{kind}-Euler recurrence is `{unparse(upd.value)[:90]}`, not the documented one")
            order = [a_ for t_, a_ in LS]
            asm_i = [k for k, (t_, a_) in enumerate(LS) if t_ == f"self.assemble_step({tt})"]
            upd_i = [k for k, (t_, a_) in enumerate(LS) if a_ is upd]
            if asm_i and upd_i and asm_i[0] > upd_i[0]:
                problems.append("assembly does not precede the use of the operator in the update")
        chk.add("C18-R2", f"{inst}/{kind}_euler", not problems, site(repo, lp), f"{kind} Euler: {want_iter}, dt from the two levels of the step, assemble_step(t) before the update",
                "; ".join(problems), lp)
    rets = [n for n in strip_docstring(sv.body) if isinstance(n, ast.Return)]
    chk.add("C18-R2", inst + "/return", len(rets) == 1 and _norm(rets[0].value).startswith(f"({u},"), site(repo, sv), "returns (u, info)", "solve does not return (u, info)", sv)


def _r3(chk, repo):
    base = repo.cls(f"{PDE}:PDE")
    for name, other in (("grid_sol", "self.grid_obs"), ("grid_obs", "self.grid_sol")):
        p = base.props.get(name)
        if p is None or p.setter is None:
            raise AnchorError(f"PDE.{name} setter not found")
        v = func_params(p.setter)[1]
        t = [_norm(s) for s in p.setter.body]
        ok = f"self._grids_equal=self._compare_grid({v},{other})" in t and f"self._{name}={v}" in t
        chk.add("C18-R3", f"{base.qual}.@{name}=", ok, site(repo, p.setter), "recomputes _grids_equal against the other grid",
                f"assigning {name} does not recompute the grids-equal flag: observe() would keep restricting instead of interpolating after the grid changed", p.setter)
    cg = repo.method(base, "_compare_grid")[1]
    t = _norm(cg)
    ok = "ifgrid1isNoneorgrid2isNone:returnTrue" in t and "equal_arrays=(grid1==grid2).all()" in t and "equal_arrays=False" in t and "ifm==n:" in t
    chk.add("C18-R3", f"{base.qual}._compare_grid", ok, site(repo, cg), "None -> equal; same length -> elementwise all-equal; else different", "_compare_grid semantics changed", cg)
    ge = base.props.get("grids_equal")
    ok = ge is not None and [_norm(s) for s in ge.getter.body] == ["returnself._grids_equal"]
    chk.add("C18-R3", f"{base.qual}.@grids_equal", ok, site(repo, ge.getter) if ge else "", "reads the flag", "grids_equal does not read the flag")
    ss = repo.cls(f"{PDE}:SteadyStateLinearPDE")
    ob = repo.method(ss, "observe")[1]
    g = CFG(ob)
    sol = func_params(ob)[1]
    restr = [n for n in g.nodes if n.ast is not None and _norm(n.ast) == f"solution_obs={sol}"]
    interp = [n for n in g.nodes if n.ast is not None and _norm(n.ast) == f"solution_obs=interp1d(self.grid_sol,{sol},kind='quadratic')(self.grid_obs)"]
    omap = [n for n in g.nodes if n.ast is not None and _norm(n.ast) == "solution_obs=self.observation_map(solution_obs)"]
    problems = []
    if len(restr) != 1 or ("self.grids_equal", "T") not in {(_norm(t.ast), lab) for t, lab in g.guards_of(restr[0])}:
        problems.append("restriction without interpolation is not limited to coinciding grids")
    if len(interp) != 1 or ("self.grids_equal", "F") not in {(_norm(t.ast), lab) for t, lab in g.guards_of(interp[0])}:
        problems.append("interpolation grid_sol -> grid_obs is missing for differing grids")
    if len(omap) != 1 or ("self.observation_mapisnotNone", "T") not in {(_norm(t.ast), lab) for t, lab in g.guards_of(omap[0])}:
        problems.append("observation map is not applied when given")
    elif restr and interp and not (g.reaches(restr[0], omap[0]) and g.reaches(interp[0], omap[0])):
        problems.append("observation map is not applied after both branches")
    rets = g.returns()
    if len(rets) != 1 or _norm(rets[0].ast.value) != "solution_obs":
        problems.append("does not return the observed solution")
    chk.add("C18-R3", f"{ss.qual}.observe", not problems, site(repo, ob), "restrict iff grids equal, else quadratic interpolation; then observation map", "; ".join(problems), ob)
    td = repo.cls(f"{PDE}:TimeDependentLinearPDE")
    ob = repo.method(td, "observe")[1]
    g = CFG(ob)
    sol = func_params(ob)[1]
    restr = [n for n in g.nodes if n.ast is not None and _norm(n.ast) == f"solution_obs={sol}[...,-1]"]
    interp = [n for n in g.nodes if n.ast is not None and _norm(n.ast) == f"solution_obs=scipy.interpolate.RectBivariateSpline(self.grid_sol,self.time_steps,{sol})(self.grid_obs,self._time_obs)"]
    omap = [n for n in g.nodes if n.ast is not None and _norm(n.ast) == "solution_obs=self.observation_map(solution_obs)"]
    problems = []
    if len(restr) != 1:
        problems.append("final-time restriction not found")
    else:
        gs = {(_norm(t.ast), lab) for t, lab in g.guards_of(restr[0])}
        if ("self.grids_equal", "T") not in gs or ("np.all(self.time_steps[-1:]==self._time_obs)", "T") not in gs:
            problems.append("restriction to the last stored level is not limited to coinciding grids AND observation time == final time")
    if len(interp) != 1:
        problems.append("space-time interpolation (grid_sol, time_steps) -> (grid_obs, time_obs) not found")
    else:
        # reachable whenever either condition fails
        for cond in ("self.grids_equal", "np.all(self.time_steps[-1:]==self._time_obs)"):
            ts = [t for t in g.tests() if _norm(t.ast) == cond]
            if not ts or interp[0].id not in g.reachable_from([m for m, lab in g.succ[ts[0].id] if lab == "F"]):
                problems.append(f"interpolation is not used when `{cond}` is false")
    if len(omap) != 1 or (restr and interp and not (g.reaches(restr[0], omap[0]) and g.reaches(interp[0], omap[0]))):
        problems.append("observation map is not applied after both branches")
    rets = g.returns()
    if len(rets) != 1 or _norm(rets[0].ast.value) != "solution_obs":
        problems.append("does not return the observed solution")
    chk.add("C18-R3", f"{td.qual}.observe", not problems, site(repo, ob), "restrict iff grids equal and time_obs == final time, else bivariate spline; then observation map",
            "; ".join(problems), ob)
    init = repo.method(td, "__init__")[1]
    t = _norm(init)
    ok = "time_obs=time_steps[-1:]" in t and "time_obs=time_steps" in t and "self._time_obs=time_obs" in t and "time_obs.lower()=='final'" in t and "time_obs.lower()=='all'" in t
    chk.add("C18-R3", f"{td.qual}.__init__/time_obs", ok, site(repo, init), "'final' -> last level, 'all' -> all levels, else explicit times; other strings refused",
            "time_obs option dispatch changed", init)


def _r4(chk, repo):
    lp = repo.cls(f"{PDE}:LinearPDE")
    fn = repo.method(lp, "_solve_linear_system")[1]
    g = CFG(fn)
    A, b, solve, kw = func_params(fn)[1:5]
    S = {_norm(n.ast): n for n in g.nodes if n.ast is not None and n.kind == "stmt"}
    problems = []
    if f"returned_values={solve}({A},{b},**{kw})" not in S:
        problems.append("solver is not called as linalg_solve(A, b, **kwargs)")
    t = [x for x in g.tests() if _norm(x.ast) == "isinstance(returned_values,tuple)"]
    if len(t) != 1:
        problems.append("tuple test missing")
    else:
        a = S.get("solution=returned_values[0]")
        i = S.get("info=returned_values[1:]")
        c = S.get("solution=returned_values")
        if a is None or i is None or not g.requires_edge(a, t[0], "T") or not g.requires_edge(i, t[0], "T"):
            problems.append("for tuple results the solution is not the first returned value (info the rest)")
        if c is None or not g.requires_edge(c, t[0], "F"):
            problems.append("non-tuple result is not returned as the solution")
    rets = g.returns()
    if len(rets) != 1 or _norm(rets[0].ast.value) != "(solution,info)":
        problems.append("does not return (solution, info)")
    chk.add("C18-R4", f"{lp.qual}._solve_linear_system", not problems, site(repo, fn), "x, *info = linalg_solve(A, b, **kwargs)", "; ".join(problems), fn)
