"""C18 — PDE models solve the discretised equations given and observe them consistently.

 R1 pipeline: PDEModel._forward_func is assemble(parameter=x) -> solve() -> observe(solution), returning the observation;
    steady-state solve refuses when nothing was assembled and solves exactly the assembled (operator, rhs)
 R2 Euler loops: forward Euler iterates the start-of-step times time_steps[:-1], backward Euler the end-of-step times
    time_steps[1:]; in each iteration assemble_step(loop time) precedes the update; dt is the difference of the two
    consecutive time levels of this step; level idx+1 is computed from level idx with the documented recurrence
 R3 observation: restriction without interpolation only when the grids (and, time-dependent, the observation times) coincide;
    otherwise interpolation (grid_sol[, time_steps]) -> (grid_obs[, time_obs]); the observation map is applied afterwards; both
    grid setters recompute the grids-equal flag
 R4 _solve_linear_system returns the solver's first value as the solution for tuple results
 R5 PDEModel._gradient_func dispatch (shared with C12-R3)
"""
from __future__ import annotations
import ast
from typing import List

from ..index import Repo, AnchorError
from ..cfg import CFG, path_of
from ..astutil import unparse, call_name, func_params, strip_docstring
from .common import site
from ..pattern import norm as pn

PDE = "cuqi/pde/_pde.py"


def _norm(e) -> str:
    from .common import vstr
    return vstr(e)


def run(chk, repo: Repo):
    chk.rule("C18-R1", "assemble -> solve -> observe data flow; steady-state solve refuses when not assembled and uses the assembled system", floor=4)
    chk.rule("C18-R2", "Euler loops: time level of assembly, dt from consecutive levels, recurrence from level idx to idx+1, initial column", floor=3)
    chk.rule("C18-R3", "restriction only when grids/times coincide, else interpolation; observation map applied afterwards; setters recompute the flag", floor=5)
    chk.rule("C18-R4", "linear solver wrapper unpacks tuple results as (solution, info)", floor=1)
    chk.rule("C18-R5", "PDE gradient dispatch", floor=1)
    chk.rule("C18-R6", "assembling, solving and observing are functions of the current parameter: no computation path of the PDE layer is selected by a "
                       "tolerance comparator (re-use of the previous assembly / solution for a `nearly equal` parameter)", floor=1)
    from ..tolerant import tolerant_shortcut_rule
    tolerant_shortcut_rule(chk, repo, "C18-R6", ("cuqi/pde/",))
    _r1(chk, repo)
    _r2(chk, repo)
    _r3(chk, repo)
    _r4(chk, repo)


def _tbl(repo, ci, fn_src, atoms, level=4, keep=None):
    """decision table of a small dispatch function on its canonical view"""
    from .common import canon_fn, canon_keep
    from ..pathtable import table
    pass
    v = canon_keep(repo, ci, fn_src, keep, subst=True) if keep is not None else canon_fn(repo, ci, fn_src, level)
    return table(v, atoms, pn)


def _ct(t):
    pass
    from ..canon import _SymOrder
    try:
        return pn(_SymOrder().visit(ast.parse(t, mode="eval").body))
    except SyntaxError:
        return pn(t)          # not an expression (e.g. a nested def substituted for its name): compared as text, equal to no expected expression


def _r1(chk, repo):
    from .common import canon_fn, stmts
    from ..pathtable import walk
    pass
    pm = repo.cls("cuqi/model/_model.py:PDEModel")
    ff = repo.method(pm, "_forward_func")[1]
    x = func_params(ff)[1]
    v4 = canon_fn(repo, pm, ff, 4)
    kind, res = walk(v4, {}, pn)
    first = [s_ for s_ in strip_docstring(v4.body)][:1]
    asm_ok = bool(first) and pn(first[0]) in (pn(f"self.pde.assemble(parameter={x})"), pn(f"self.pde.assemble({x})"))
    ok = kind == "return" and _ct(unparse(res)) == _ct("self.pde.observe(self.pde.solve()[0])") and asm_ok
    chk.decide("C18-R1", f"{pm.qual}._forward_func", ok, kind == "return", site(repo, ff), "assemble(x); sol, info = solve(); obs = observe(sol); return obs",
               f"forward map of the PDE model is not assemble(parameter) -> solve -> observe(solution): returns `{unparse(res)[:100] if kind == 'return' else kind}`"
               f"{'' if asm_ok else ' without first assembling at the given parameter'}", ff)
    init = repo.method(pm, "__init__")[1]
    from .common import method_effects as _me, KwCanon as _KC, expected_text as _et
    mbase = repo.method(repo.cls("cuqi/model/_model.py:Model"), "__init__")[1]
    ip = func_params(init)
    eff = _me(repo, pm, init)

    def _sup_ok(calls):
        # exactly one call of the base constructor, binding forward -> self._forward_func, gradient -> self._gradient_func and both geometries
        sup = [c for c in calls if c.startswith("super().__init__(")]
        if len(sup) != 1:
            return False
        c = ast.parse(sup[0].replace("super().__init__", "_BASE"), mode="eval").body
        k = _KC().add("_BASE", mbase).visit(c)
        kw = {x.arg: pn(x.value) for x in k.keywords} if isinstance(k, ast.Call) and not k.args else {}
        return kw.get("forward") == "self._forward_func" and kw.get("gradient") == "self._gradient_func" and kw.get("range_geometry") == ip[2] and kw.get("domain_geometry") == ip[3]
    eff = [e for e in eff if e["kind"] != "raise"]
    ok = bool(eff) and all(e["kind"] in ("fall", "return") and e["stores"].get("self.pde") == ip[1] and _sup_ok(e["calls"]) for e in eff)
    chk.add("C18-R1", f"{pm.qual}.__init__", ok, site(repo, init), "model wraps its own _forward_func/_gradient_func and stores the PDE", "PDEModel wiring changed", init)
    ss = repo.cls(f"{PDE}:SteadyStateLinearPDE")
    asm = repo.method(ss, "assemble")[1]
    p = func_params(asm)[1]
    from .common import method_effects
    pass
    eff = method_effects(repo, ss, asm)
    okA = bool(eff) and all(e["kind"] in ("fall", "return") and e["stores"] == {"self.diff_op": pn(f"self.PDE_form({p})[0]"), "self.rhs": pn(f"self.PDE_form({p})[1]")} for e in eff)
    chk.add("C18-R1", f"{ss.qual}.assemble", okA, site(repo, asm), "(diff_op, rhs) = PDE_form(parameter)", f"assemble does {eff}", asm)
    sv = repo.method(ss, "solve")[1]
    tb = _tbl(repo, ss, sv, ["hasattr(self,'diff_op')", "hasattr(self,'rhs')"], keep={"_solve_linear_system"})
    want = _ct("self._solve_linear_system(self.diff_op,self.rhs,self._linalg_solve,self._linalg_solve_kwargs)")
    bad, und = [], [v_ for v_ in tb.values() if v_[0] == "unknown"]
    for (A, B), (kind, got) in tb.items():
        if kind == "unknown":
            continue
        if A and B:
            if not (kind == "return" and got == want):
                bad.append(f"assembled system is not solved with the configured solver: {kind} `{got}`")
        elif kind != "raise":
            bad.append(f"[diff_op present: {A}, rhs present: {B}] an unassembled PDE is not refused ({kind})")
    chk.decide("C18-R1", f"{ss.qual}.solve", not bad and not und, not und, site(repo, sv), "refuses when not assembled; solves (diff_op, rhs) with the configured solver",
               "steady-state solve does not refuse an unassembled PDE or does not solve the assembled system: " + "; ".join(bad[:2]), sv)
    pmg = repo.method(pm, "_gradient_func")[1]
    d_, w_ = func_params(pmg)[1:3]
    tb = _tbl(repo, pm, pmg, ["hasattr(self.pde,'gradient_wrt_parameter')", "hasattr(self.pde,'jacobian_wrt_parameter')"])
    bad, und = [], [v_ for v_ in tb.values() if v_[0] == "unknown"]
    for (A, B), (kind, got) in tb.items():
        want = ("return", _ct(f"self.pde.gradient_wrt_parameter({d_},{w_})")) if A else (("return", _ct(f"{d_}@self.pde.jacobian_wrt_parameter({w_})")) if B else ("raise", None))
        if kind != "unknown" and (kind, got) != want:
            bad.append(f"[direct product available={A}, Jacobian available={B}] {kind} `{got}`, expected {want[0]} `{want[1]}`")
    chk.decide("C18-R5", f"{pm.qual}._gradient_func", not bad and not und, not und, site(repo, pmg), "gradient_wrt_parameter, else direction @ jacobian_wrt_parameter, else raise",
               f"PDE gradient dispatch: {'; '.join(bad[:2])}", pmg)


def _r2(chk, repo):
    from ..pattern import statements, unify, norm
    td = repo.cls(f"{PDE}:TimeDependentLinearPDE")
    from .common import canon_keep as _ck2
    sv = _ck2(repo, td, repo.method(td, "solve")[1], keep={"_solve_linear_system", "assemble_step", "assemble"})     # per-method stepping helpers inlined
    g = CFG(sv)
    inst = f"{td.qual}.solve"
    S = statements(sv, nested=True)
    b0, fail = unify(["self.assemble_step(self.time_steps[0])", "$u=np.empty((len(self.initial_condition),len(self.time_steps)))", "$u[:,0]=self.initial_condition"], S)
    chk.add("C18-R2", inst + "/initial", b0 is not None, site(repo, sv), "initial condition assembled at the first time level and stored in column 0",
            "initialisation is not: assemble at time_steps[0], allocate (n, len(time_steps)), u[:, 0] = initial_condition", sv)
    if b0 is None:
        b0 = {"u": "u"}
    asm = repo.method(td, "assemble_step")[1]
    t = func_params(asm)[1]
    from .common import method_effects
    pass
    body = method_effects(repo, td, asm)
    a0 = method_effects(repo, td, repo.method(td, "assemble")[1])
    # the private attribute in which assemble() keeps the parameter is whatever it is called: assemble_step must read THAT attribute
    apar = func_params(repo.method(td, 'assemble')[1])[1]
    held = sorted({k_ for e in a0 for k_, v_ in e["stores"].items() if v_ == apar})
    HELD = held[0] if len(held) == 1 else "self._parameter"
    CALLT = f"self.PDE_form({HELD},{t})"
    ok = bool(body) and all(e["kind"] in ("fall", "return") and e["stores"] == {"self.diff_op": pn(CALLT + "[0]"), "self.rhs": pn(CALLT + "[1]"), "self.initial_condition": pn(CALLT + "[2]")} for e in body)
    ok = ok and bool(a0) and all(e["kind"] in ("fall", "return") and e["stores"] == {HELD: apar} for e in a0)
    chk.add("C18-R2", f"{td.qual}.assemble_step", ok, site(repo, asm), "(diff_op, rhs, initial_condition) = PDE_form(parameter, t)", f"assemble_step is {body}; assemble is {a0}", asm)
    u = b0["u"]
    found = {}
    for lp in [n for n in ast.walk(sv) if isinstance(n, ast.For)]:
        if not (isinstance(lp.target, ast.Tuple) and len(lp.target.elts) == 2 and isinstance(lp.iter, ast.Call) and call_name(lp.iter) == "enumerate"):
            continue
        i, tt = [e.id for e in lp.target.elts]
        LS = statements(lp, nested=True)
        for txt, a in LS:
            if not (isinstance(a, ast.Assign) and norm(a.targets[0]).startswith((f"{u}[:,{i}+1]", f"({u}[:,{i}+1],"))):
                continue
            sn = g.stmt_node_containing(a)
            kind = None
            for tst, lab in g.guards_of(sn):
                nt = _norm(tst.ast)
                if "forward_euler" in nt and "==" in nt:
                    kind = "forward" if lab == "T" else "backward"
                if "backward_euler" in nt and "==" in nt:
                    kind = "backward" if lab == "T" else "forward"
            if kind is None:
                kind = "backward" if "_solve_linear_system" in txt else "forward"
            found[kind] = (lp, a, i, tt, LS)
    from ..pathtable import walk_stmts, _Sub
    from ..canon import clone as _clone
    for kind in ("forward", "backward"):
        if kind not in found:
            chk.fail("C18-R2", f"{inst}/{kind}_euler", site(repo, sv), f"no store of time level idx+1 found for {kind} Euler", sv)
            continue
        lp, upd, i, tt, LS = found[kind]
        problems = []
        want_iter = "enumerate(self.time_steps[:-1])" if kind == "forward" else "enumerate(self.time_steps[1:])"
        it = _norm(lp.iter)
        if it != want_iter:
            problems.append(f"{kind} Euler iterates `{unparse(lp.iter)}`: the operator and source would be assembled at the "
                            f"{'end' if kind == 'forward' else 'start'} of each step instead of the {'start' if kind == 'forward' else 'end'} "
                            f"(expected {want_iter})")
        # the value stored as level idx+1, with the temporaries of the loop body replaced by their definitions
        k_upd = next((k for k, st in enumerate(lp.body) if any(x is upd for x in ast.walk(st))), None)
        fwd = kind == "forward"
        mval = {_ct("self.method=='forward_euler'"): fwd, _ct("self.method=='backward_euler'"): not fwd,
                _ct("self.method!='forward_euler'"): not fwd, _ct("self.method!='backward_euler'"): fwd}
        utxt = unparse(upd)
        kw_, res_ = walk_stmts(lp.body, mval, norm, {}, stop_pred=lambda a_: unparse(a_) == utxt)
        if kw_ != "stop":
            chk.unknown("C18-R2", f"{inst}/{kind}_euler", site(repo, sv), f"the update is not reached on a straight path through the loop body ({kw_}: {res_})", sv)
            continue
        env = res_[0]
        up = f"{u}[:,{i}]"
        # locals bound before the loop (an identity matrix built once) are read through; the size of an identity matrix is written in one way: every spelling
        # of "the number of rows of u" (len(u[:, idx]), u.shape[0], len(u)) is the token _N
        from ..flow import Expander as _Ex
        _ex = _Ex(sv, g)
        vexp = _Sub(env).visit(_clone(upd.value))
        bound_in_loop = {x.id for x in ast.walk(lp) if isinstance(x, ast.Name) and isinstance(x.ctx, ast.Store)}
        vexp = _ex.expand(vexp, g.node_of(lp), stop=frozenset(bound_in_loop | {u}))
        rows = {norm(ast.parse(r_, mode="eval").body) for r_ in (f"len({up})", f"{u}.shape[0]", f"len({u})")}

        class _Rows(ast.NodeTransformer):
            def visit_Call(self, c):
                self.generic_visit(c)
                if call_name(c) in ("np.eye", "np.identity", "numpy.eye") and len(c.args) == 1 and not c.keywords and norm(c.args[0]) in rows:
                    return ast.copy_location(ast.Call(func=ast.parse("np.eye", mode="eval").body, args=[ast.Name(id="_N", ctx=ast.Load())], keywords=[]), c)
                return c
        val = _ct(unparse(ast.fix_missing_locations(_Rows().visit(vexp))))
        _ctr = lambda t_: _ct(unparse(ast.fix_missing_locations(_Rows().visit(ast.parse(t_, mode="eval").body))))
        if kind == "forward":
            dt = f"(self.time_steps[{i}+1]-{tt})"
            wants = [_ctr(f"({dt}*self.diff_op+np.eye(len({up})))@{up}+{dt}*self.rhs"), _ctr(f"(np.eye(len({up}))+{dt}*self.diff_op)@{up}+{dt}*self.rhs")]
        else:
            dt = f"({tt}-self.time_steps[{i}])"
            wants = [_ctr(f"self._solve_linear_system(np.eye(len({up}))-{dt}*self.diff_op,{up}+{dt}*self.rhs,self._linalg_solve,self._linalg_solve_kwargs)")]
        if val not in wants:
            if _ct(dt)[1:-1] not in val:
                problems.append("time step is not the difference of the two levels of this step")
            elif up.replace(" ", "") not in val.replace(" ", ""):
                problems.append("previous level is not column idx")
            else:
                problems.append(f"{kind}-Euler recurrence is `{val[:140]}`, not the documented one")
        asm_i = [k for k, st in enumerate(lp.body) if isinstance(st, ast.Expr) and _norm(st.value) == f"self.assemble_step({tt})"]
        any_asm = [k for k, st in enumerate(lp.body) if isinstance(st, ast.Expr) and _norm(st.value).startswith("self.assemble_step(")]
        if not asm_i:
            problems.append("operator/source are not re-assembled at the loop's time level in every step" if it == want_iter or not any_asm
                            else f"operator/source are assembled at `{_norm(lp.body[any_asm[0]].value)}`, not at the loop's time level")
        elif asm_i[0] > k_upd:
            problems.append("assembly does not precede the use of the operator in the update")
        chk.add("C18-R2", f"{inst}/{kind}_euler", not problems, site(repo, sv), f"{kind} Euler: {want_iter}, dt from the two levels of the step, assemble_step(t) before the update",
                "; ".join(problems), sv)
    rets = [n for n in strip_docstring(sv.body) if isinstance(n, ast.Return)]
    chk.add("C18-R2", inst + "/return", len(rets) == 1 and _norm(rets[0].value).startswith(f"({u},"), site(repo, sv), "returns (u, info)", "solve does not return (u, info)", sv)


def _r3(chk, repo):
    import itertools
    base = repo.cls(f"{PDE}:PDE")
    for name, other in (("grid_sol", "self.grid_obs"), ("grid_obs", "self.grid_sol")):
        p = base.props.get(name)
        if p is None or p.setter is None:
            raise AnchorError(f"PDE.{name} setter not found")
        v = func_params(p.setter)[1]
        from .common import method_effects as _me2
        from .common import canon_keep as _ck
        eff = _me2(repo, base, p.setter, view=_ck(repo, base, p.setter, keep={"_compare_grid"}))      # a shared "compare, then store" helper is inlined
        eff = [e for e in eff if e["kind"] != "raise"]
        # on every path the flag is recomputed from the value that is stored (the given one, or its documented default) and the other grid
        ok = bool(eff) and all(e["kind"] in ("fall", "return") and e["stores"].get(f"self._{name}") in (v, other)
                               and e["stores"].get("self._grids_equal") in (pn(f"self._compare_grid({e['stores'].get(f'self._{name}')},{other})"),
                                                                            pn(f"self._compare_grid({other},{e['stores'].get(f'self._{name}')})")) for e in eff)
        chk.add("C18-R3", f"{base.qual}.@{name}=", ok, site(repo, p.setter), "recomputes _grids_equal against the other grid",
                f"assigning {name} does not recompute the grids-equal flag: observe() would keep restricting instead of interpolating after the grid changed", p.setter)
    cg = repo.method(base, "_compare_grid")[1]
    g1, g2 = func_params(cg)[:2]
    atoms = [f"{g1} is None", f"{g2} is None", f"len({g1})==len({g2})"]
    tb = _tbl(repo, base, cg, atoms)
    # equal lengths may also be spelled with the operands swapped or as a negated inequality: give the walk all spellings
    from ..pathtable import walk
    pass
    from .common import canon_fn
    cgv = canon_fn(repo, base, cg, 4)
    bad, und = [], []
    import itertools
    for n1, n2, same in itertools.product((True, False), repeat=3):
        val = {_ct(f"{g1} is None"): n1, _ct(f"{g2} is None"): n2, _ct(f"{g1} is not None"): not n1, _ct(f"{g2} is not None"): not n2}
        for a_, b_ in ((g1, g2), (g2, g1)):
            val[_ct(f"len({a_})==len({b_})")] = same
            val[_ct(f"len({a_})!=len({b_})")] = not same
        kind, res = walk(cgv, val, pn)
        if kind == "unknown":
            und.append(res)
            continue
        got = _ct(unparse(res)) if kind == "return" else kind
        want = "True" if (n1 or n2) else ((_ct(f"({g1}=={g2}).all()"), _ct(f"({g2}=={g1}).all()"), _ct(f"np.all({g1}=={g2})")) if same else ("False",))
        if got not in (want if isinstance(want, tuple) else (want,)):
            bad.append(f"[grid1 None={n1}, grid2 None={n2}, same length={same}] returns `{got}`")
    ok = not bad and not und
    chk.decide("C18-R3", f"{base.qual}._compare_grid", ok, not und, site(repo, cg), "None -> equal; same length -> elementwise all-equal; else different", "_compare_grid semantics changed", cg)
    ge = base.props.get("grids_equal")
    from .common import closed_is
    ok = ge is not None and closed_is(repo, base, ge.getter, "self._grids_equal")[0]
    chk.add("C18-R3", f"{base.qual}.@grids_equal", ok, site(repo, ge.getter) if ge else "", "reads the flag", "grids_equal does not read the flag")
    ss = repo.cls(f"{PDE}:SteadyStateLinearPDE")
    ob = repo.method(ss, "observe")[1]
    sol = func_params(ob)[1]
    from .common import canon_keep
    obv = canon_keep(repo, ss, ob, set(), subst=True)        # private helpers inlined, temporaries substituted
    problems = []
    INT = f"interp1d(self.grid_sol,{sol},kind='quadratic')(self.grid_obs)"
    for eq, om in itertools.product((True, False), repeat=2):
        val = {_ct("self.grids_equal"): eq, _ct("self.observation_map is not None"): om, _ct("self.observation_map is None"): not om}
        kind, res = walk(obv, val, pn)
        base_e = sol if eq else INT
        want = _ct(f"self.observation_map({base_e})") if om else _ct(base_e)
        got = _ct(unparse(res)) if kind == "return" else kind
        if kind == "unknown":
            problems.append(f"not decidable: {res}")
        elif got != want:
            if eq and INT.split("(")[0] in got:
                problems.append("restriction without interpolation is not limited to coinciding grids")
            elif not eq and "interp1d" not in got:
                problems.append("interpolation grid_sol -> grid_obs is missing for differing grids")
            elif om and "self.observation_map(" not in got:
                problems.append("observation map is not applied when given")
            else:
                problems.append(f"[grids equal={eq}, observation map={om}] returns `{got[:100]}`")
    problems = sorted(set(problems))
    chk.add("C18-R3", f"{ss.qual}.observe", not problems, site(repo, ob), "restrict iff grids equal, else quadratic interpolation; then observation map", "; ".join(problems), ob)
    td = repo.cls(f"{PDE}:TimeDependentLinearPDE")
    ob = repo.method(td, "observe")[1]
    sol = func_params(ob)[1]
    # decision table over (grids coincide, observation time == final time, observation map given), helpers inlined; the refusal of 2-D/3-D solutions
    # on the interpolation path is a separate test and is taken as "1-D in space" here
    from ..pathtable import walk_paths
    obv = canon_fn(repo, td, ob, 2)
    problems, und = [], []
    SPL = f"scipy.interpolate.RectBivariateSpline(self.grid_sol,self.time_steps,{sol})(self.grid_obs,self._time_obs)"
    for eq, fin, om, one in itertools.product((True, False), repeat=4):
        val = {_ct("len(self._time_obs)==1"): one, _ct("len(self._time_obs)!=1"): not one, _ct("self.grids_equal"): eq, _ct("np.all(self.time_steps[-1:]==self._time_obs)"): fin, _ct("(self.time_steps[-1:]==self._time_obs).all()"): fin,
               _ct("self.observation_map is not None"): om, _ct("self.observation_map is None"): not om,
               _ct(f"len({sol}.shape)>2"): False, _ct(f"{sol}.ndim>2"): False, _ct(f"len({sol}.shape)<=2"): True, _ct(f"{sol}.ndim<=2"): True}
        ends = walk_paths(obv, val, pn)
        base_e = f"{sol}[...,-1]" if (eq and fin) else SPL
        want_src = f"self.observation_map({base_e})" if om else base_e
        want = _ct(f"{want_src}.squeeze()" if one else want_src)         # a single observation time is squeezed out
        for kind, res in ends:
            if kind in ("unknown", "loop"):
                und.append(str(res)[:120])
                continue
            got = _ct(unparse(res)) if kind == "return" else kind
            if got == want:
                continue
            if (eq and fin) and "RectBivariateSpline" in got:
                problems.append("the final-time restriction is not used on coinciding grids at the final time")
            elif not (eq and fin) and "RectBivariateSpline" not in got:
                problems.append("restriction to the last stored level is not limited to coinciding grids AND observation time == final time "
                                f"(interpolation is not used when {'the grids differ' if not eq else 'the observation time is not the final time'})")
            elif om and "self.observation_map(" not in got:
                problems.append("observation map is not applied after both branches")
            else:
                problems.append(f"[grids equal={eq}, final time={fin}, observation map={om}] returns `{got[:120]}`")
    problems = sorted(set(problems))
    chk.decide("C18-R3", f"{td.qual}.observe", not problems and not und, bool(problems) or not und, site(repo, ob),
               "restrict iff grids equal and time_obs == final time, else bivariate spline; then observation map", "; ".join(problems or und[:2]), ob)
    init = repo.method(td, "__init__")[1]
    iv = canon_fn(repo, td, init, 1)
    ts, to = func_params(init)[2:4]
    bad, und = [], []
    cases = [("None", dict(none=True), None), ("'final'", dict(none=False, s=True, final=True, all=False), f"{ts}[-1:]"),
             ("'all'", dict(none=False, s=True, final=False, all=True), ts), ("another string", dict(none=False, s=True, final=False, all=False), None),
             ("explicit times", dict(none=False, s=False), to)]
    for label, c, want in cases:
        val = {_ct(f"{to} is None"): c["none"], _ct(f"{to} is not None"): not c["none"]}
        if "s" in c:
            val[_ct(f"isinstance({to},str)")] = c["s"]
        for key, lit in (("final", "final"), ("all", "all")):
            if key in c:
                val[_ct(f"{to}.lower()=='{lit}'")] = c[key]
                val[_ct(f"{to}.lower()!='{lit}'")] = not c[key]
        for kind, res in walk_paths(iv, val, pn):
            if kind in ("unknown", "loop"):
                und.append(f"[time_obs = {label}] {str(res)[:100]}")
            elif want is None:
                if kind != "raise":
                    bad.append(f"time_obs = {label} is not refused")
            else:
                env = res if kind == "fall" else getattr(res, "_env", {})
                got = env.get("self._time_obs")
                if kind == "raise" or got is None or _ct(unparse(got)) != _ct(want):
                    bad.append(f"time_obs = {label} stores `{unparse(got) if got is not None else kind}`, expected `{want}`")
    chk.decide("C18-R3", f"{td.qual}.__init__/time_obs", not bad and not und, bool(bad) or not und, site(repo, init),
               "'final' -> last level, 'all' -> all levels, else explicit times; other strings refused",
               "time_obs option dispatch changed: " + "; ".join(sorted(set(bad)) or und[:2]), init)


def _r4(chk, repo):
    lp = repo.cls(f"{PDE}:LinearPDE")
    # defaults of the solver slot, as end-of-path state of the constructor: no solver given -> scipy.linalg.solve with NO options (in particular none
    # that lets LAPACK overwrite the assembled operator, which the PDE object keeps and the user's PDE_form may hand out again)
    import itertools as _it
    from .common import method_effects as _me3
    init = repo.method(lp, "__init__")[1]
    sp_, kw_ = func_params(init)[2:4]
    bad = []
    for ns, nk in _it.product((True, False), repeat=2):
        val = {_ct(f"{sp_} is None"): ns, _ct(f"{sp_} is not None"): not ns, _ct(f"{kw_} is None"): nk, _ct(f"{kw_} is not None"): not nk}
        for e in _me3(repo, lp, init, valuation=val):
            if e["kind"] not in ("fall", "return"):
                continue
            if e["stores"].get("self._linalg_solve") != (_ct("scipy.linalg.solve") if ns else sp_):
                bad.append(f"[solver given={not ns}] solver slot is `{e['stores'].get('self._linalg_solve')}`")
            if e["stores"].get("self._linalg_solve_kwargs") not in ((_ct("{}"), _ct("dict()")) if nk else (kw_,)):
                bad.append(f"[options given={not nk}] solver options are `{e['stores'].get('self._linalg_solve_kwargs')}`, expected {'none' if nk else 'the given ones'}")
    chk.add("C18-R4", f"{lp.qual}.__init__/defaults", not bad, site(repo, init), "default solver scipy.linalg.solve without options",
            "; ".join(sorted(set(bad))) + ": default options are passed to every solve (an `overwrite_a` default lets LAPACK destroy the stored operator)", init)
    fn = repo.method(lp, "_solve_linear_system")[1]
    A, b, solve, kw = func_params(fn)[1:5]
    from .common import canon_fn
    from ..pathtable import walk
    pass
    v = canon_fn(repo, lp, fn, 1)
    CALL = f"{solve}({A},{b},**{kw})"
    problems, und = [], []
    # which result types are split into (solution, info...): exactly tuples (a solver may return its solution as a list or an array)
    from ..flow import Expander as _Ex
    _ex = _Ex(v)
    for t_ in _ex.cfg.tests():
        core = t_.ast
        while isinstance(core, ast.UnaryOp) and isinstance(core.op, ast.Not):
            core = core.operand
        if isinstance(core, ast.Call) and call_name(core) == "isinstance" and len(core.args) == 2 and _ct(unparse(_ex.expand(core.args[0], t_))) == _ct(CALL):
            if _ct(unparse(core.args[1])) != "tuple":
                problems.append(f"results of type `{unparse(core.args[1])}` are split into (solution, info...): a solver returning its solution as a plain list "
                                f"has the first entry taken as the solution")
    for is_tuple in (True, False):
        kind, res = walk(v, {_ct(f"isinstance({CALL},tuple)"): is_tuple}, pn)
        if kind != "return":
            if not problems:
                und.append((kind, res))
            continue
        got = _ct(unparse(res))
        want = _ct(f"({CALL}[0],{CALL}[1:])") if is_tuple else _ct(f"({CALL},None)")
        if got != want:
            if CALL.split("(")[0] + "(" not in got:
                problems.append("solver is not called as linalg_solve(A, b, **kwargs)")
            elif is_tuple:
                problems.append(f"for tuple results the solution is not the first returned value (info the rest): `{got[:100]}`")
            else:
                problems.append(f"non-tuple result is not returned as (solution, None): `{got[:100]}`")
    chk.decide("C18-R4", f"{lp.qual}._solve_linear_system", not problems and not und, not und, site(repo, fn), "x, *info = linalg_solve(A, b, **kwargs)",
               "; ".join(problems) or str(und[:1]), fn)
