"""C14 — chains are continuous, resumable from a checkpoint, and recorded faithfully.

Decided (structural, necessary conditions):
 R1 checkpoint payload ⊇ loop-carried attribute state of every concrete experimental sampler
 R2 recorded history is never reachable by an in-place write (experimental step/tune closure; legacy kernels' arguments)
 R3 loop shape: one transition, one record, one callback (with that state and its chain index) per iteration
 R4 configuration set by the constructor is not lost by reinitialize (config/state separation)
 R5 get_state/set_state/get_history/set_history/reinitialize/checkpoint cover exactly the key sets
 R6 initialisation-time randomness read by the sampling-phase step is part of the state
 R7 overriding initialisers perform every step of the base initialiser
 R8 legacy chains: x0 first, Ns = N + Nb columns, burn-in removed by the slice [:, Nb:]
"""
from __future__ import annotations
import ast
from typing import Dict, List, Optional, Set, Tuple

from ..index import Repo, ClassInfo, AnchorError, parents
from ..effects import SelfEffects, Summary
from ..alias import FnAlias
from ..cfg import CFG, path_of
from ..astutil import unparse, call_name, walk_no_nested, func_params, is_abstract, same_expr
from .common import (concrete_experimental_samplers, legacy_samplers, EXP_SAMPLER, LEG_SAMPLER, site, canon_fn, canon_keep, guarded,
                     top_level_index)

NONDET_CALL_SUFFIXES = ("estimate_spectral_norm", "rvs", "sample")
NONDET_PREFIXES = ("np.random.", "numpy.random.", "random.")

# (class name, attribute) -> reason.  Recognised exceptions of R1, each confirmed by reading.
R1_TABLE = {
    ("NUTS", "_current_alpha_ratio"):
        "written inside the doubling loop of step(), which runs at least once (s=1, j=0 <= max_depth, max_depth >= 0 "
        "enforced by the setter) before tune() reads it; the static must-write analysis cannot see the first iteration",
}


class OpaqueInit(SelfEffects):
    """Effect summaries for the *run phase*: the sampler is already initialised, so
    _ensure_initialized()/initialize() are no-ops (guarded by `if not self._is_initialized`)."""
    OPAQUE = {"_ensure_initialized", "initialize"}

    def resolve_self_method(self, name):
        if name in self.OPAQUE:
            return _NOOP
        return super().resolve_self_method(name)


_NOOP = ast.parse("def _noop(self):\n    pass\n").body[0]
from ..index import _set_parents as _sp
_sp(_NOOP)


def _backing_fields(repo, ci: ClassInfo, se: SelfEffects, key: str) -> Set[str]:
    p = ci.lookup_prop(key)
    if p is None or p.setter is None:
        return set()
    return set(se.summary(p.setter).may_w)


def _lazy_cache_attr(ci: ClassInfo, attr: str) -> Optional[str]:
    """attr is only ever written inside a property getter under `if self.attr is None` -> lazy default cache."""
    sites = []
    for c in ci.mro():
        for kind, name, fn in c.all_functions():
            for n in walk_no_nested(fn):
                if isinstance(n, (ast.Assign, ast.AugAssign, ast.AnnAssign)):
                    tgts = n.targets if isinstance(n, ast.Assign) else [n.target]
                    for t in tgts:
                        if path_of(t) == f"self.{attr}":
                            sites.append((c, kind, name, fn, n))
    getter_sites = [s for s in sites if s[1] == "getter"]
    if not getter_sites:
        return None
    for c, kind, name, fn, n in getter_sites:
        guarded = False
        for p in parents(n):
            if isinstance(p, ast.If):
                t = unparse(p.test).replace(" ", "")
                if t in (f"self.{attr}isNone", f"nothasattr(self,'{attr}')"):
                    guarded = True
            if p is fn:
                break
        if not guarded:
            return None
    return f"lazy default in getter {getter_sites[0][0].name}.{getter_sites[0][2]} guarded by `self.{attr} is None`"


def _r4_setters_rebind(chk, repo):
    """property setters of the experimental samplers RE-BIND the backing field: an in-place write (`self._scale[:] = v`, `self._f += v`) goes into the
    object the field currently holds - which may be the configured initial value (`initial_scale`) and is the object every earlier `get_state()` payload
    refers to - so `reinitialize()` no longer returns to the constructed configuration and saved states change after the fact"""
    from ..alias import FnAlias
    n, bad = 0, []
    for ci in repo.classes_in("cuqi/experimental/mcmc/"):
        for pname, p in ci.props.items():
            if p.setter is None:
                continue
            n += 1
            fa = FnAlias(p.setter)
            for root, node, a, kind in fa.mutated_roots():
                if root.startswith("self."):
                    bad.append((ci, pname, a, root, kind))
    for ci, pname, a, root, kind in bad:
        chk.fail("C14-R4", f"{ci.qual}.@{pname}=/in-place:{root}", site(repo, a),
                 f"the setter of `{pname}` writes into the object held in `{root}` ({kind}: `{unparse(a)[:60]}`) instead of re-binding the field: the configured "
                 f"value and every state saved earlier share that object, so reinitialize() / set_state() no longer restore what was configured / saved", a)
    if not bad:
        chk.ok("C14-R4", "cuqi/experimental/mcmc/*/setters-rebind", "", f"{n} property setters, none writes into the object its field holds")
    if n < 8:
        raise AnchorError(f"{n} property setters found in the experimental samplers, 9 confirmed by hand")


def run(chk, repo: Repo):
    chk.rule("C14-R1", "checkpoint payload (_STATE_KEYS ∪ _HISTORY_KEYS, property names mapped to backing fields) ⊇ "
                       "attributes written during the run and read before written by step (or by tune after step)", floor=12)
    chk.rule("C14-R2", "no in-place write reaches an object recorded in the chain history (experimental: the state "
                       "attribute appended by sample/warmup; legacy: arguments of single_update, which are views of the chain) nor, in cuqi/solver, an array handed to a solver", floor=16)
    chk.rule("C14-R3", "chain loops: per iteration exactly one transition, one record of the new state and one callback "
                       "with that state and its chain index, in this order; the loop is defined once (no concrete sampler replaces sample / warmup); "
                       "a sampler constructor that accepts **kwargs forwards them to its base constructor (callback, initial point)", floor=13)
    chk.rule("C14-R4", "state keys assigned from constructor parameters are re-derived by initialize/_initialize or "
                       "saved and restored around the reset in reinitialize; property setters re-bind their field and never write into the object it holds "
                       "(the configured initial value and earlier get_state() payloads share it)", floor=12)
    chk.rule("C14-R5", "get_state/set_state/get_history/set_history/reinitialize/load_checkpoint read resp. write exactly "
                       "the folded key sets; unknown keys are refused; read accessors write no attribute", floor=7)
    chk.rule("C14-R6", "attributes assigned during initialisation from a nondeterministic source and read by step are state keys", floor=12)
    chk.rule("C14-R7", "an overriding initialize performs every step of the base initialize; overriding reinitialize calls the base", floor=2)
    chk.rule("C14-R8", "legacy chains start with x0, have N+Nb columns and drop burn-in by the slice [:, Nb:]", floor=11)

    base = repo.cls(EXP_SAMPLER)
    samplers = concrete_experimental_samplers(repo)
    if len(samplers) < 12:
        raise AnchorError(f"found {len(samplers)} concrete experimental samplers, 12 confirmed by hand")

    # which state attribute is recorded in the history?  (from Sampler.sample: self._samples.append(self.<attr>))
    recorded = _recorded_attrs(repo, base)

    for ci in samplers:
        se = OpaqueInit(repo, ci)
        _r1(chk, repo, ci, se)
        _r2_experimental(chk, repo, ci, se, recorded)
        _r4(chk, repo, ci)
        _r6(chk, repo, ci)
    _r2_solvers(chk, repo)
    _r3_experimental(chk, repo, base, recorded)
    _r3_single_loop_definition(chk, repo, base, samplers)
    _r3_kwargs_forwarded(chk, repo, samplers)
    _r5_pure_accessors(chk, repo, base)
    _r5(chk, repo, base, samplers)
    _r7(chk, repo, base)
    _legacy(chk, repo)
    chk.rule("C14-R9", "both Gibbs samplers: every sweep is stored once; a continued run resumes from the last stored sample "
                       "(warm-up column only if no sample was ever stored); no effect outside the sweep loop [rule bodies shared with C09-R4]; "
                       "no call of an own method passes two identically named quantities (N, Nb) in each other's positions", floor=5)
    _r4_setters_rebind(chk, repo)
    from ..argswap import argswap_rule
    argswap_rule(chk, repo, "C14-R9", ("cuqi/sampler/", "cuqi/experimental/mcmc/"))
    from . import c09
    from .common import shadow
    shadow(chk, "C09-R4", "C14-R9", lambda c: (c09._hybrid(c, repo), c09._legacy(c, repo)))


# ------------------------------------------------------------------------------------------------ R1
def _r1(chk, repo, ci, se):
    step = se.method_summary("step")
    tune = se.method_summary("tune")
    run_w: Set[str] = set()
    for m in ("sample", "warmup"):
        s = se.method_summary(m)
        run_w |= s.may_w | s.mutates
    ue_seq = set(step.ue) | (set(tune.ue) - set(step.must_w))
    carried = ue_seq & run_w
    state = repo.fold_keys(ci, "_STATE_KEYS")
    hist = repo.fold_keys(ci, "_HISTORY_KEYS")
    payload = set(state | hist)
    covered = set(payload)
    for k in payload:
        covered |= _backing_fields(repo, ci, se, k)
    extra = sorted(carried - covered)
    inst = f"{ci.qual}"
    where = f"{ci.module.rel}:{ci.node.lineno}"
    bad = []
    for a in extra:
        if (ci.name, a) in R1_TABLE:
            chk.note(f"C14-R1 tabled exception {ci.name}.{a}: {R1_TABLE[(ci.name, a)]}")
            continue
        lz = _lazy_cache_attr(ci, a)
        if lz:
            chk.note(f"C14-R1 cache idiom {ci.name}.{a}: {lz}")
            continue
        bad.append(a)
    if bad:
        for a in bad:
            ws = step.sites.get(("ue", a), []) + tune.sites.get(("ue", a), [])
            w = f"{ws[0][0]}:{ws[0][1]}" if ws else where
            chk.fail("C14-R1", f"{inst}/{a}", w,
                     f"attribute '{a}' is written during the run and read before being written by step/tune, "
                     f"but is neither a state nor a history key: a checkpoint or a split run loses it",
                     f"carried={sorted(carried)} payload={sorted(payload)}")
    else:
        chk.ok("C14-R1", inst, where, f"carried={sorted(carried)} ⊆ payload={sorted(payload)}")


# ------------------------------------------------------------------------------------------------ R2
def _recorded_attrs(repo, base) -> Set[str]:
    out = set()
    for m in ("sample", "warmup"):
        fn = repo.method(base, m)[1]
        for c in ast.walk(fn):
            if isinstance(c, ast.Call) and call_name(c) in ("self._samples.append", "batch_handler.add_sample", "self._call_callback"):
                if c.args:
                    p = path_of(c.args[0])
                    if p and p.startswith("self."):
                        out.add(p[5:])
    if not out:
        raise AnchorError("Sampler.sample/warmup: no `self._samples.append(self.<attr>)` found")
    return out


def _closure_functions(repo, ci, se, roots: List[str]):
    """FunctionDefs reachable from the named methods through self-method / super calls and property accesses."""
    seen: Dict[int, Tuple[ClassInfo, ast.AST]] = {}
    work = []
    for r in roots:
        x = ci.lookup(r)
        if x is not None:
            work.append(x[1])
    while work:
        fn = work.pop()
        if id(fn) in seen or fn is _NOOP:
            continue
        seen[id(fn)] = fn
        for n in ast.walk(fn):
            if isinstance(n, ast.Call) and isinstance(n.func, ast.Attribute):
                bp = path_of(n.func.value)
                if bp == "self":
                    t = se.resolve_self_method(n.func.attr)
                    if t is not None:
                        work.append(t)
                elif isinstance(n.func.value, ast.Call) and call_name(n.func.value) == "super":
                    t = se.resolve_super_method(fn, n.func.attr)
                    if t is not None:
                        work.append(t)
            if isinstance(n, ast.Attribute) and path_of(n.value) == "self":
                p = ci.lookup_prop(n.attr)
                if p is not None:
                    if p.getter is not None:
                        work.append(p.getter)
                    if p.setter is not None and isinstance(n.ctx, ast.Store):
                        work.append(p.setter)
                if n.attr in se.closures:
                    work.append(se.closures[n.attr])
    return list(seen.values())


def _r2_experimental(chk, repo, ci, se, recorded):
    fns = _closure_functions(repo, ci, se, ["step", "tune"])
    bad = []
    nops = 0
    for fn in fns:
        if isinstance(fn, ast.Lambda):
            continue
        fa = FnAlias(fn)
        nops += len(fa.inplace_ops())
        for root, node, a, kind in fa.mutated_roots():
            if root.startswith("self.") and root[5:].split(".")[0] in recorded:
                bad.append((fn, root, node, a, kind))
            elif root.startswith("param:"):
                # a parameter mutated in place: violation if some caller in the closure passes a recorded attribute
                pname = root[6:]
                for caller in fns:
                    if isinstance(caller, ast.Lambda):
                        continue
                    for c in ast.walk(caller):
                        if isinstance(c, ast.Call) and call_name(c) == f"self.{fn.name}":
                            params = func_params(fn)[1:]
                            for i, arg in enumerate(c.args):
                                if i < len(params) and params[i] == pname:
                                    cfa = FnAlias(caller)
                                    cn = cfa.cfg.stmt_node_containing(c)
                                    if cn is not None:
                                        for r2 in cfa.roots(arg, cn):
                                            if r2.startswith("self.") and r2[5:].split(".")[0] in recorded:
                                                bad.append((fn, r2, node, a, kind + f" via {caller.name}->{fn.name}({pname})"))
    inst = f"{ci.qual}.step"
    if bad:
        for fn, root, node, a, kind in bad:
            chk.fail("C14-R2", f"{ci.qual}.{fn.name}/{root}", site(repo, a),
                     f"in-place {kind} on an object that may be {root}, which sample()/warmup() appended to the chain history: "
                     f"already recorded states would change", a)
    else:
        chk.ok("C14-R2", inst, f"{ci.module.rel}:{ci.node.lineno}",
               f"{len(fns)} functions in the step/tune closure, {nops} in-place operations, none may reach {sorted('self.'+r for r in recorded)}")


_R2_SOLVER_CONTROL = """
class S:
    def solve(self):
        x = self.x0.to_numpy()
        y = self.b.copy()
        x += 1
        y += 1
        return x
"""


def _r2_solvers(chk, repo):
    """The steps hand their state (current_point, which before the first transition IS the configured initial_point and after it the array recorded in
    the chain) to the solvers of cuqi/solver as start vector / right-hand side. No in-place write of solver code may reach an object that existed
    before the call (fields stored by the constructor, parameters): the iterate must live on a copy."""
    ctl = ast.parse(_R2_SOLVER_CONTROL).body[0].body[0]
    got = [r for r, *_ in FnAlias(ctl).mutated_roots()]
    if got != ["self.x0"]:
        raise AnchorError(f"C14-R2 solver positive control: expected exactly the write through the view of self.x0, got {got}")
    nfun = nops = 0
    for m in repo.modules.values():
        if not m.rel.startswith("cuqi/solver/"):
            continue
        repo.consulted[m.rel] = m.digest
        units = [(ci, fn) for ci in m.classes.values() for kind, name, fn in ci.all_functions() if name != "__init__"] + [(None, fn) for fn in m.functions.values()]
        for ci, fn in units:
            nfun += 1
            fa = FnAlias(fn, method_resolver=(lambda nm, _ci=ci: (_ci.lookup(nm) or (None, None))[1]) if ci is not None else None)
            nops += len(fa.inplace_ops())
            for root, node, a, kind in fa.mutated_roots():
                chk.fail("C14-R2", f"{m.rel}:{(ci.name + '.') if ci else ''}{fn.name}/{root}", site(repo, a),
                         f"in-place {kind} `{unparse(a)[:70]}` reaches `{root}`, an array the caller handed to the solver (samplers pass their current_point, "
                         f"which is the configured initial_point before the first transition and a recorded chain state afterwards): the iterate must be a copy", a)
    if nfun < 10:
        raise AnchorError(f"cuqi/solver: {nfun} functions analysed, at least 10 expected")
    chk.ok("C14-R2", "cuqi/solver/*", "cuqi/solver/_solver.py:1", f"{nfun} solver functions, {nops} in-place operations, none reaches a constructor-stored field or a parameter")


def _r3_single_loop_definition(chk, repo, base, samplers):
    """The chain loop (one transition, one record, one callback per iteration, each transition consuming the random stream on its own) is defined once, in
    the base class: no concrete sampler replaces sample() / warmup().  A sampler that fetches all its draws in one vectorised call consumes the stream per
    CALL, so sample(N); sample(M) differs from sample(N + M) and a restored checkpoint does not continue like the uninterrupted run."""
    for ci in samplers:
        for m in ("sample", "warmup"):
            owner = ci.lookup(m)
            ok = owner is not None and owner[0].qual == base.qual
            where = site(repo, owner[1]) if owner is not None else f"{ci.module.rel}:{ci.node.lineno}"
            chk.add("C14-R3", f"{ci.qual}.{m}/defined-by-base", ok, where, f"{m}() is the base class's chain loop",
                    f"{ci.name} replaces {m}() of the base sampler ({owner[0].qual if owner else 'missing'}): the chain-loop contract (per-iteration transition, record, callback, "
                    f"stream consumption independent of how a run is split) is no longer the one decided for the base class", owner[1] if owner else None)


def _r3_kwargs_forwarded(chk, repo, samplers):
    """The callback (and the other base-class options) reach the base constructor: a sampler constructor that collects `**kwargs` hands them to
    `super().__init__(..., **kwargs)`.  Otherwise a callback given to that sampler is accepted and never invoked."""
    n = 0
    for ci in samplers:
        for c in ci.mro():
            init = c.methods.get("__init__")
            if init is None or init.args.kwarg is None or c.qual.endswith(":Sampler"):
                continue
            kw = init.args.kwarg.arg
            sup = [x for x in ast.walk(init) if isinstance(x, ast.Call) and isinstance(x.func, ast.Attribute) and x.func.attr == "__init__"
                   and isinstance(x.func.value, ast.Call) and call_name(x.func.value) == "super"]
            ok = bool(sup) and all(any(k.arg is None and path_of(k.value) == kw for k in x.keywords) for x in sup)
            n += 1
            chk.add("C14-R3", f"{c.qual}.__init__/kwargs-forwarded", ok, site(repo, init), f"super().__init__(..., **{kw})",
                    f"{c.name}.__init__ collects **{kw} but does not pass them to the base constructor: `callback=` (and `initial_point=` ...) given to this sampler are "
                    f"silently dropped, the callback is never invoked for the states it produces", init)
    return n


def _r5_pure_accessors(chk, repo, base):
    """get_samples / get_state / get_history report the sampler, they do not change it: no attribute of self is written (a converted-samples cache kept on the
    sampler is not part of the history keys, so reinitialize() / set_history() leave it alive and a later get_samples() returns the previous run's chain)."""
    hg = repo.cls("cuqi/experimental/mcmc/_gibbs.py:HybridGibbs")
    for ci in (base, hg):
        se = OpaqueInit(repo, ci)
        for m in ("get_samples", "get_state", "get_history"):
            if ci.lookup(m) is None:
                continue
            sm = se.method_summary(m)
            w = sorted(sm.may_w | sm.mutates)
            fn = ci.lookup(m)[1]
            chk.add("C14-R5", f"{ci.qual}.{m}/pure", not w, site(repo, fn), "read accessor writes no attribute of the sampler",
                    f"{m}() writes {['self.' + x for x in w]}: state kept by a read accessor is outside the state / history key sets, so it survives reinitialize(), "
                    f"set_history() and load_checkpoint() and the accessor can report a chain that is not the recorded one", fn)


# ------------------------------------------------------------------------------------------------ R3
def _main_loop(fn) -> ast.For:
    loops = [n for n in fn.body if isinstance(n, ast.For)]
    if len(loops) != 1:
        raise AnchorError(f"{fn.name}: expected exactly one top-level for-loop, found {len(loops)}")
    return loops[0]


def _expand_in(fn, call, e):
    """`e` (an argument of `call` inside fn) with temporaries replaced by their definitions"""
    from ..flow import Expander
    ex = Expander(fn)
    n = ex.cfg.stmt_node_containing(call)
    return ex.expand(e, n) if n is not None else e


def _r3_experimental(chk, repo, base, recorded):
    from .common import canon_keep, canon_fn, guarded
    for m in ("sample", "warmup"):
        fn_src = repo.method(base, m)[1]
        # private helpers that merely group statements of the loop body are inlined; the building blocks the rule names are kept
        fn = canon_keep(repo, base, fn_src, keep={"step", "tune", "_call_callback", "_print_progress", "_ensure_initialized", "_pre_warmup", "_pre_sample",
                                                  "_create_Sample_object", "save_checkpoint", "_dump_samples", "_compute_sampler_info"})
        loop = _main_loop(fn)
        body = loop.body
        inst = f"{base.qual}.{m}"
        w = site(repo, loop)

        def tops(pred):
            hits = []
            for c in ast.walk(loop):
                if isinstance(c, ast.Call) and pred(c):
                    i = top_level_index(body, c)
                    direct = i is not None and not isinstance(body[i], (ast.If, ast.For, ast.While, ast.Try, ast.With))
                    hits.append((i, direct, c))
            return hits

        steps = tops(lambda c: call_name(c) == "self.step")
        recs = tops(lambda c: call_name(c) == "self._samples.append")
        cbs = tops(lambda c: call_name(c) == "self._call_callback")
        accs = tops(lambda c: call_name(c) == "self._acc.append")
        problems = []
        for nm, hits in (("self.step()", steps), ("self._samples.append", recs), ("self._call_callback", cbs), ("self._acc.append", accs)):
            if len(hits) != 1:
                problems.append(f"{nm} occurs {len(hits)} times in the loop body (expected exactly once)")
            elif not hits[0][1]:
                problems.append(f"{nm} is nested in a conditional/inner loop: not executed exactly once per iteration")
        if not problems:
            if not (steps[0][0] < recs[0][0] < cbs[0][0]):
                problems.append("order is not step -> record -> callback")
            rec_arg = recs[0][2].args[0] if recs[0][2].args else None
            cb = cbs[0][2]
            if rec_arg is None or path_of(rec_arg) not in {f"self.{r}" for r in recorded}:
                problems.append(f"recorded value {unparse(rec_arg)} is not the state attribute")
            if len(cb.args) != 2 or not same_expr(cb.args[0], rec_arg):
                problems.append(f"callback is not invoked with the recorded state: {unparse(cb)}")
            elif unparse(_expand_in(fn, cb, cb.args[1])).replace(" ", "") != "len(self._samples)-1":
                lv = loop.target.id if isinstance(loop.target, ast.Name) else None
                if isinstance(cb.args[1], ast.Name) and cb.args[1].id == lv:
                    problems.append(f"callback index `{lv}` counts the iterations of this call, not the position in the chain "
                                    f"(wrong after warm-up or a previous sample() call)")
                else:
                    raise AnchorError(f"{inst}: callback index expression `{unparse(cb.args[1])}` is not the known idiom len(self._samples)-1")
            if accs and accs[0][2].args and not (isinstance(accs[0][2].args[0], ast.Name)):
                problems.append("acceptance record is not the value returned by step")
            # the value returned by step is what is appended to _acc
            st_stmt = body[steps[0][0]]
            if not (isinstance(st_stmt, ast.Assign) and isinstance(st_stmt.targets[0], ast.Name)
                    and accs[0][2].args and path_of(accs[0][2].args[0]) == st_stmt.targets[0].id):
                problems.append("the value returned by step() is not what is appended to _acc")
        chk.add("C14-R3", inst, not problems, w, "step -> record(current state) -> callback(state, len(_samples)-1), once each per iteration",
                "; ".join(problems), loop)
    # the callback helper invokes the user callback exactly once
    cb = repo.method(base, "_call_callback")[1]
    calls = [c for c in ast.walk(cb) if isinstance(c, ast.Call) and call_name(c) == "self.callback"]
    ok = len(calls) == 1 and len(calls[0].args) == 2 and [path_of(a) for a in calls[0].args] == [p for p in func_params(cb)[1:3]]
    chk.add("C14-R3", f"{base.qual}._call_callback", ok, site(repo, cb), "forwards (sample, index) to the user callback once",
            f"_call_callback does not forward its two arguments to self.callback exactly once", cb)


# ------------------------------------------------------------------------------------------------ R4
def _init_assigned_from_params(repo, ci) -> Dict[str, ast.AST]:
    """attributes assigned in the __init__ chain of ci (super().__init__ followed)."""
    se = SelfEffects(repo, ci)
    out: Dict[str, ast.AST] = {}
    r = ci.lookup("__init__")
    if r is None:
        return out
    seen = set()
    work = [r[1]]
    while work:
        fn = work.pop()
        if id(fn) in seen:
            continue
        seen.add(id(fn))
        for n in walk_no_nested(fn):
            if isinstance(n, ast.Assign):
                for t in n.targets:
                    p = path_of(t)
                    if p and p.startswith("self.") and p.count(".") == 1:
                        out.setdefault(p[5:], n)
            if isinstance(n, ast.Call) and isinstance(n.func, ast.Attribute) and isinstance(n.func.value, ast.Call) \
                    and call_name(n.func.value) == "super" and n.func.attr == "__init__":
                t = se.resolve_super_method(fn, "__init__")
                if t is not None:
                    work.append(t)
    return out


def _saved_and_restored(repo, ci, key) -> bool:
    """reinitialize override: `v = self.key` dominates super().reinitialize(), `self.key = v` is dominated by it."""
    r = ci.lookup("reinitialize")
    if r is None:
        return False
    fn = r[1]
    g = CFG(fn)
    sup = None
    for n in g.nodes:
        if n.ast is not None and n.kind == "stmt":
            for c in ast.walk(n.ast):
                if isinstance(c, ast.Call) and isinstance(c.func, ast.Attribute) and c.func.attr == "reinitialize" \
                        and isinstance(c.func.value, ast.Call) and call_name(c.func.value) == "super":
                    sup = n
    if sup is None:
        return False
    from ..cfg import ReachingDefs
    rd = ReachingDefs(g)
    for n in g.nodes:
        a = n.ast
        if isinstance(a, ast.Assign) and len(a.targets) == 1 and path_of(a.targets[0]) == f"self.{key}" and isinstance(a.value, ast.Name):
            if not (g.dominates(sup, n) and sup.id != n.id):
                continue
            # must be on every normal path to exit
            if g.exit_reachable_avoiding(lambda x: x.id == n.id):
                continue
            defs = rd.reaching(n, a.value.id)
            ok = True
            for d in defs:
                dn = g.nodes[d]
                da = dn.ast
                if not (isinstance(da, ast.Assign) and path_of(da.value) == f"self.{key}" and g.dominates(dn, sup) and dn.id != sup.id):
                    ok = False
            if ok and defs:
                return True
    return False


def _r4(chk, repo, ci):
    state = repo.fold_keys(ci, "_STATE_KEYS")
    assigned = _init_assigned_from_params(repo, ci)
    se = SelfEffects(repo, ci)
    init = se.method_summary("initialize")
    inter = sorted(k for k in state if k in assigned)
    lost = []
    for k in inter:
        if k in init.must_w or (_backing_fields(repo, ci, se, k) and _backing_fields(repo, ci, se, k) <= init.must_w and ci.lookup_prop(k) is None):
            continue
        if _saved_and_restored(repo, ci, k):
            chk.note(f"C14-R4 {ci.name}.{k}: constructor-assigned state key saved and restored around super().reinitialize()")
            continue
        lost.append(k)
    inst = f"{ci.qual}"
    if lost:
        for k in lost:
            chk.fail("C14-R4", f"{inst}/{k}", site(repo, assigned[k]),
                     f"'{k}' is set from a constructor parameter and is a state key: reinitialize() resets every state key to None "
                     f"and neither initialize()/_initialize() re-derives it nor reinitialize() restores it, so the configured value is lost",
                     assigned[k])
    else:
        chk.ok("C14-R4", inst, f"{ci.module.rel}:{ci.node.lineno}",
               f"state keys assigned in the constructor chain: {inter or 'none'}; all re-derived by initialize or restored by reinitialize")


# ------------------------------------------------------------------------------------------------ R5
def _r5(chk, repo, base, samplers):
    se = SelfEffects(repo, base)
    for getter, setter, keyattr in (("get_state", "set_state", "_STATE_KEYS"), ("get_history", "set_history", "_HISTORY_KEYS")):
        gfn_src = repo.method(base, getter)[1]
        sfn_src = repo.method(base, setter)[1]
        gfn = canon_fn(repo, base, gfn_src, 3)       # a loop that fills the dict is the same comprehension
        sfn = canon_fn(repo, base, sfn_src, 1)
        # getter: a dict comprehension over self.<keyattr> reading getattr(self, key)
        ok_g = False
        for n in ast.walk(gfn):
            if isinstance(n, ast.DictComp) and len(n.generators) == 1 and path_of(n.generators[0].iter) == f"self.{keyattr}" \
                    and not n.generators[0].ifs:
                v = n.value
                if isinstance(v, ast.Call) and call_name(v) == "getattr" and path_of(v.args[0]) == "self" \
                        and path_of(v.args[1]) == path_of(n.generators[0].target) == path_of(n.key):
                    ok_g = True
        chk.add("C14-R5", f"{base.qual}.{getter}", ok_g, site(repo, gfn_src), f"reads every key of {keyattr} with getattr",
                f"{getter} does not read exactly the keys of {keyattr} (unfiltered comprehension over self.{keyattr} expected)", gfn_src)
        # setter: setattr only under `key in self.<keyattr>`, else raise; type check precedes
        g = CFG(sfn)
        sets = [n for n in g.nodes if n.ast is not None and n.kind == "stmt" and any(
            isinstance(c, ast.Call) and call_name(c) == "setattr" and path_of(c.args[0]) == "self" for c in ast.walk(n.ast))]
        ok_s = len(sets) == 1
        why = ""
        if ok_s:
            guards = g.guards_of(sets[0])
            sa_call = [c for c in ast.walk(sets[0].ast) if isinstance(c, ast.Call) and call_name(c) == "setattr"][0]
            kv = path_of(sa_call.args[1]) or "key"
            memb = [(t, lab) for t, lab in guards if (unparse(t.ast).replace(" ", "") == f"{kv}inself.{keyattr}" and lab == "T")
                    or (unparse(t.ast).replace(" ", "") == f"{kv}notinself.{keyattr}" and lab == "F")]
            if not memb:
                ok_s, why = False, f"setattr is not guarded by `key in self.{keyattr}`"
            else:
                t, lab_in = memb[0]
                # the other edge must lead to a raise, not to the next iteration
                other = "F" if lab_in == "T" else "T"
                falses = [m for m, lab in g.succ[t.id] if lab == other]
                if not falses or not all(g.nodes[m].kind == "raisestmt" for m in falses):
                    ok_s, why = False, "an unknown key is not refused with an error"
        else:
            why = f"expected exactly one setattr(self, key, value) in {setter}"
        # subclasses must not override
        overr = [c.qual for c in repo.subclasses(base) if getter in c.methods or setter in c.methods]
        if overr:
            ok_s, why = False, f"{getter}/{setter} overridden in {overr} (not analysed)"
        chk.add("C14-R5", f"{base.qual}.{setter}", ok_s, site(repo, sfn_src), f"writes only keys of {keyattr}, refuses others", why, sfn_src)
    # checkpoint uses the state pair; reinitialize resets both sets
    sc = repo.method(base, "save_checkpoint")[1]
    lc = repo.method(base, "load_checkpoint")[1]
    ok = any(isinstance(c, ast.Call) and call_name(c) == "self.get_state" for c in ast.walk(sc)) and \
        any(isinstance(c, ast.Call) and call_name(c) == "pkl.dump" and path_of(c.args[0]) == "state" for c in ast.walk(sc))
    chk.add("C14-R5", f"{base.qual}.save_checkpoint", ok, site(repo, sc), "pickles get_state()", "save_checkpoint does not pickle get_state()", sc)
    ok = any(isinstance(c, ast.Call) and call_name(c) == "self.set_state" for c in ast.walk(lc)) and \
        any(isinstance(c, ast.Call) and call_name(c) == "self._ensure_initialized" for c in ast.walk(lc))
    chk.add("C14-R5", f"{base.qual}.load_checkpoint", ok, site(repo, lc), "initialises, then set_state(pickle)", "load_checkpoint does not initialise and set_state", lc)
    for ci in samplers:
        se = SelfEffects(repo, ci)
        keys = repo.fold_keys(ci, "_STATE_KEYS") | repo.fold_keys(ci, "_HISTORY_KEYS")
        s = se.method_summary("reinitialize")
        w = set(s.may_w)
        missing = []
        for k in keys:
            bf = _backing_fields(repo, ci, se, k)
            if k not in w and not (bf and bf <= w):
                missing.append(k)
        chk.add("C14-R5", f"{ci.qual}.reinitialize", not missing, f"{ci.module.rel}:{ci.node.lineno}",
                "resets every state and history key", f"reinitialize does not reset {missing}")


# ------------------------------------------------------------------------------------------------ R6
def _is_nondet_call(c: ast.Call) -> bool:
    cn = call_name(c) or ""
    if cn.startswith(NONDET_PREFIXES):
        return True
    last = cn.split(".")[-1] if cn else (c.func.attr if isinstance(c.func, ast.Attribute) else "")
    if last in NONDET_CALL_SUFFIXES:
        return True
    if last == "_Kfun" and len(c.args) >= 2 and isinstance(c.args[1], ast.Constant) and c.args[1].value == "sample":
        return True
    return False


def _local_slice_has_nondet(fn, expr, se, depth=0) -> Optional[ast.AST]:
    """Flow-insensitive backward slice (data + control dependence on enclosing tests) of `expr` inside fn."""
    defs: Dict[str, List[Tuple[ast.AST, List[ast.AST]]]] = {}
    for n in walk_no_nested(fn):
        if isinstance(n, (ast.Assign, ast.AugAssign, ast.AnnAssign)):
            tgts = n.targets if isinstance(n, ast.Assign) else [n.target]
            ctrl = [p.test for p in parents(n) if isinstance(p, (ast.If, ast.While)) and _inside(fn, p)]
            for t in tgts:
                for el in ([t] if not isinstance(t, (ast.Tuple, ast.List)) else t.elts):
                    p = path_of(el)
                    if p and n.value is not None:
                        defs.setdefault(p, []).append((n.value, ctrl))
    seen: Set[str] = set()
    work = [expr]
    while work:
        e = work.pop()
        for c in ast.walk(e):
            if isinstance(c, ast.Call):
                if _is_nondet_call(c):
                    return c
                cn = call_name(c) or ""
                if cn.startswith("self.") and cn.count(".") == 1 and depth < 4:
                    t = se.resolve_self_method(cn[5:])
                    if t is not None and t is not fn:
                        for r in walk_no_nested(t):
                            if isinstance(r, ast.Return) and r.value is not None:
                                hit = _local_slice_has_nondet(t, r.value, se, depth + 1)
                                if hit is not None:
                                    return hit
            if isinstance(c, (ast.Name, ast.Attribute)):
                p = path_of(c)
                if p and p not in seen and p in defs:
                    seen.add(p)
                    for v, ctrl in defs[p]:
                        work.append(v)
                        work.extend(ctrl)
    return None


def _inside(fn, node) -> bool:
    for p in parents(node):
        if p is fn:
            return True
    return False


def _r6(chk, repo, ci):
    se = SelfEffects(repo, ci)
    run = OpaqueInit(repo, ci)
    step = run.method_summary("step")
    state = repo.fold_keys(ci, "_STATE_KEYS")
    covered = set(state)
    for k in state:
        covered |= _backing_fields(repo, ci, se, k)
    fns = _closure_functions(repo, ci, se, ["_initialize", "initialize"])
    bad, seen_attrs, observed = [], set(), []
    for fn in fns:
        if isinstance(fn, ast.Lambda):
            continue
        for n in walk_no_nested(fn):
            if isinstance(n, ast.Assign):
                for t in n.targets:
                    for el in ([t] if not isinstance(t, (ast.Tuple, ast.List)) else t.elts):
                        p = path_of(el)
                        if p and p.startswith("self.") and p.count(".") == 1:
                            attr = p[5:]
                            hit = _local_slice_has_nondet(fn, n.value, se)
                            if hit is None:
                                continue
                            seen_attrs.add(attr)
                            if attr in covered:
                                continue
                            if attr in step.ue:
                                bad.append((attr, n, hit))
                            else:
                                observed.append(attr)
    inst = f"{ci.qual}"
    if observed:
        chk.note(f"C14-R6 {ci.name}: initialisation-time random attributes not read by step (warm-up only / unused): {sorted(set(observed))}")
    if bad:
        for attr, n, hit in bad:
            chk.fail("C14-R6", f"{inst}/{attr}", site(repo, n),
                     f"'{attr}' is computed during initialisation from a nondeterministic source ({unparse(hit)[:60]}) and read by step(), "
                     f"but is not a state key: a freshly constructed sampler loading the checkpoint continues with a different value", n)
    else:
        chk.ok("C14-R6", inst, f"{ci.module.rel}:{ci.node.lineno}",
               f"initialisation-time random attributes {sorted(seen_attrs) or 'none'}; those read by step are state keys")


# ------------------------------------------------------------------------------------------------ R7
def _r7(chk, repo, base):
    base_init = repo.method(base, "initialize")[1]
    n = 0
    for ci in repo.subclasses(base):
        if "initialize" in ci.methods:
            n += 1
            se = SelfEffects(repo, ci)
            o = se.summary(ci.methods["initialize"])
            b = se.summary(base_init)
            missing = sorted(b.must_w - o.must_w)
            calls_o = {call_name(c) for c in ast.walk(ci.methods["initialize"]) if isinstance(c, ast.Call)}
            calls_b = {call_name(c) for c in ast.walk(base_init) if isinstance(c, ast.Call) and (call_name(c) or "").startswith("self.")}
            super_called = any("super" in (x or "") for x in calls_o) or any(
                isinstance(c, ast.Call) and isinstance(c.func, ast.Attribute) and c.func.attr == "initialize"
                and isinstance(c.func.value, ast.Call) and call_name(c.func.value) == "super" for c in ast.walk(ci.methods["initialize"]))
            miss_calls = [] if super_called else sorted(x for x in calls_b - calls_o if x not in ("self._get_default_initial_point",))
            # raises of the base (already initialised / no target) must be kept
            base_raises = sum(isinstance(x, ast.Raise) for x in ast.walk(base_init))
            o_raises = sum(isinstance(x, ast.Raise) for x in ast.walk(ci.methods["initialize"]))
            ok = not missing and not miss_calls and (super_called or o_raises >= base_raises)
            chk.add("C14-R7", f"{ci.qual}.initialize", ok, site(repo, ci.methods["initialize"]),
                    "override performs every write/call/refusal of Sampler.initialize",
                    f"override omits writes {missing}, calls {miss_calls}, raises {o_raises}/{base_raises}", ci.methods["initialize"])
        if "reinitialize" in ci.methods:
            n += 1
            fn = ci.methods["reinitialize"]
            sup = any(isinstance(c, ast.Call) and isinstance(c.func, ast.Attribute) and c.func.attr == "reinitialize"
                      and isinstance(c.func.value, ast.Call) and call_name(c.func.value) == "super" for c in ast.walk(fn))
            g = CFG(fn)
            always = False
            if sup:
                supn = [x for x in g.nodes if x.ast is not None and x.kind == "stmt" and "super().reinitialize()" in unparse(x.ast)]
                always = bool(supn) and not g.exit_reachable_avoiding(lambda x: x.id == supn[0].id)
            chk.add("C14-R7", f"{ci.qual}.reinitialize", sup and always, site(repo, fn), "calls super().reinitialize() on every path",
                    "override does not call super().reinitialize() on every path", fn)
    if n == 0:
        raise AnchorError("no initialize/reinitialize override found (ProposalBasedSampler.initialize, NUTS.reinitialize expected)")


# ------------------------------------------------------------------------------------------------ legacy (R2, R3, R8)
def _legacy_kernel_callers(chk, repo):
    """interprocedural part of R2 for the legacy interface: if SOME implementation of single_update writes into its i-th argument, then every method
    that calls self.single_update must hand it an object of its own at that position - never its caller's array (a parameter or an alias of one)."""
    mut = {}          # argument position -> [class names whose kernel writes into it]
    for ci in legacy_samplers(repo):
        fn = ci.methods.get("single_update")
        if fn is None:
            continue
        ps = func_params(fn)[1:]
        for r, n, a, k in FnAlias(fn).mutated_roots():
            if r.startswith("param:") and r != "param:self" and r[6:].split(".")[0] in ps:
                mut.setdefault(ps.index(r[6:].split(".")[0]), []).append(ci.name)
    ncall = 0
    for ci in repo.classes:
        if not ci.module.rel.startswith("cuqi/sampler/"):
            continue
        for mname, fn in ci.methods.items():
            calls = [c for c in ast.walk(fn) if isinstance(c, ast.Call) and call_name(c) == "self.single_update"]
            if not calls:
                continue
            fa = FnAlias(fn)
            for c in calls:
                ncall += 1
                cn = fa.cfg.stmt_node_containing(c)
                bad = []
                for pos, who in sorted(mut.items()):
                    if pos < len(c.args) and cn is not None:
                        rs = [r for r in fa.roots(c.args[pos], cn) if r.startswith("param:") and r != "param:self"]
                        if rs:
                            bad.append((rs[0][6:], who))
                chk.add("C14-R2", f"{ci.qual}.{mname}/single_update-argument", not bad, site(repo, c),
                        "the kernel is handed an array owned by this method",
                        f"`{unparse(c)[:70]}` passes the caller's own array `{bad[0][0] if bad else ''}` to single_update, which {bad[0][1] if bad else ''} update(s) in place: "
                        f"a state the caller still holds (e.g. the last column of a stored chain, from which a Gibbs continuation restarts) is overwritten by "
                        f"later transitions", c)
    if ncall < 4:
        raise AnchorError(f"{ncall} calls of self.single_update found in cuqi/sampler, at least 4 confirmed by hand")


def _legacy(chk, repo):
    _legacy_kernel_callers(chk, repo)
    base = repo.cls(LEG_SAMPLER)
    loops_checked = 0
    for ci in legacy_samplers(repo):
        # R2: kernels must not write into their arguments (views of the chain)
        for mname in ("single_update",):
            if mname in ci.methods:
                fn = ci.methods[mname]
                fa = FnAlias(fn)
                hits = [(r, n, a, k) for r, n, a, k in fa.mutated_roots() if r.startswith("param:") and r != "param:self"]
                if hits:
                    for r, n, a, k in hits:
                        chk.fail("C14-R2", f"{ci.qual}.{mname}/{r}", site(repo, a),
                                 f"in-place {k} on argument {r[6:]}: callers pass a view of the previous column of the chain "
                                 f"(samples[:, s]), so an already recorded state is overwritten", a)
                else:
                    chk.ok("C14-R2", f"{ci.qual}.{mname}", site(repo, fn), "no in-place operation may reach an argument")
        for mname in ("_sample", "_sample_adapt"):
            if mname not in ci.methods:
                continue
            fn = ci.methods[mname]
            loops = [n for n in fn.body if isinstance(n, ast.For)]
            if not loops:
                # delegation: return self._sample(N, Nb)
                rets = [n for n in fn.body if isinstance(n, ast.Return)]
                if len(rets) == 1 and isinstance(rets[0].value, ast.Call) and call_name(rets[0].value) == "self._sample":
                    continue
                raise AnchorError(f"{ci.qual}.{mname}: neither a chain loop nor a delegation to _sample")
            if len(loops) != 1:
                raise AnchorError(f"{ci.qual}.{mname}: {len(loops)} top-level loops")
            # as written, then with single-use temporaries (a named column index, a named bound) substituted
            from .common import best_of, canon_fn
            def cands(_ci=ci, _fn=fn):
                yield _fn
                try:
                    yield canon_fn(repo, _ci, _fn, 4)
                    # allocation / burn-in removal moved into private helpers: inlined again (the callback and progress helpers the rule names are kept)
                    from .common import canon_keep
                    keep = {"_call_callback", "_print_progress", "single_update", "_sample", "_sample_adapt", "tune", "step"}
                    yield canon_keep(repo, _ci, _fn, keep)
                    yield canon_keep(repo, _ci, _fn, keep, subst=True)
                except AnchorError:
                    raise
                except Exception:
                    return

            def on_view(t, v, _ci=ci):
                # normal forms nest the rest of a function under `if <refusal test>: raise ... else: <rest>`: the chain code is that rest
                from ..astutil import is_raise_only
                import copy as _copy
                body = list(v.body)
                while body and isinstance(body[-1], ast.If) and body[-1].orelse and (is_raise_only(body[-1].body) or is_raise_only(body[-1].orelse)):
                    last = body[-1]
                    body = body[:-1] + (last.orelse if is_raise_only(last.body) else last.body)
                if len(body) != len(v.body) or any(a is not b for a, b in zip(body, v.body)):
                    v2 = _copy.copy(v)
                    v2.body = body
                    v = v2
                lps = [n for n in v.body if isinstance(n, ast.For)]
                if len(lps) != 1:
                    raise AnchorError(f"{_ci.qual}.{v.name}: {len(lps)} top-level loops in view")
                _legacy_loop(t, repo, _ci, v, lps[0])
            best_of(chk, cands(), on_view)
            loops_checked += 1
    if loops_checked < 11:
        raise AnchorError(f"{loops_checked} legacy chain loops found, 11 confirmed by hand")
    # the user callback helper
    cb = repo.method(base, "_call_callback")[1]
    calls = [c for c in ast.walk(cb) if isinstance(c, ast.Call) and call_name(c) == "self.callback"]
    ok = len(calls) == 1 and len(calls[0].args) == 2
    chk.add("C14-R3", f"{base.qual}._call_callback", ok, site(repo, cb), "forwards (sample, index) once", "callback helper does not forward once", cb)


def _chain_col(e) -> Optional[Tuple[str, ast.expr]]:
    """A[:, idx] -> (A, idx)"""
    if isinstance(e, ast.Subscript) and isinstance(e.slice, ast.Tuple) and len(e.slice.elts) == 2 \
            and isinstance(e.slice.elts[0], ast.Slice) and e.slice.elts[0].lower is None and e.slice.elts[0].upper is None \
            and isinstance(e.value, ast.Name):
        return e.value.id, e.slice.elts[1]
    return None


def _legacy_loop(chk, repo, ci, fn, loop: ast.For):
    inst = f"{ci.qual}.{fn.name}"
    w = site(repo, loop)
    body = loop.body
    cbs = [c for c in ast.walk(loop) if isinstance(c, ast.Call) and call_name(c) == "self._call_callback"]
    problems = []
    chain = idx = None
    # the chain array: first column store A[:, e] in the loop body
    for n in ast.walk(loop):
        if isinstance(n, ast.Assign) and chain is None:
            for t in n.targets:
                for el in ([t] if not isinstance(t, (ast.Tuple, ast.List)) else t.elts):
                    c2 = _chain_col(el)
                    if c2 and chain is None:
                        chain, idx = c2
    if chain is None:
        raise AnchorError(f"{inst}: no column store A[:, i] in the chain loop")
    i_cb = None
    if len(cbs) != 1:
        problems.append(f"_call_callback occurs {len(cbs)} times in the chain loop (expected exactly once per produced state)")
    else:
        cb = cbs[0]
        i_cb = top_level_index(body, cb)
        if i_cb is None or isinstance(body[i_cb], (ast.If, ast.For, ast.While, ast.Try)):
            problems.append("_call_callback is nested in a conditional/inner loop")
        cc = _chain_col(cb.args[0]) if len(cb.args) == 2 else None
        if cc is None or cc[0] != chain:
            problems.append(f"callback is not invoked with a column of the chain {chain}: {unparse(cb)}")
        else:
            if not same_expr(cc[1], idx):
                problems.append(f"callback state column {unparse(cc[1])} is not the column {unparse(idx)} written by this iteration")
            if not same_expr(cc[1], cb.args[1]):
                problems.append(f"callback index {unparse(cb.args[1])} differs from the column index {unparse(cc[1])} of the state passed")
    if True:
        if True:
            # every store to chain[:, idx'] in the loop: same idx, and before the callback
            stores = []
            for n in ast.walk(loop):
                if isinstance(n, ast.Assign):
                    for t in n.targets:
                        for el in ([t] if not isinstance(t, (ast.Tuple, ast.List)) else t.elts):
                            c2 = _chain_col(el)
                            if c2 and c2[0] == chain:
                                stores.append((n, c2[1]))
            if not stores:
                problems.append(f"no store to {chain}[:, {unparse(idx)}] in the loop")
            for n, ix in stores:
                if not same_expr(ix, idx):
                    problems.append(f"store to column {unparse(ix)} but callback/record index is {unparse(idx)}")
                i_st = top_level_index(body, n)
                if i_cb is not None and i_st is not None and i_st >= i_cb:
                    problems.append("the chain column is written after the callback saw it")
            # loop bounds vs index: range(X-1) with idx = v+1, or range(1, X) with idx = v
            lv = loop.target.id if isinstance(loop.target, ast.Name) else None
            it = loop.iter
            bound = None
            if isinstance(it, ast.Call) and call_name(it) == "range":
                if len(it.args) == 1 and isinstance(it.args[0], ast.BinOp) and isinstance(it.args[0].op, ast.Sub) \
                        and isinstance(it.args[0].right, ast.Constant) and it.args[0].right.value == 1:
                    bound = unparse(it.args[0].left)
                    if unparse(idx).replace(" ", "") != f"{lv}+1":
                        problems.append(f"loop over range({bound}-1) but the new column index is {unparse(idx)} (expected {lv}+1)")
                elif len(it.args) == 2 and isinstance(it.args[0], ast.Constant) and it.args[0].value == 1:
                    bound = unparse(it.args[1])
                    if unparse(idx) != lv:
                        problems.append(f"loop over range(1, {bound}) but the new column index is {unparse(idx)}")
                else:
                    raise AnchorError(f"{inst}: unknown chain-loop range idiom {unparse(it)}")
            else:
                raise AnchorError(f"{inst}: chain loop does not iterate over range(...)")
            _legacy_r8(chk, repo, ci, fn, loop, chain, bound)
    chk.add("C14-R3", inst, not problems, w, f"one transition, column {chain}[:, {unparse(idx) if idx is not None else '?'}] stored, then one callback with it",
            "; ".join(problems), loop)


def _legacy_r8(chk, repo, ci, fn, loop, chain, bound):
    inst = f"{ci.qual}.{fn.name}"
    problems = []
    pre = fn.body[: fn.body.index(loop)]
    post = fn.body[fn.body.index(loop) + 1:]
    # x0 first
    first = [n for s in pre for n in ast.walk(s) if isinstance(n, ast.Assign) and any(
        (_chain_col(t) or (None, None))[0] == chain and unparse((_chain_col(t))[1]) == "0" for t in n.targets)]
    if not first or path_of(first[0].value) != "self.x0":
        problems.append(f"{chain}[:, 0] is not initialised with self.x0 before the loop")
    # allocation: np.empty((dim, bound)) and bound = N + Nb
    alloc = [n for s in pre for n in ast.walk(s) if isinstance(n, ast.Assign) and path_of(n.targets[0]) == chain
             and isinstance(n.value, ast.Call) and call_name(n.value) in ("np.empty", "np.zeros")]
    if not alloc:
        problems.append(f"no allocation of {chain} before the loop")
    else:
        shp = alloc[0].value.args[0]
        if not (isinstance(shp, ast.Tuple) and len(shp.elts) == 2 and unparse(shp.elts[1]) == bound):
            problems.append(f"{chain} is allocated with {unparse(shp)} columns but the loop runs to {bound}")
    bdef = [n for s in pre for n in ast.walk(s) if isinstance(n, ast.Assign) and path_of(n.targets[0]) == bound]
    params = func_params(fn)[1:3]
    direct_sum = len(params) == 2 and bound.replace(" ", "") in (f"{params[0]}+{params[1]}", f"{params[1]}+{params[0]}")     # the bound written out (substituted view)
    if not direct_sum and (not bdef or not (isinstance(bdef[0].value, ast.BinOp) and isinstance(bdef[0].value.op, ast.Add)
                                            and {path_of(bdef[0].value.left), path_of(bdef[0].value.right)} == set(params))):
        problems.append(f"number of chain columns {bound} is not {params[0]} + {params[1]}")
    # burn-in slice after the loop
    nb = params[1] if len(params) > 1 else "Nb"
    sl = [n for s in post for n in ast.walk(s) if isinstance(n, ast.Assign) and path_of(n.targets[0]) == chain
          and isinstance(n.value, ast.Subscript) and path_of(n.value.value) == chain]
    okslice = False
    for n in sl:
        s = n.value.slice
        if isinstance(s, ast.Tuple) and len(s.elts) == 2 and isinstance(s.elts[0], ast.Slice) and s.elts[0].lower is None \
                and s.elts[0].upper is None and isinstance(s.elts[1], ast.Slice) and path_of(s.elts[1].lower) == nb \
                and s.elts[1].upper is None and s.elts[1].step is None:
            okslice = True
    rets = [n for n in fn.body if isinstance(n, ast.Return)]
    first_ret = None
    if rets:
        first_ret = rets[-1].value.elts[0] if isinstance(rets[-1].value, ast.Tuple) and rets[-1].value.elts else rets[-1].value

    def is_burn_slice(e):
        if not (isinstance(e, ast.Subscript) and path_of(e.value) == chain):
            return False
        s_ = e.slice
        return isinstance(s_, ast.Tuple) and len(s_.elts) == 2 and isinstance(s_.elts[0], ast.Slice) and s_.elts[0].lower is None \
            and s_.elts[0].upper is None and isinstance(s_.elts[1], ast.Slice) and path_of(s_.elts[1].lower) == nb \
            and s_.elts[1].upper is None and s_.elts[1].step is None
    folded = first_ret is not None and is_burn_slice(first_ret)          # `return chain[:, Nb:], ...` (slice folded into the return)
    if not okslice and not folded:
        problems.append(f"burn-in is not removed by {chain} = {chain}[:, {nb}:]")
    if not rets or not (path_of(first_ret) == chain or folded):
        problems.append(f"the chain {chain} is not the (first) returned value")
    chk.add("C14-R8", inst, not problems, site(repo, fn), f"{chain}[:,0]=x0, {bound}={'+'.join(params)} columns, burn-in slice [:, {nb}:]",
            "; ".join(problems), fn)
