"""C17 — shipped test problems are internally consistent (provenance inside the constructors).

 R1 provenance: exactData is the model applied to the value stored as exactSolution; the data derive from that exact data
    (additive noise) or are a sample of the data distribution built on the same model and conditioned on the same exact
    solution; the likelihood/prior handed to BayesianProblem are the ones built from that model and those data
 R2 the noise level is used consistently: standard deviation for the draw, its square for the likelihood covariance;
    for the data-distribution form the stated noise_std enters as noise_std**2 / (exact data * noise_std)**2 by noise type
 R3 column assembly: a matrix assembled from an operator applied to unit vectors has F(e_i) in column i
 R4 option dispatch: noise-type / boundary-condition chains end in a refusal
 R5 get_components returns (model, data, info) of the same problem
"""
from __future__ import annotations
import ast
from typing import Dict, List, Optional

from ..index import Repo, AnchorError
from ..cfg import path_of
from ..astutil import unparse, call_name, func_params, walk_no_nested
from .common import site

TP = "cuqi/testproblem/_testproblem.py"
CLASSES = ["Deconvolution1D", "Deconvolution2D", "Poisson1D", "Heat1D", "Abel1D", "WangCubic"]


def _norm(e) -> str:
    from .common import vstr
    return vstr(e)


def _defs(fn) -> Dict[str, List[ast.Assign]]:
    out: Dict[str, List[ast.Assign]] = {}
    for n in walk_no_nested(fn):
        if isinstance(n, ast.Assign) and len(n.targets) == 1:
            p = path_of(n.targets[0])
            if p:
                out.setdefault(p, []).append(n)
    return out


def run(chk, repo: Repo):
    chk.rule("C17-R1", "exactData = model(exactSolution); data from that exact data / from the data distribution on the same model; likelihood and prior passed on are built from them", floor=6)
    chk.rule("C17-R2", "noise level: std for the draw, std**2 for the covariance; noise-type branches use noise_std consistently", floor=5)
    chk.rule("C17-R3", "unit-vector assembly puts F(e_i) in column i; the assembled matrix reaches the LinearModel unmodified (no entry filtered or overwritten in between)", floor=1)
    chk.rule("C17-R4", "noise-type and boundary-condition chains refuse unknown values", floor=3)
    chk.rule("C17-R5", "get_components returns (self.model, self.data, info filled from self)", floor=1)
    chk.rule("C17-R6", "PSF sample grids are centred on the kernel origin: for both parities of the size N the grid is N consecutive integers with "
                       "its zero at index N // 2 (the origin of scipy's convolve1d and of the padded 'valid' convolution); the defocus support is the closed disc (mask d2 > R**2)", floor=7)
    _r6(chk, repo)
    _r6_defocus_support(chk, repo)
    chk.rule("C17-R7", "optional arguments of the shipped problems (data, noise level, sizes, ...) are defaulted with `is None`, never by truthiness "
                       "(0 / 0.0 are legal observations and parameters)", floor=1)
    from ..truthy import truthy_default_rule
    truthy_default_rule(chk, repo, "C17-R7", ("cuqi/testproblem/",))
    chk.rule("C17-R8", "the noise of a shipped problem is a fresh draw from the caller's random stream: no library routine on the way (phantoms, signals, models, "
                       "geometries, distributions) re-seeds or replaces the global random state", floor=20)
    from ..rngseed import global_rng_rule
    global_rng_rule(chk, repo, "C17-R8", ("cuqi/",))
    for cname in CLASSES:
        ci = repo.cls(f"{TP}:{cname}")
        init = repo.method(ci, "__init__")[1]
        def _cands(_ci=ci, _init=init):
            yield _init
            # the data distribution built by a module-level helper shared by sibling problems: that helper (one whose every result is a distribution
            # constructor call) is inlined again, all other module functions stay calls
            from .common import canon_keep
            mod = repo.mod(TP)
            builders = {nm for nm, f_ in mod.functions.items()
                        if [r_ for r_ in ast.walk(f_) if isinstance(r_, ast.Return) and r_.value is not None]
                        and all(isinstance(r_.value, ast.Call) and (call_name(r_.value) or "").startswith("cuqi.distribution.")
                                for r_ in ast.walk(f_) if isinstance(r_, ast.Return) and r_.value is not None)}
            if builders:
                yield canon_keep(repo, _ci, _init, set(mod.functions) - builders)
            # ... or the noise added by a module-level helper shared by sibling problems: every private helper inlined
            yield canon_keep(repo, _ci, _init, set())
        from .common import best_of
        best_of(chk, _cands(), lambda t, v, _ci=ci: _provenance(t, repo, _ci, v))
    _r3(chk, repo)
    _r4(chk, repo)
    _r4_modes(chk, repo)
    bp = repo.cls("cuqi/problem/_problem.py:BayesianProblem")
    gc = repo.method(bp, "get_components")[1]
    from .common import match, stmts
    b = None
    for loop_pats in (["for: ($k,$v) : vars($pi).items()", "if: hasattr(self,$k)", "setattr($pi,$k,vars(self)[$k])"],
                      ["for: $k : vars($pi)", "if: hasattr(self,$k)", "setattr($pi,$k,vars(self)[$k])"],
                      ["for: $k : vars($pi).keys()", "if: hasattr(self,$k)", "setattr($pi,$k,vars(self)[$k])"],
                      ["$own=vars(self)", "for: $k : vars($pi)", "if: hasattr(self,$k)", "setattr($pi,$k,$own[$k])"],
                      ["$own=vars(self)", "for: ($k,$v) : vars($pi).items()", "if: hasattr(self,$k)", "setattr($pi,$k,$own[$k])"]):
        b = b or match(repo, bp, gc, ["$pi=ProblemInfo()"] + loop_pats + ["return (self.model,self.data,$pi)"])
    ok = b is not None
    rec = any(t.startswith("return") for t, _ in stmts(repo, bp, gc))
    chk.decide("C17-R5", f"{bp.qual}.get_components", ok, rec, site(repo, gc), "(self.model, self.data, info from self's attributes of the same names)",
            "get_components does not hand out the problem's own model, data and info", gc)


def _provenance(chk, repo, ci, init):
    D = _defs(init)
    inst = f"{ci.qual}.__init__"
    sup = [n for n in walk_no_nested(init) if isinstance(n, ast.Call) and isinstance(n.func, ast.Attribute) and n.func.attr == "__init__"
           and isinstance(n.func.value, ast.Call) and call_name(n.func.value) == "super"]
    if len(sup) != 1:
        raise AnchorError(f"{inst}: super().__init__ call not found")
    sup = sup[0]
    es = D.get("self.exactSolution", [])
    ed = D.get("self.exactData", [])
    if len(es) != 1 or len(ed) != 1:
        raise AnchorError(f"{inst}: exactSolution/exactData stores not found")
    X, Y = _norm(es[0].value), _norm(ed[0].value)
    problems, p2 = [], []
    if ci.name == "WangCubic":
        # no exact solution shipped; data is a constant or user data
        dd = D.get("data_dist", [])
        ok = len(dd) == 1 and _norm(dd[0].value) == "cuqi.distribution.Gaussian(model(prior),noise_std**2,name='y')" and \
            [_norm(x.value) for x in D.get("likelihood", [])] == ["data_dist.to_likelihood(data)"] and _norm(sup) == "super().__init__(likelihood,prior)" \
            and X == "None" and Y == "None"
        chk.add("C17-R1", inst, ok, site(repo, init), "likelihood = Gaussian(model(prior), noise_std**2).to_likelihood(data); passed with the prior",
                "WangCubic wiring of model, data distribution, likelihood and prior changed", init)
        # the forward map and its Jacobian as handed to the Model constructor: nested functions of __init__, or (static) methods of the class
        from .common import closed_outcomes, expected_text
        want = {"forward": lambda x: f"10*{x}[1]-10*{x}[0]**3+5*{x}[0]**2+6*{x}[0]", "jacobian": lambda x: f"np.array([[-30*{x}[0]**2+10*{x}[0]+6,10]])"}
        mcall = [c for c in ast.walk(init) if isinstance(c, ast.Call) and (call_name(c) or "").endswith("Model")]
        roles = {}
        if len(mcall) == 1:
            if mcall[0].args:
                roles["forward"] = mcall[0].args[0]
            for k_ in mcall[0].keywords:
                if k_.arg in ("forward", "jacobian"):
                    roles[k_.arg] = k_.value
        jac = []
        for role, e_ in roles.items():
            d_ = None
            if isinstance(e_, ast.Name):
                d_ = next((n for n in ast.walk(init) if isinstance(n, ast.FunctionDef) and n.name == e_.id), None)
            elif isinstance(e_, ast.Attribute) and path_of(e_.value) in ("self", ci.name, "type(self)") and ci.lookup(e_.attr) is not None:
                d_ = ci.lookup(e_.attr)[1]
            if d_ is not None:
                jac.append((role, d_))
        ok = len(jac) == 2
        for role, d_ in jac:
            ps_ = func_params(d_)
            is_static = any(unparse(dc) == "staticmethod" for dc in d_.decorator_list)
            x_ = (ps_[0] if (is_static or d_ not in ci.methods.values()) else ps_[1]) if ps_ else "x"
            outs = closed_outcomes(repo, ci, d_)
            ok = ok and outs == {("return", expected_text(want[role](x_)))}
        chk.add("C17-R2", inst + "/cubic", ok, site(repo, init), "forward 10 x2 - 10 x1^3 + 5 x1^2 + 6 x1 with its Jacobian", "cubic model or its Jacobian changed", init)
        return
    # exact data = model applied to the exact solution
    ydefs = [_norm(d.value) for d in D.get(Y, [])]
    okf = {f"model.forward({X})", f"model.forward({X},is_par=False)", f"model@{X}", f"model({X})"}
    if not ydefs or any(v not in okf for v in ydefs):
        problems.append(f"exact data `{Y}` is {ydefs}, not the model applied to the stored exact solution `{X}`")
    # is_par flag must match how the exact solution was wrapped
    xw = [_norm(d.value) for d in D.get(X, []) if isinstance(d.value, ast.Call) and call_name(d.value) == "CUQIarray"]
    funform = any("is_par=False" in v for v in xw)
    if funform and ydefs and any("is_par=False" not in v for v in ydefs):
        problems.append("exact solution is stored as function values but the forward call treats it as parameters")
    # data
    # the value of `data`, with temporaries (noise = ...; data = y + noise) replaced by their definitions down to the named quantities
    from .common import assigned_values
    ddefs = [v.replace(" ", "") for v in assigned_values(repo, ci, init, "data", stop=frozenset({Y, X, "sigma", "data_dist", "model"}))]
    formA = [v for v in ddefs if v == f"{Y}+np.random.normal(0,sigma,{Y}.shape)"]
    formB = [v for v in ddefs if v == f"data_dist({X}).sample()"]
    if len(ddefs) != 1 or not (formA or formB):
        problems.append(f"data is {ddefs}: neither exact data + N(0, sigma) nor a sample of the data distribution conditioned on the exact solution")
    if formA:
        if [_norm(d.value) for d in D.get("sigma", [])] != [f"np.linalg.norm({Y})/SNR"]:
            p2.append("noise std is not ||exact data|| / SNR")
        # the data distribution with the variance temporary replaced by its definition: Gaussian(model, sigma*sigma)
        ydist = [v.replace(" ", "") for v in assigned_values(repo, ci, init, "y", stop=frozenset({Y, X, "sigma", "model", "x"}))]
        accepted = {f"cuqi.distribution.Gaussian({m_},{v_})" for m_ in ("model", "model(x)") for v_ in ("sigma*sigma", "sigma**2")}
        if len(ydist) == 1 and ydist[0].startswith("cuqi.distribution.Gaussian(model") and ydist[0] not in accepted:
            p2.append("likelihood variance is not sigma squared")
        elif len(ydist) != 1 or ydist[0] not in accepted:
            problems.append(f"data distribution is {ydist}, not Gaussian(model, sigma**2) on the model that produced the exact data")
        if _norm(sup) != "super().__init__(y,x,y=data)":
            problems.append(f"BayesianProblem is initialised with `{unparse(sup)}`, not (y, x, y=data)")
        xd = [_norm(d.value) for d in D.get("x", [])]
        if xd != ["cuqi.distribution.Gaussian(np.zeros(model.domain_dim),1)"]:
            problems.append(f"prior is {xd}")
    if formB:
        dd = D.get("data_dist", [])
        covs = []
        for d in dd:
            v = d.value
            if not (isinstance(v, ast.Call) and call_name(v) == "cuqi.distribution.Gaussian" and _norm(v.args[0]) == "model(prior)"):
                problems.append(f"data distribution `{unparse(v)[:70]}` is not a Gaussian on model(prior)")
            else:
                covs.append(_norm(v.args[1]))
        if sorted(covs) != sorted(["noise_std**2", f"({Y}*noise_std)**2"]):
            p2.append(f"noise covariances by noise type are {covs}, expected noise_std**2 (gaussian) and ({Y}*noise_std)**2 (scaledgaussian)")
        if [_norm(x.value) for x in D.get("likelihood", [])] != ["data_dist.to_likelihood(data)"]:
            problems.append("likelihood is not data_dist.to_likelihood(data) (same distribution and data)")
        if _norm(sup) != "super().__init__(likelihood,prior)":
            problems.append(f"BayesianProblem is initialised with `{unparse(sup)}`")
        info = [_norm(d.value) for d in D.get("self.infoString", [])]
        if not info or "noise_std" not in info[0]:
            p2.append("info string does not report the noise level")
    # one model variable
    mdefs = D.get("model", [])
    if not mdefs:
        problems.append("no `model` defined")
    for nm in ("model",):
        later = [d for d in mdefs if d.lineno > min(x.lineno for x in D.get(Y, es))]
        if later:
            problems.append("the model is redefined after the exact data were generated")
    chk.add("C17-R1", inst, not problems, site(repo, init), f"exactData {Y} = model({X}); data and likelihood built from them", "; ".join(problems), init)
    chk.add("C17-R2", inst + "/noise", not p2, site(repo, init), "noise level enters the draw and the likelihood consistently", "; ".join(p2), init)


def _r3(chk, repo):
    """the matrix handed to the LinearModel in the convolve1d branch, with every temporary replaced by its definition (structural normal form:
    a loop that collects the columns is the same comprehension)"""
    from .common import canon_fn
    from ..flow import Expander
    from ..pattern import norm as pn
    ci = repo.cls(f"{TP}:Deconvolution1D")
    init_src = repo.method(ci, "__init__")[1]
    init = canon_fn(repo, ci, init_src, 1)
    ex = Expander(init)
    OP = "_getConvolutionOperator(dim,PSF,PSF_param,PSF_size,BC)"
    I = "np.eye(dim)"
    cands = []
    for n in ex.cfg.nodes:
        if n.kind == "stmt" and isinstance(n.ast, ast.Assign) and isinstance(n.ast.targets[0], ast.Name):
            e = pn(ex.expand(n.ast.value, n))
            if pn(OP) in e and e.startswith("csc_matrix("):
                cands.append((n, e))
    if len(cands) != 1:
        raise AnchorError("Deconvolution1D: assembly of A from Afun not found")
    n, e = cands[0]
    inner = e[len("csc_matrix("):-1] if e.startswith("csc_matrix(") and e.endswith(")") else e
    comp = f"[{OP}({I}[:,_k0]) for _k0 in range(dim)]"
    accepted = [pn(x) for x in (f"np.array({comp}).T", f"np.column_stack({comp})", f"np.stack({comp},axis=1)",
                                f"np.array([{OP}({I}[_k0,:]) for _k0 in range(dim)]).T", f"np.array([{OP}({I}[_k0]) for _k0 in range(dim)]).T")]
    rowwise = [pn(x) for x in (f"np.array({comp})", f"{OP}({I})", f"np.vstack({comp})")]
    Aname = n.ast.targets[0].id
    if inner in accepted:
        chk.ok("C17-R3", f"{ci.qual}.__init__/A", site(repo, init_src), "column i = Afun(e_i)", n.ast)
    elif inner in rowwise:
        chk.fail("C17-R3", f"{ci.qual}.__init__/A", site(repo, init_src),
                 f"`{unparse(n.ast)[:120]}` places the image of the i-th unit vector in ROW i (the 1-D convolution acts along the last axis): the model is the "
                 f"transpose of the documented convolution; identical only for symmetric PSFs with periodic/zero boundary", n.ast)
    else:
        raise AnchorError(f"Deconvolution1D: unknown assembly idiom `{inner[:120]}`")
    # ... and the assembled matrix reaches the model as assembled: no entry of it is overwritten in between (`A[mask] = 0` to "drop negligible entries"
    # removes every negative entry unless the mask takes absolute values; any thresholding changes the operator for signed kernels)
    from ..alias import FnAlias
    fa = FnAlias(init)
    touched = [(r_, a_) for r_, n_, a_, k_ in fa.mutated_roots() if False] + \
              [(unparse(b_), a_) for n_, a_, b_, k_ in fa.inplace_ops() if isinstance(b_, ast.Name) and b_.id == Aname]
    chk.add("C17-R3", f"{ci.qual}.__init__/A-unmodified", not touched, site(repo, touched[0][1]) if touched else site(repo, init_src), "the assembled matrix is not written into",
            f"`{unparse(touched[0][1])[:80] if touched else ''}` overwrites entries of the assembled operator before it is handed to the model: forward, exactData and data belong "
            f"to a different kernel than the documented one (all negative entries of a signed PSF are dropped by a threshold without abs())", touched[0][1] if touched else init_src)
    md = [pn(x.ast.value) for x in ex.cfg.nodes if x.kind == "stmt" and isinstance(x.ast, ast.Assign) and path_of(x.ast.targets[0]) == "model"]
    ok = bool(md) and all(m == pn(f"cuqi.model.LinearModel({Aname},range_geometry=Continuous1D(dim),domain_geometry=Continuous1D(dim))") for m in md)
    chk.add("C17-R3", f"{ci.qual}.__init__/model", ok, site(repo, init_src), "LinearModel on the assembled matrix with Continuous1D geometries", "model construction changed", init_src)


def _string_chain(node: ast.If):
    """[(subject, literal)] for an if/elif chain of string equality tests; returns (tests, final_else_body)"""
    tests = []
    cur = node
    while True:
        t = cur.test
        ok = isinstance(t, ast.Compare) and len(t.ops) == 1 and isinstance(t.ops[0], ast.Eq) and isinstance(t.comparators[0], ast.Constant) \
            and isinstance(t.comparators[0].value, str)
        if not ok:
            return None
        tests.append((_norm(t.left), t.comparators[0].value))
        if len(cur.orelse) == 1 and isinstance(cur.orelse[0], ast.If):
            cur = cur.orelse[0]
            continue
        return tests, cur.orelse


def _r4(chk, repo):
    """Option dispatch, path-sensitively: in every function of the module, each expression S (after replacing locals by their definitions) that is compared
    with string literals - `S == 'a'`, `S in ('a', 'b')`, `S in TABLE` for a module-level literal table - is an option subject. For the subjects that
    select the noise model / boundary condition, a value matching none of the literals must end in a raise: from every test on S, following only the
    out-edges a non-matching value takes at the tests on S (any edge at other tests), the function's normal exit is not reachable."""
    from ..flow import Expander
    from ..pattern import norm as pn
    from .common import lit_test_any, literal_collections
    m = repo.mod(TP)
    consts = literal_collections(m.tree)
    n = 0
    from ..index import enclosing_class
    fns = [f for f in ast.walk(m.tree) if isinstance(f, ast.FunctionDef)]
    for ef in fns:
        ec = enclosing_class(ef)
        if ec is not None and ec.name.startswith("_"):
            continue
        if any(isinstance(p_, ast.FunctionDef) for p_ in _parents(ef)):
            continue
        ex = Expander(ef)
        g = ex.cfg
        subj = {}
        for t in g.tests():
            try:
                e = ex.expand(t.ast, t)
            except Exception:
                e = t.ast
            r = lit_test_any(e, consts)
            if r is None or not all(isinstance(v, str) for v in r[1]):
                continue
            subj.setdefault(pn(r[0]), []).append((t, r[1], r[2]))
        where = f"{(ec.name + '.') if ec else ''}{ef.name}"
        for S, tests in sorted(subj.items()):
            lits = sorted({v for _, ls, _ in tests for v in ls})
            if len(lits) < 2:
                continue
            # edges a value outside all literals cannot take
            avoid = {(t.id, "T" if pos else "F") for t, ls, pos in tests}
            refuses = all(g.exit.id not in g.reachable_from([t.id], avoid_edges=avoid) for t, _, _ in tests)
            if S.startswith(("noise_type", "BC", "bnd", "mode")):
                n += 1
                chk.add("C17-R4", f"{TP}:{where}/chain({S})", refuses, f"{m.rel}:{tests[0][0].ast.lineno}", f"options {lits} else refuse",
                        f"option dispatch on `{S}` ({lits}) does not refuse an unknown value: a value matching none of them reaches the end of the function", tests[0][0].ast)
            else:
                chk.note(f"C17-R4 {where}: option dispatch on `{S}` {lits} {'refuses' if refuses else 'does not refuse'} other values")
    if n < 3:       # 4 on the pinned tree; the two deconvolution problems may share one noise-type dispatch
        raise AnchorError(f"{n} noise-type/boundary dispatches found, at least 3 expected (4 on the pinned tree)")


def _r4_modes(chk, repo):
    """boundary condition -> scipy.ndimage mode, as a table: for every accepted BC literal the path through _getConvolutionOperator is followed and the
    value bound to `mode` when the operator is returned is read off (a module-level literal table is looked up). The translation must be the documented
    one; scipy's synonyms are accepted (grid-constant = constant, grid-wrap = wrap, grid-mirror = REFLECT; `mirror` has no synonym)."""
    from .common import canon_fn, case_valuation, literal_collections, literal_dicts, case_domain, OTHER
    from ..pathtable import walk_paths
    from ..pattern import norm as pn
    m = repo.mod(TP)
    fn = repo.func(f"{TP}:_getConvolutionOperator")
    bc = func_params(fn)[4]
    v = canon_fn(repo, None, fn, 1, rel=TP)
    consts, dicts = literal_collections(m.tree), literal_dicts(m.tree)
    SAME = {"constant": {"constant", "grid-constant"}, "wrap": {"wrap", "grid-wrap"}, "reflect": {"reflect", "grid-mirror"}, "mirror": {"mirror"}, "nearest": {"nearest"}}
    WANT = {"zero": "constant", "periodic": "wrap", "mirror": "mirror", "reflect": "reflect", "nearest": "nearest"}
    problems, und, seen = [], [], 0
    for lit, target in WANT.items():
        val = case_valuation(v, f"{bc}.lower()", lit, consts)
        modes = set()
        for kind, res in walk_paths(v, val, pn, limit=256):
            if kind in ("unknown", "loop"):
                und.append(str(res)[:100])
            elif kind == "return":
                e = getattr(res, "_env", {}).get("mode")
                if isinstance(e, ast.Subscript) and isinstance(e.value, ast.Name) and e.value.id in dicts:
                    e = dicts[e.value.id].get(lit)
                elif isinstance(e, ast.Subscript) and isinstance(e.value, ast.Dict) and all(isinstance(k_, ast.Constant) for k_ in e.value.keys):
                    e = {k_.value: x_ for k_, x_ in zip(e.value.keys, e.value.values)}.get(lit)      # table written in place
                modes.add(e.value if isinstance(e, ast.Constant) else (pn(e) if e is not None else None))
        if not modes:
            problems.append(f"BC='{lit}' never reaches the operator")
            continue
        seen += 1
        bad = [x for x in modes if x not in SAME[target]]
        if bad:
            problems.append(f"BC='{lit}' is translated to mode {bad} (scipy: {', '.join(sorted(SAME[target]))} expected"
                            f"{'; grid-mirror is the synonym of reflect, not of mirror' if 'grid-mirror' in bad else ''})")
    chk.decide("C17-R4", f"{TP}:_getConvolutionOperator/mode-table", not problems and not und, bool(problems) or not und, site(repo, fn),
               "zero->constant, periodic->wrap, mirror->mirror, reflect->reflect, nearest->nearest", "; ".join(problems or und[:2]), fn)


def _parents(node):
    cur = getattr(node, "_parent", None)
    while cur is not None:
        yield cur
        cur = getattr(cur, "_parent", None)


# ------------------------------------------------------------------------------------------------ R6
PSF_BUILDERS = ("_createPSF_1D", "_DefocusPSF_1D", "_GaussPSF", "_MoffatPSF", "_DefocusPSF")
SIZE_NAMES = {"PSF_size", "dim", "m", "n"}


def _r6(chk, repo):
    """Abstract evaluation (sa/parity.py: N = 2k + p, affine forms in k per parity case) of every integer sample grid of the PSF builders."""
    from .common import best_of, canon_fn
    for fname in PSF_BUILDERS:
        src = repo.func(f"{TP}:{fname}")

        def cands(_src=src):
            yield _src
            from ..canon import set_parents
            yield set_parents(canon_fn(repo, None, _src, 2, rel=TP))       # module-level private helpers (shared grid builders) inlined
        best_of(chk, cands(), lambda t, v, _f=fname: _r6_on(t, repo, _f, v))


def _r6_on(chk, repo, fname, fn):
    from ..parity import evaluate, Aff, Range
    if True:
        # single-definition locals are inlined
        defs = {}
        for s in ast.walk(fn):
            if isinstance(s, ast.Assign) and len(s.targets) == 1 and isinstance(s.targets[0], ast.Name):
                defs.setdefault(s.targets[0].id, []).append(s.value)
        env = {k: v[0] for k, v in defs.items() if len(v) == 1 and k not in SIZE_NAMES}
        sizes = SIZE_NAMES & ({a.arg for a in fn.args.args} | set(defs) | {t.id for s in ast.walk(fn) if isinstance(s, ast.Assign)
                                                                              for t in ast.walk(s.targets[0]) if isinstance(t, ast.Name)})
        found = 0
        seen = set()
        for node in ast.walk(fn):
            if not isinstance(node, (ast.BinOp, ast.Call)):
                continue
            if not any(isinstance(c, ast.Call) and (path_of(c.func) or "").endswith("arange") for c in ast.walk(_inline(node, env))):
                continue
            vals = [evaluate(node, sizes, p, env) for p in (0, 1)]
            if not all(isinstance(v, Range) for v in vals):
                continue
            par = getattr(node, "_parent", None)
            if isinstance(par, (ast.BinOp, ast.Call)) and all(isinstance(evaluate(par, sizes, p, env), Range) for p in (0, 1)):
                continue                      # not maximal
            if isinstance(par, ast.Assign) and isinstance(par.targets[0], ast.Name) and par.targets[0].id in env \
                    and _used_only_in_ranges(fn, par.targets[0].id, sizes, env, evaluate, Range):
                continue                      # an intermediate (e.g. k = arange(1, N+1)) that is only used shifted
            key = unparse(node)
            if key in seen:
                continue
            seen.add(key)
            found += 1
            problems = []
            for p, v in zip((0, 1), vals):
                if not (v.length == Aff(2, p)):
                    problems.append(f"{'odd' if p else 'even'} N: {v.length} points instead of N")
                elif not (v.first == Aff(-1, 0)):
                    off = (v.first - Aff(-1, 0))
                    problems.append(f"{'odd' if p else 'even'} N: the grid starts at {v.first} (k = N // 2), so its zero sits at index N//2{float(-off.b):+g} "
                                    f"instead of N // 2")
            chk.add("C17-R6", f"{TP}:{fname}/grid@{key[:50]}", not problems, site(repo, node), "N points, zero at index N // 2 for even and odd N",
                    f"`{key}`: " + "; ".join(problems) + ": the PSF is displaced against the kernel origin, i.e. the blur also shifts the signal", node)
        if found == 0:
            raise AnchorError(f"{fname}: no integer sample grid recognised")


def _r6_defocus_support(chk, repo):
    """The out-of-focus PSF is constant on the CLOSED disc / interval of radius R around the kernel centre: lattice points at distance exactly R belong to
    the support.  Decided on the comparison against the radius in both builders (siblings must agree): the mask of zeroed pixels is strict (`d2 > R**2`),
    or, written for the support, inclusive (`d2 <= R**2`)."""
    n = 0
    for fname in ("_DefocusPSF_1D", "_DefocusPSF"):
        fn = repo.func(f"{TP}:{fname}")
        R = fn.args.args[1].arg

        def is_radius(e):
            if isinstance(e, ast.Name) and e.id == R:
                return True
            if isinstance(e, ast.BinOp) and isinstance(e.op, ast.Pow) and isinstance(e.left, ast.Name) and e.left.id == R:
                return True
            if isinstance(e, ast.BinOp) and isinstance(e.op, ast.Mult) and all(isinstance(x, ast.Name) and x.id == R for x in (e.left, e.right)):
                return True
            return False
        # single-definition aliases of the squared radius (r2 = R**2)
        alias = {s.targets[0].id for s in ast.walk(fn) if isinstance(s, ast.Assign) and len(s.targets) == 1 and isinstance(s.targets[0], ast.Name) and is_radius(s.value)}
        cmps = []
        for c in ast.walk(fn):
            if not (isinstance(c, ast.Compare) and len(c.ops) == 1):
                continue
            l, r, op = c.left, c.comparators[0], c.ops[0]
            lr = is_radius(l) or (isinstance(l, ast.Name) and l.id in alias)
            rr = is_radius(r) or (isinstance(r, ast.Name) and r.id in alias)
            if lr == rr or isinstance(op, (ast.Eq, ast.NotEq, ast.Is, ast.IsNot)):
                continue
            # orient: distance OP radius
            o = type(op) if rr else {ast.Gt: ast.Lt, ast.Lt: ast.Gt, ast.GtE: ast.LtE, ast.LtE: ast.GtE}[type(op)]
            cmps.append((c, o))
        if not cmps:
            raise AnchorError(f"{fname}: no comparison of the pixel distance against the radius `{R}` found")
        for c, o in cmps:
            n += 1
            chk.add("C17-R6", f"{TP}:{fname}/support@{o.__name__}", o in (ast.Gt, ast.LtE), site(repo, c), "points at distance exactly R belong to the support (mask d2 > R**2)",
                    f"`{unparse(c)}` puts the lattice points at distance exactly {R} outside the support: for every radius whose square is a sum of two integer squares "
                    f"(all integer radii) the disc loses its boundary pixels and the normalised PSF, the model and the data belong to a smaller blur", c)
    return n


def _inline(node, env):
    from ..flow import clone
    class T(ast.NodeTransformer):
        def __init__(self):
            self.depth = 0
        def visit_Name(self, n):
            if n.id in env and self.depth < 4:
                self.depth += 1
                r = self.visit(clone(env[n.id]))
                self.depth -= 1
                return r
            return n
    return T().visit(clone(node))


def _used_only_in_ranges(fn, name, sizes, env, evaluate, Range) -> bool:
    uses = [n for n in ast.walk(fn) if isinstance(n, ast.Name) and n.id == name and isinstance(n.ctx, ast.Load)]
    if not uses:
        return False
    for u in uses:
        par = getattr(u, "_parent", None)
        if not (isinstance(par, ast.BinOp) and all(isinstance(evaluate(par, sizes, p, env), Range) for p in (0, 1))):
            return False
    return True
