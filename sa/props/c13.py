"""C13 — geometry maps are mutually inverse and act column-wise on batches (structural clauses).

 R1 conversion table of CUQIarray (Samples: see C19-R5): convert exactly when not already in the requested representation,
    with the geometry's map, and flag the result accordingly
 R2 both directions together: a class that defines par2fun defines fun2par in the same class (inverse or refusal), so that no
    identity fun2par is inherited by accident; wrappers forward both directions to the wrapped geometry
 R3 symmetric options: Image2D par2fun/fun2par (and their helpers) both honour `order` and `visual_only`; Continuous2D uses the
    default order in both directions; batch form: trailing -1 axis and squeeze in both directions
 R4 StepExpansion: consecutive intervals use complementary comparisons on the same boundary expressions (first interval closed)
 R5 keyed caches: when a lazily cached attribute is re-validated against some key, every mutable quantity the cached
    expression reads must be covered by that validity test
 R6 the expansion geometries reshape their input to (shape, n) with the shared helpers and squeeze the result
"""
from __future__ import annotations
import ast
from typing import Dict, List, Optional, Set

from ..index import Repo, ClassInfo, AnchorError
from ..cfg import CFG, path_of
from ..astutil import unparse, call_name, func_params, strip_docstring, walk_no_nested
from .common import site

GEO = "cuqi/geometry/_geometry.py"


def _norm(e) -> str:
    from .common import vstr
    return vstr(e)


def run(chk, repo: Repo):
    chk.rule("C13-R1", "CUQIarray.funvals/parameters convert exactly when needed, with the geometry's map, and set the flag", floor=2)
    chk.rule("C13-R2", "par2fun and fun2par are defined together; wrappers forward both", floor=9)
    chk.rule("C13-R3", "Image2D/Continuous2D: both directions use the same storage order and batch convention; Image2D vec2fun/fun2vec agree with par2fun/fun2par for either value of visual_only", floor=4)
    chk.rule("C13-R4", "StepExpansion intervals: complementary comparisons on identical boundary expressions; both directions (par2fun, fun2par) index / iterate "
                       "the SAME stored node partition", floor=1)
    chk.rule("C13-R5", "keyed lazy caches validate every mutable input of the cached expression", floor=2)
    chk.rule("C13-R6", "expansion geometries: shared input reshaping helpers and squeeze in both directions", floor=4)
    _r1(chk, repo)
    from . import c19
    from .common import best_of
    _ShadowRule(chk, "C19-R5", "C13-R1").run(lambda c: best_of(c, (1, 2), lambda t, lvl: c19._r5(t, repo, repo.cls(c19.S), lvl)))
    _r2(chk, repo)
    _r3(chk, repo)
    _r4(chk, repo)
    _r4_one_partition(chk, repo)
    _r5(chk, repo)
    _r6(chk, repo)
    chk.rule("C13-R7", "a geometry whose par2fun post-processes the wrapped geometry's function values (user map) reports the shape of ITS OWN function "
                       "values: fun_shape / funvec_shape resolve to the probing implementation, not to a delegation to the wrapped geometry", floor=1)
    _r7(chk, repo)
    chk.rule("C13-R8", "geometry maps act column-wise on a batch of vectors: every NumPy reduction inside par2fun / fun2par / vec2fun / fun2vec (and the private "
                       "helpers they call) names the axis it reduces - a reduction without axis collapses the whole batch into one number", floor=1)
    _r8(chk, repo)


_REDUCTIONS = {"mean", "max", "min", "sum", "amax", "amin", "median", "prod", "std", "var", "nanmean", "nanmax", "nanmin", "nansum", "ptp"}
_R8_CONTROL = """
class G:
    def fun2par(self, f):
        pick = np.max
        a = pick(f[self.idx, :], axis=0)
        b = f[self.idx, :].max()
        c = np.mean(f[self.idx, :])
        d = max(len(f), 3)
        return a, b, c, d
"""


def _r8_scan(fn):
    """(call, has_axis) for every reduction call in fn: np.<red>(x, ...), x.<red>(...), or a local bound to such a function"""
    aliases = set()
    for st in ast.walk(fn):
        if isinstance(st, ast.Assign) and len(st.targets) == 1 and isinstance(st.targets[0], ast.Name):
            v = st.value
            if isinstance(v, ast.Attribute) and v.attr in _REDUCTIONS and path_of(v.value) in ("np", "numpy"):
                aliases.add(st.targets[0].id)
    out = []
    for c in ast.walk(fn):
        if not isinstance(c, ast.Call):
            continue
        f = c.func
        kw_axis = any(k.arg == "axis" for k in c.keywords)
        if isinstance(f, ast.Attribute) and f.attr in _REDUCTIONS:
            if path_of(f.value) in ("np", "numpy"):
                out.append((c, kw_axis or len(c.args) >= 2))
            elif not (isinstance(f.value, ast.Name) and f.value.id in ("self", "math")):
                out.append((c, kw_axis or len(c.args) >= 1))
        elif isinstance(f, ast.Name) and f.id in aliases:
            out.append((c, kw_axis or len(c.args) >= 2))
    return out


def _r8(chk, repo):
    ctl = ast.parse(_R8_CONTROL).body[0].body[0]
    got = [(unparse(c)[:20], ok) for c, ok in _r8_scan(ctl)]
    if [ok for _, ok in got] != [True, False, False]:
        raise AnchorError(f"C13-R8 positive control did not fire as expected: {got}")
    n = 0
    m = repo.modules[GEO]
    for ci in m.classes.values():
        work = [ci.methods[k] for k in ("par2fun", "fun2par", "vec2fun", "fun2vec") if k in ci.methods]
        seen = set()
        while work:
            fn = work.pop()
            if id(fn) in seen:
                continue
            seen.add(id(fn))
            for c in ast.walk(fn):
                if isinstance(c, ast.Call) and (call_name(c) or "").startswith("self._") and (call_name(c) or "").count(".") == 1:
                    r = ci.lookup(call_name(c)[5:])
                    if r is not None:
                        work.append(r[1])
            for c, ok in _r8_scan(fn):
                n += 1
                chk.add("C13-R8", f"{ci.qual}.{fn.name}/reduction@{unparse(c.func)[:30]}", ok, site(repo, c), "reduction names its axis",
                        f"`{unparse(c)[:70]}` reduces without an axis inside a geometry map: for a batch of function-value columns every column receives the "
                        f"reduction over the whole batch, so the map no longer acts column-wise (fun2par(batch) != column-wise fun2par)", c)
    return n


def _r7(chk, repo):
    from .common import closed_outcomes
    from ..pattern import norm as pn
    base = repo.cls(f"{GEO}:Geometry")
    n = 0
    for ci in [base] + repo.subclasses(base):
        r = ci.lookup("par2fun")
        if r is None or r[0] is not ci:
            continue
        outs = closed_outcomes(repo, ci, r[1])
        rets = [t for k, t in outs if k == "return"]
        p = func_params(r[1])[1] if len(func_params(r[1])) > 1 else None
        inner = pn(f"self.geometry.par2fun({p})") if p else None
        post = [t for t in rets if inner and inner in t and t != inner]
        if not post:
            continue            # not a wrapper that transforms the wrapped function values
        n += 1
        for prop in ("fun_shape", "funvec_shape"):
            pr = ci.lookup_prop(prop)
            probing = pr is not None and pr.getter is not None and any(isinstance(c, ast.Call) and (call_name(c) or "") in ("self.par2fun", "self.fun2vec") for c in ast.walk(pr.getter))
            chk.add("C13-R7", f"{ci.qual}.@{prop}", probing, site(repo, pr.getter) if pr is not None and pr.getter is not None else "",
                    "shape obtained from the geometry's own par2fun",
                    f"`{ci.name}.par2fun` returns `{post[0][:60]}` (the wrapped function values passed through a map that may change their shape), but "
                    f"`{prop}` does not probe that map: it reports the wrapped geometry's shape, so fun_dim, Samples.funvals and CUQIarray.funvals disagree "
                    f"with what par2fun returns", pr.getter if pr is not None else None)
    if n < 1:
        raise AnchorError("no wrapping geometry with a post-processing par2fun found (MappedGeometry expected)")


class _ShadowRule:
    """run another property's rule function but record its obligations under this property's rule id"""

    def __init__(self, chk, src, dst):
        self.chk, self.src, self.dst = chk, src, dst

    def run(self, fn):
        before = len(self.chk.obligations)
        fn(self.chk)
        for o in self.chk.obligations[before:]:
            if o.rule == self.src:
                o.rule = self.dst


def _ct(t):
    from ..pattern import norm as pn
    from ..canon import _SymOrder
    try:
        return pn(_SymOrder().visit(ast.parse(t, mode="eval").body))
    except SyntaxError:
        return pn(t)          # not an expression (e.g. a nested def substituted for its name): compared as text, equal to no expected expression


def _r1(chk, repo):
    """CUQIarray.funvals / parameters as decision tables over the representation flag (and the object-dtype special case)"""
    from .common import canon_fn
    from ..pathtable import walk
    from ..pattern import norm as pn
    ca = repo.cls("cuqi/array/_array.py:CUQIarray")
    # an array cannot notice in-place changes of its own entries (x *= 3, x[1] = ...): a conversion result remembered on the array would go stale
    for pname in ("funvals", "parameters"):
        gt = ca.props[pname].getter
        stores = sorted({path_of(t) for a_ in ast.walk(gt) if isinstance(a_, (ast.Assign, ast.AugAssign))
                         for t in (a_.targets if isinstance(a_, ast.Assign) else [a_.target]) if (path_of(t) or "").startswith("self.")})
        stores += [f"setattr(self, ...)" for c_ in ast.walk(gt) if isinstance(c_, ast.Call) and call_name(c_) in ("setattr", "object.__setattr__") and c_.args and path_of(c_.args[0]) == "self"]
        chk.add("C13-R1", f"{ca.qual}.@{pname}/no-memo", not stores, site(repo, gt), "conversion result is not remembered on the array",
                f"`{pname}` stores {stores} on the array: the entries of an ndarray can be changed in place without any hook, so the remembered conversion "
                f"no longer belongs to the array's values after `x *= 3` or `x[1] = ...` (forward models then act on the old values)", gt)
    f = ca.props["funvals"].getter
    v = canon_fn(repo, ca, f, 2)
    problems, und = [], []
    for par in (True, False):
        val = {}
        for k_, b_ in ((("self.is_par is True", "self.is_par", "self.is_par==True", "self.is_par is not False", "self.is_par!=False"), par), (("self.is_par is False", "not self.is_par", "self.is_par is not True", "self.is_par==False", "self.is_par!=True"), not par)):
            for k in k_:
                val[_ct(k)] = b_
        conv = "self.geometry.par2fun(self)" if par else "self"
        val[_ct(f"isinstance({conv},np.ndarray)")] = True
        val[_ct(f"{conv}.dtype==np.dtype('O')")] = False
        kind, res = walk(v, val, pn)
        if kind != "return":
            und.append((kind, res))
        elif _ct(unparse(res)) != _ct(f"type(self)({conv},is_par=False,geometry=self.geometry)"):
            problems.append(f"[is_par={par}] returns `{unparse(res)[:100]}`")
    chk.decide("C13-R1", f"{ca.qual}.@funvals", not problems and not und, not und, site(repo, f), "parameters -> geometry.par2fun; function values unchanged; result flagged is_par=False",
               "CUQIarray.funvals conversion table changed: " + "; ".join(problems), f)
    p = ca.props["parameters"].getter
    v = canon_fn(repo, ca, p, 2)
    problems, und = [], []
    for par in (True, False):
        val = {}
        for k_, b_ in ((("self.is_par is False", "not self.is_par", "self.is_par==False", "self.is_par is not True", "self.is_par!=True"), not par), (("self.is_par is True", "self.is_par", "self.is_par==True", "self.is_par is not False", "self.is_par!=False"), par)):
            for k in k_:
                val[_ct(k)] = b_
        val[_ct("self.dtype==np.dtype('O')")] = False
        kind, res = walk(v, val, pn)
        conv = "self" if par else "self.geometry.fun2par(self)"
        if kind != "return":
            und.append((kind, res))
        elif _ct(unparse(res)) != _ct(f"type(self)({conv},is_par=True,geometry=self.geometry)"):
            problems.append(f"[is_par={par}] returns `{unparse(res)[:100]}`")
    chk.decide("C13-R1", f"{ca.qual}.@parameters", not problems and not und, not und, site(repo, p), "function values -> geometry.fun2par; parameters unchanged; result flagged is_par=True",
               "CUQIarray.parameters conversion table changed: " + "; ".join(problems), p)


def _r2(chk, repo):
    n = 0
    for ci in repo.modules[GEO].classes.values():
        if "par2fun" in ci.methods:
            n += 1
            ok = "fun2par" in ci.methods
            chk.add("C13-R2", f"{ci.qual}", ok, f"{GEO}:{ci.node.lineno}", "par2fun and fun2par defined in the same class",
                    f"{ci.name} overrides par2fun but inherits fun2par from {[c.name for c in ci.mro()[1:] if 'fun2par' in c.methods][:1]}: "
                    f"the inherited map is not the inverse of the new par2fun", ci.methods["par2fun"])
    if n < 9:
        raise AnchorError(f"{n} classes define par2fun, 9 confirmed by hand")
    mg = repo.cls(f"{GEO}:MappedGeometry")
    from .common import canon_fn
    from ..pathtable import walk
    from ..pattern import norm as pn

    def ret(name, val):
        fn_ = mg.methods[name]
        a0 = func_params(fn_)[1]
        k_, r_ = walk(canon_fn(repo, mg, fn_, 2), {_ct(k): b for k, b in val.items()}, pn)
        return a0, k_, (_ct(unparse(r_)) if k_ == "return" else None)
    HAS = {"self.imap is None": False, "self.imap is not None": True}
    NOT = {"self.imap is None": True, "self.imap is not None": False}
    a, k1, r1 = ret("par2fun", {})
    ok = k1 == "return" and r1 == _ct(f"self.map(self.geometry.par2fun({a}))")
    a, k2, r2 = ret("fun2par", HAS)
    ok = ok and k2 == "return" and r2 == _ct(f"self.geometry.fun2par(self.imap({a}))")
    a, k3, r3 = ret("fun2par", NOT)
    ok = ok and k3 == "raise"
    a, k4, r4 = ret("fun2vec", {})
    ok = ok and k4 == "return" and r4 == _ct(f"self.geometry.fun2vec({a})")
    a, k5, r5 = ret("vec2fun", {})
    ok = ok and k5 == "return" and r5 == _ct(f"self.geometry.vec2fun({a})")
    chk.add("C13-R2", f"{mg.qual}/forwarding", ok, f"{GEO}:{mg.node.lineno}", "par2fun = map∘inner.par2fun, fun2par = inner.fun2par∘imap (refused without imap), vec maps forwarded",
            "MappedGeometry does not compose the map with the wrapped geometry's maps in inverse order", mg.node)


def _reshape_calls(fn):
    return [c for c in ast.walk(fn) if isinstance(c, ast.Call) and isinstance(c.func, ast.Attribute) and c.func.attr in ("reshape", "ravel", "flatten")]


def _r3(chk, repo):
    im = repo.cls(f"{GEO}:Image2D")
    # closure of par2fun / fun2par / vec maps over self-calls
    roots = ["par2fun", "fun2par", "vec2fun", "fun2vec"]
    seen, work = {}, [im.methods[r] for r in roots if r in im.methods]
    while work:
        f = work.pop()
        if f.name in seen:
            continue
        seen[f.name] = f
        for c in ast.walk(f):
            if isinstance(c, ast.Call) and (call_name(c) or "").startswith("self.") and (call_name(c) or "").count(".") == 1:
                r = im.methods.get(call_name(c)[5:])
                if r is not None:
                    work.append(r)
    nres = 0
    for name, f in seen.items():
        for c in _reshape_calls(f):
            nres += 1
            kw = {k.arg: _norm(k.value) for k in c.keywords}
            chk.add("C13-R3", f"{im.qual}.{name}/{c.func.attr}", kw.get("order") == "self.order", site(repo, c), "storage order honoured",
                    f"`{unparse(c)[:70]}` ignores the geometry's storage order (order=self.order): with order='F' the two directions of the map use "
                    f"different pixel orders, so fun2par(par2fun(p)) != p and adjoints built on them are wrong", c)
    if nres < 2:
        raise AnchorError("Image2D: reshape/ravel calls not found")
    from .common import canon_fn, views
    from ..pathtable import walk
    from ..pattern import norm as pn
    for d in ("par2fun", "fun2par"):
        f = im.methods[d]
        kind, res = walk(canon_fn(repo, im, f, 1), {"self.visual_only": True}, pn)
        ok = kind == "return" and pn(res) == func_params(f)[1]
        chk.decide("C13-R3", f"{im.qual}.{d}/visual_only", ok, kind != "unknown", site(repo, f), "identity when visual_only", f"{d} does not honour visual_only", f)
    # the function-vector representation of an image IS its parameter vector (funvec_shape == par_shape): vec2fun / fun2vec give, for either
    # value of visual_only, what par2fun / fun2par give (delegations through the class's own methods are followed)
    def outcome(name, val, level, depth=0):
        f = im.lookup(name)[1] if im.lookup(name) else None
        if f is None or depth > 4:
            return None
        kind, res = walk(canon_fn(repo, im, f, level), {"self.visual_only": val}, pn)
        if kind != "return":
            return None
        x = func_params(f)[1]
        if isinstance(res, ast.Call) and (call_name(res) or "").startswith("self.") and len(res.args) == 1 and not res.keywords \
                and path_of(res.args[0]) == x and im.lookup(call_name(res)[5:]) is not None and call_name(res)[5:] in ("par2fun", "fun2par", "vec2fun", "fun2vec"):
            return outcome(call_name(res)[5:], val, level, depth + 1)
        class _R(ast.NodeTransformer):
            def visit_Name(self, n):
                return ast.copy_location(ast.Name("_x", n.ctx), n) if n.id == x else n
        import copy as _c
        return pn(_R().visit(_c.deepcopy(res)))
    fv = im.lookup_prop("funvec_shape")
    same_rep = fv is not None and fv.getter is not None and any(isinstance(r, ast.Return) and pn(r.value) in ("self.par_shape", "self._par_shape") for r in ast.walk(fv.getter))
    if same_rep:
        for a, b_ in (("vec2fun", "par2fun"), ("fun2vec", "fun2par")):
            if a not in im.methods:
                continue
            rows = []
            for v in (True, False):
                best = (None, None)
                for level in (1, 2):          # helpers kept, then helpers inlined: equal in either view is equal
                    x, y = outcome(a, v, level), outcome(b_, v, level)
                    if x is not None and y is not None and (best[0] is None or x == y):
                        best = (x, y)
                    if x is not None and x == y:
                        break
                rows.append((v,) + best)
            rec = all(r[1] is not None and r[2] is not None for r in rows)
            bad = [f"visual_only={v}: {a} gives `{x}`, {b_} gives `{y}`" for v, x, y in rows if x != y or x is None]
            chk.decide("C13-R3", f"{im.qual}.{a}/agrees-with-{b_}", not bad, rec, site(repo, im.methods[a]),
                       f"{a} == {b_} for visual_only in (True, False) (function vectors are parameter vectors)",
                       f"{'; '.join(bad)}: the vector form of a function value no longer has the reported fun_shape / funvec_shape for that option", im.methods[a])
    c2 = repo.cls(f"{GEO}:Continuous2D")
    p2f, f2p = c2.methods["par2fun"], c2.methods["fun2par"]
    xa, xb = func_params(p2f)[1], func_params(f2p)[1]
    ok = f"return {xa}.reshape(self.fun_shape+(-1,)).squeeze()" in views(repo, c2, p2f) and f"return {xb}.reshape((self.par_dim,-1)).squeeze()" in views(repo, c2, f2p)
    chk.add("C13-R3", f"{c2.qual}/reshape-pair", ok, site(repo, p2f), "both directions: default order, trailing -1 axis, squeeze",
            "Continuous2D par2fun/fun2par no longer use the same (default) order and batch convention", p2f)


def _r4_one_partition(chk, repo):
    """StepExpansion: par2fun and fun2par are mutually inverse only if they use the SAME assignment of grid nodes to steps.  The partition is computed once
    (constructor) and stored; both maps index with that stored attribute.  A map that recomputes the partition by another formula agrees in exact
    arithmetic and differs by rounding whenever a node lies on a step boundary."""
    se = repo.cls(f"{GEO}:StepExpansion")

    init_w = {path_of(t)[5:] for n in ast.walk(se.methods["__init__"]) if isinstance(n, ast.Assign) for t in n.targets if (path_of(t) or "").startswith("self.")}
    init_w |= {"grid"}
    fns = (se.methods["par2fun"], se.methods["fun2par"])
    # the stored quantities either map looks things up in (self.X[...]), and which of them each map reads at all
    indexed = {n.value.attr for f_ in fns for n in ast.walk(f_) if isinstance(n, ast.Subscript) and isinstance(n.value, ast.Attribute) and path_of(n.value.value) == "self"}
    def iterated(it):
        if isinstance(it, ast.Attribute) and path_of(it.value) == "self":
            return {it.attr}
        if isinstance(it, ast.Call) and call_name(it) in ("enumerate", "zip", "reversed", "list", "iter"):
            return set().union(*[iterated(a__) for a__ in it.args]) if it.args else set()
        return set()
    indexed |= {x for f_ in fns for n in ast.walk(f_) if isinstance(n, (ast.For, ast.comprehension)) for x in iterated(n.iter)}      # ... or iterates over
    indexed &= init_w

    def reads(fn):
        return {n.attr for n in ast.walk(fn) if isinstance(n, ast.Attribute) and path_of(n.value) == "self" and isinstance(n.ctx, ast.Load)} & indexed
    a_, b_ = reads(fns[0]), reads(fns[1])
    chk.add("C13-R4", f"{se.qual}/one-partition", bool(a_) and a_ == b_, site(repo, se.methods["par2fun"]), "par2fun and fun2par index with the same stored partition",
            f"par2fun indexes with the stored attributes {sorted(a_)}, fun2par with {sorted(b_)}: the two maps no longer share one node-to-step partition, so "
            f"fun2par(par2fun(p)) != p for grids with a node on a step boundary", se.methods["par2fun"])


def _r4(chk, repo):
    """StepExpansion: the node set of step i, as the closed expression of (grid, i, n) that is collected for it, for i == 0 and for i > 0
    (sa/pathtable.py walks the code up to the loop and then the loop body for both cases; temporaries, aliases of self.grid and a helper
    that computes the partition are resolved on the way)."""
    from .common import canon_fn
    from ..pathtable import walk, walk_stmts
    from ..pattern import norm as pn
    from ..canon import _SymOrder
    se = repo.cls(f"{GEO}:StepExpansion")
    src = se.methods["__init__"]
    init = canon_fn(repo, se, src, 2)
    # up to the loop, on the path of valid arguments (all argument checks pass)
    class _Any(dict):
        def __contains__(self, k): return False
    kind, res = _walk_to_loop(init, pn)
    if kind != "loop":
        raise AnchorError(f"StepExpansion.__init__: interval loop not found ({kind}: {res})")
    env, node = res
    lp = node.ast
    i = lp.target.id if isinstance(lp.target, ast.Name) else None
    problems = []
    # a constructor argument that was stored unchanged in an attribute IS that attribute (n_steps / self._n_steps, grid / self.grid)
    stored_as = {v_.id: k_ for k_, v_ in env.items() if isinstance(k_, str) and k_.startswith("self.") and isinstance(v_, ast.Name)}

    class _Unalias(ast.NodeTransformer):
        def visit_Name(self, n_):
            if isinstance(n_.ctx, ast.Load) and n_.id in stored_as:
                return ast.copy_location(ast.parse(stored_as[n_.id], mode="eval").body, n_)
            return n_
    import copy as _cp
    if i is None or pn(_Unalias().visit(_cp.deepcopy(_sub(lp.iter, env)))) != "range(self._n_steps)":
        problems.append("loop does not run over the steps")
    # the collected value: last statement `<list>.append(X)`
    body = list(lp.body)
    last = body[-1] if body else None
    if not (isinstance(last, ast.Expr) and isinstance(last.value, ast.Call) and isinstance(last.value.func, ast.Attribute) and last.value.func.attr == "append" and len(last.value.args) == 1):
        raise AnchorError("StepExpansion.__init__: the per-step index set is not collected with append()")
    coll = path_of(last.value.func.value)
    body[-1] = ast.Return(value=last.value.args[0])
    G, n = "self.grid", "self._n_steps"
    lo = f"{G}[0]+{i}*({G}[-1]-{G}[0])/{n}"
    hi = f"{G}[0]+({i}+1)*({G}[-1]-{G}[0])/{n}"
    want = {True: f"np.where(({lo}<={G})&({G}<={hi}))[0]", False: f"np.where(({lo}<{G})&({G}<={hi}))[0]"}
    for first in (True, False):
        val = {pn(f"{i}==0"): first, pn(f"0=={i}"): first, pn(f"0<{i}"): not first, pn(f"{i}!=0"): not first}
        k2, r2 = walk_stmts(body, val, pn, env)
        if k2 != "return":
            problems.append(f"{'first' if first else 'later'} interval: not decidable ({k2}: {r2})")
            continue
        got = pn(_SymOrder().visit(_Unalias().visit(_cp.deepcopy(r2))))
        w = pn(_SymOrder().visit(ast.parse(want[first], mode="eval").body))
        if got != w:
            what = "closed [start, end]" if first else "half-open (start, end]: a node on a boundary would belong to two steps or to none"
            problems.append(f"{'first' if first else 'later'} interval is `{unparse(r2)[:170]}`, not {what} with boundaries x0 + i*L/n and x0 + (i+1)*L/n "
                            f"(the end of step i must be the same expression as the start of step i+1)")
    # the collection ends up in self._indices, in step order
    V = pn(init)
    stored_coll = coll.startswith("self.") or any(isinstance(a_, ast.Assign) and (path_of(a_.targets[0]) or "").startswith("self.") and path_of(a_.value) == coll for a_ in ast.walk(init))
    if not stored_coll:
        problems.append("interval indices are not collected in order into an attribute of the geometry")
    chk.add("C13-R4", f"{se.qual}.__init__/partition", not problems, site(repo, src), "[x0, e0], (e0, e1], ... with shared boundary expressions", "; ".join(problems), src)


def _sub(e, env):
    from ..pathtable import _Sub
    from ..canon import clone
    return _Sub(env).visit(clone(e))


def _walk_to_loop(fn, pn):
    """walk to the first loop taking, at every test, the branch that does not raise (argument validation passes)"""
    from ..cfg import CFG
    from ..pathtable import walk
    g = CFG(fn)
    val = {}
    for t in g.tests():
        core, flip = t.ast, False
        while isinstance(core, ast.UnaryOp) and isinstance(core.op, ast.Not):
            core, flip = core.operand, not flip
        # which edge leads only to a raise?
        for lab in ("T", "F"):
            tgt = [m for m, l in g.succ[t.id] if l == lab]
            reach = g.reachable_from(tgt)
            if g.exit.id not in reach and not any(g.nodes[x].kind == "iter" for x in reach):
                truth = (lab == "F")           # take the other edge
                val[pn(core)] = (not truth) if flip else truth
    # tests whose names were re-bound (an alias of self.grid, an inlined helper's locals) are looked up by their expanded text, which the raw-text
    # valuation above cannot anticipate: those are followed both ways and the path that reaches the loop is taken
    from ..pathtable import walk_paths
    res = walk_paths(fn, val, pn, limit=64)
    loops = [r for r in res if r[0] == "loop"]
    if loops:
        return loops[0]
    return res[0] if res else ("unknown", "no path")


def _r5(chk, repo):
    from ..cachecoh import cache_coherence
    n = cache_coherence(chk, repo, "C13-R5", ("cuqi/geometry/",))
    if n < 4:
        raise AnchorError(f"{n} lazy caches found in the geometry module, 4 confirmed by hand")


def _r6(chk, repo):
    """batch convention: the expansion maps read their argument only through the shared reshape helper and squeeze what they return; the helpers
    refuse every shape that is neither `shape` nor `shape + (n,)` and return `x.reshape(shape + (-1,))` (decision table over the two shape tests)"""
    import itertools
    from ..cfg import ReachingDefs
    from ..flow import Expander
    from ..pattern import norm as pn
    from .common import canon_fn, method_effects
    for cname in ("KLExpansion", "StepExpansion"):
        ci = repo.cls(f"{GEO}:{cname}")
        for d, helper in (("par2fun", "_reshape_par2fun_input"), ("fun2par", "_reshape_fun2par_input")):
            f = ci.methods[d]
            x = func_params(f)[1]
            ex = Expander(canon_fn(repo, ci, f, 1))
            g = ex.cfg
            rd = ReachingDefs(g)
            raw_uses, via_helper = [], 0
            for n in g.nodes:
                if n.ast is None or g.entry.id not in set(rd.reaching(n, x)):
                    continue
                root = n.ast.iter if n.kind == "iter" else n.ast
                for sub in ast.walk(root):
                    if isinstance(sub, ast.Name) and sub.id == x and isinstance(sub.ctx, ast.Load):
                        par = getattr(sub, "_parent", None)
                        if isinstance(par, ast.Call) and call_name(par) == f"self.{helper}" and par.args and par.args[0] is sub:
                            via_helper += 1
                        else:
                            raw_uses.append(pn(n.ast)[:60])
            sq = []
            for r in g.returns():
                e = ex.expand(r.ast.value, r) if r.ast.value is not None else None
                sq.append(isinstance(e, ast.Call) and isinstance(e.func, ast.Attribute) and e.func.attr == "squeeze")
            ok = via_helper >= 1 and not raw_uses and bool(sq) and all(sq)
            chk.add("C13-R6", f"{ci.qual}.{d}", ok, site(repo, f), f"input reshaped by {helper}, result squeezed",
                    f"{d} does not use the shared batch convention (raw uses of the argument: {raw_uses[:2]}; every result squeezed: {bool(sq) and all(sq)})", f)
    cont = repo.cls(f"{GEO}:Continuous")
    for helper, shp in (("_reshape_par2fun_input", "self.par_shape"), ("_reshape_fun2par_input", "self.fun_shape")):
        f = cont.methods[helper]
        x = func_params(f)[1]
        bad = []
        for a_, b_ in itertools.product((True, False), repeat=2):
            val = {_ct(f"{x}.shape!={shp}"): a_, _ct(f"{x}.shape=={shp}"): not a_, _ct(f"{x}.shape[:-1]!={shp}"): b_, _ct(f"{x}.shape[:-1]=={shp}"): not b_}
            eff = method_effects(repo, cont, f, valuation=val, level=2)          # a shared private helper is inlined
            for e in eff:
                if a_ and b_:
                    if e["kind"] != "raise":
                        bad.append(f"a shape that is neither {shp} nor {shp}+(n,) is not refused ({e['kind']})")
                elif not (e["kind"] == "return" and e["ret"] in (_ct(f"{x}.reshape({shp}+(-1,))"), _ct(f"{x}.reshape(({shp})+(-1,))"), _ct(f"{x}.reshape(*{shp},-1)"))):
                    bad.append(f"[single={not a_}, batch={not b_}] {e['kind']} `{e['ret']}`")
            if not eff:
                bad.append("no path")
        ok = not bad
        chk.add("C13-R6", f"{cont.qual}.{helper}", ok, site(repo, f), "accepts shape or shape+(n,), returns shape+(-1,)", f"{helper} batch convention changed", f)
