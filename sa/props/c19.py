"""C19 — sample statistics and burn-in/thinning are exact functions of the stored chain.

 R1 sample-axis convention: every index/reduction on self.samples in Samples uses the last axis ([..., i], [..., Nb::Nt],
    axis=-1), except variable-axis accesses in methods that first require vector form
 R2 burnthin refuses Nb >= Ns and returns a shallow copy whose `samples` is rebound to the slice [..., Nb::Nt] (flags and
    geometry carried by the copy; the source is never written); JointSamples maps the same (Nb, Nt) over all members
 R3 statistics are the matching NumPy reductions; credible interval bounds (lower, upper) = percentiles ((100-p)/2, 100-(100-p)/2)
    in this order; width = upper - lower
 R4 chains are handed to arviz unpermuted: variable i <-> row i; chains are placed on their own axis by index
 R5 conversions (funvals / vector / parameters) return identity exactly when already in the requested form, convert with the
    geometry's per-sample map along the last axis and set consistent flags
"""
from __future__ import annotations
import ast
from typing import List

from ..index import Repo, AnchorError
from ..cfg import CFG, path_of
from ..astutil import unparse, call_name, func_params, strip_docstring, walk_no_nested
from .common import site

S = "cuqi/samples/_samples.py:Samples"


def _norm(e) -> str:
    return unparse(e).replace(" ", "").replace("\n", "")


def run(chk, repo: Repo):
    chk.rule("C19-R1", "indices and reductions on self.samples use the last axis, unless the method first requires vector form", floor=10)
    chk.rule("C19-R2", "burnthin: refusal, copy(self) with samples rebound to [..., Nb::Nt], all members of a joint set", floor=2)
    chk.rule("C19-R3", "mean/median/variance/std are the NumPy reductions over axis -1; interval bounds ordered; width = upper - lower", floor=6)
    chk.rule("C19-R4", "variables zipped with rows in index order; chains stacked on their own axis by index", floor=3)
    chk.rule("C19-R5", "funvals/vector/parameters: identity when already in that form, per-sample conversion along the last axis, consistent flags", floor=3)
    ci = repo.cls(S)
    _r1(chk, repo, ci)
    _r2(chk, repo, ci)
    _r3(chk, repo, ci)
    _r4(chk, repo, ci)
    _r5(chk, repo, ci)


def _last_axis_slice(sl) -> bool:
    if isinstance(sl, ast.Tuple) and len(sl.elts) >= 2 and isinstance(sl.elts[0], ast.Constant) and sl.elts[0].value is Ellipsis:
        return True
    return False


def _r1(chk, repo, ci):
    n = 0
    for kind, name, fn in ci.all_functions():
        requires_vec = any(isinstance(c, ast.Call) and call_name(c) == "self._raise_error_if_not_vec" for c in ast.walk(fn)) or \
            any(_norm(t) in ("notself.is_vec", "len(self.samples.shape)!=2") for t in [x.test for x in ast.walk(fn) if isinstance(x, ast.If)])
        for sub in walk_no_nested(fn):
            if isinstance(sub, ast.Subscript) and path_of(sub.value) == "self.samples":
                n += 1
                inst = f"{ci.qual}.{name}/self.samples[{_norm(sub.slice)}]"
                if isinstance(sub.value, ast.Attribute) and isinstance(getattr(sub, "_parent", None), ast.Attribute):
                    pass
                ok = _last_axis_slice(sub.slice) or requires_vec or (name == "__iter__" and isinstance(sub.slice, ast.Name))
                chk.add("C19-R1", inst, ok, site(repo, sub), "last-axis index (or method requires vector form first)",
                        f"`{unparse(sub)}` indexes an axis other than the sample axis without requiring vector form: for multi-dimensional "
                        f"function-value samples this mixes variables and draws", sub)
            if isinstance(sub, ast.Call) and call_name(sub) == "self._compute_numpy_stats":
                n += 1
                kw = {k.arg: _norm(k.value) for k in sub.keywords}
                chk.add("C19-R1", f"{ci.qual}.{name}/{_norm(sub.args[0])}", kw.get("axis") == "-1", site(repo, sub), "reduction over axis=-1",
                        f"`{unparse(sub)[:70]}` does not reduce over the sample axis (axis=-1)", sub)
    ns = repo.method(ci, "_compute_numpy_stats")[1]
    m = func_params(ns)[1]
    ok = f"stats={m}(self.samples,*args,**kwargs)" in _norm(ns) and "returnstats" in _norm(ns)
    chk.add("C19-R1", f"{ci.qual}._compute_numpy_stats", ok, site(repo, ns), "method(self.samples, *args, **kwargs)", "statistics helper does not apply the method to self.samples", ns)
    p = ci.props.get("Ns")
    ok = p is not None and any(_norm(r.value) in ("self.samples.shape[-1]", "len(self.samples)") for r in ast.walk(p.getter) if isinstance(r, ast.Return))
    chk.add("C19-R1", f"{ci.qual}.@Ns", ok, site(repo, p.getter) if p else "", "number of samples = length of the last axis", "Ns is not the length of the last axis")


def _r2(chk, repo, ci):
    fn = repo.method(ci, "burnthin")[1]
    nb, nt = func_params(fn)[1:3]
    g = CFG(fn)
    problems = []
    t = [x for x in g.tests() if _norm(x.ast) == f"{nb}>=self.Ns"]
    if len(t) != 1 or not all(g.nodes[m].kind == "raisestmt" for m, lab in g.succ[t[0].id] if lab == "T"):
        problems.append("burn-in >= number of samples is not refused")
    rets = g.returns()
    if len(rets) != 1:
        problems.append("expected a single return")
    else:
        v = rets[0].ast.value
        body = [_norm(s) for s in strip_docstring(fn.body)]
        if isinstance(v, ast.Name):
            name = v.id
            if f"{name}=copy(self)" not in body:
                problems.append("result is not a shallow copy of self (flags and geometry would not be carried over)")
            if f"{name}.samples=self.samples[...,{nb}::{nt}]" not in body:
                problems.append(f"samples of the result are not the slice [..., {nb}::{nt}]")
            writes = [b for b in body if b.startswith("self.") and "=" in b.split("(")[0]]
            if writes:
                problems.append(f"the source object is written: {writes}")
        elif isinstance(v, ast.Call) and call_name(v) == "Samples":
            kw = {k.arg: _norm(k.value) for k in v.keywords}
            args = [_norm(a) for a in v.args]
            if not args or args[0] != f"self.samples[...,{nb}::{nt}]":
                problems.append(f"samples of the result are not the slice [..., {nb}::{nt}]")
            for flag in ("is_par", "is_vec", "geometry"):
                if kw.get(flag) != f"self.{flag}":
                    problems.append(f"representation flag/geometry `{flag}` is not carried over to the result (constructor default would be used)")
        else:
            problems.append(f"unexpected result expression `{unparse(v)}`")
    chk.add("C19-R2", f"{ci.qual}.burnthin", not problems, site(repo, fn), "refuse Nb >= Ns; copy(self) with samples = self.samples[..., Nb::Nt]", "; ".join(problems), fn)
    js = repo.cls("cuqi/samples/_samples.py:JointSamples")
    jf = repo.method(js, "burnthin")[1]
    nb, nt = func_params(jf)[1:3]
    rets = [_norm(r.value) for r in ast.walk(jf) if isinstance(r, ast.Return)]
    ok = rets == [f"JointSamples({{key:samples.burnthin({nb},{nt})forkey,samplesinself.items()}})"]
    chk.add("C19-R2", f"{js.qual}.burnthin", ok, site(repo, jf), "same (Nb, Nt) applied to every member", f"joint burnthin is {rets}", jf)


def _r3(chk, repo, ci):
    for name, npf in (("mean", "np.mean"), ("median", "np.median"), ("variance", "np.var"), ("std", "np.std")):
        fn = repo.method(ci, name)[1]
        body = [_norm(s) for s in strip_docstring(fn.body)]
        chk.add("C19-R3", f"{ci.qual}.{name}", body == [f"returnself._compute_numpy_stats({npf},axis=-1)"], site(repo, fn), f"{npf} over the sample axis",
                f"{name} is {body}", fn)
    fn = repo.method(ci, "compute_ci")[1]
    p = func_params(fn)[1]
    body = [_norm(s) for s in strip_docstring(fn.body)]
    want = [f"lb=(100-{p})/2", "up=100-lb", "returnself._compute_numpy_stats(np.percentile,[lb,up],axis=-1)"]
    chk.add("C19-R3", f"{ci.qual}.compute_ci", body == want, site(repo, fn), "percentiles [(100-p)/2, 100-(100-p)/2] in this order", f"compute_ci is {body}", fn)
    fn = repo.method(ci, "ci_width")[1]
    body = [_norm(s) for s in strip_docstring(fn.body)]
    ok = len(body) == 2 and body[0].endswith(f"=self.compute_ci({func_params(fn)[1]})") and body[0].startswith("lo_conf,up_conf=") and body[1] == "returnup_conf-lo_conf"
    chk.add("C19-R3", f"{ci.qual}.ci_width", ok, site(repo, fn), "upper - lower of compute_ci(percent)", f"ci_width is {body}", fn)


def _r4(chk, repo, ci):
    fn = repo.method(ci, "to_arviz_inferencedata")[1]
    t = _norm(fn)
    problems = []
    for pat, msg in (("variable_indices=np.arange(self._geometry_dim)", "default indices are 0..dim-1 in order"),
                     ("variables=np.array(self.geometry.variables)", "names from the geometry"),
                     ("variables=variables[variable_indices].flatten()", "names selected by the same indices as the rows"),
                     ("datadict=dict(zip(variables,self.samples[variable_indices,:]))", "name i zipped with row i"),
                     ("returndatadict", "returns the dictionary")):
        if pat not in t:
            problems.append(f"{msg} (`{pat}` not found)")
    g = CFG(fn)
    if not any(_norm(x.ast) == "self.is_vec" for x in g.tests()):
        problems.append("vector form is not required")
    chk.add("C19-R4", f"{ci.qual}.to_arviz_inferencedata", not problems, site(repo, fn), "variables[idx] zipped with samples[idx, :]", "; ".join(problems), fn)
    fn = repo.method(ci, "compute_ess")[1]
    t = _norm(fn)
    ok = "fori,(key,value)inenumerate(ESS_items):ESS[i]=value.to_numpy()" in t and "ESS_xarray=arviz.ess(self.to_arviz_inferencedata(),**kwargs)" in t
    chk.add("C19-R4", f"{ci.qual}.compute_ess", ok, site(repo, fn), "result filled in the dictionary's insertion order", "ESS values are not collected in variable order", fn)
    fn = repo.method(ci, "compute_rhat")[1]
    t = _norm(fn)
    problems = []
    by_index = "samples=np.empty((self.samples.shape[0],n_chains+1,self.samples.shape[1]))" in t and "samples[:,0,:]=self.samples" in t \
        and "fori,chaininenumerate(chains):samples[:,i+1,:]=chain.samples" in t
    stacked = "np.stack(" in t and "axis=1" in t
    if not (by_index or stacked):
        problems.append("the (variable, chain, draw) array is not built by placing each chain on axis 1 by index "
                        "(a reshape of vertically stacked chains interleaves variables and chains)")
    if "datadict=dict(zip(variables,samples))" not in t or "variables=variables.flatten()" not in t:
        problems.append("variable names are not zipped with the rows of the chain array in order")
    if "fori,(key,value)inenumerate(RHAT_xarray.items()):RHAT[i]=value.to_numpy()" not in t:
        problems.append("R-hat values are not collected in variable order")
    if "ifself.geometry!=chains[i].geometry:" not in t:
        problems.append("chains with another geometry are not refused")
    chk.add("C19-R4", f"{ci.qual}.compute_rhat", not problems, site(repo, fn), "chains on axis 1 by index, variables zipped in order", "; ".join(problems), fn)


def _r5(chk, repo, ci):
    """Samples.funvals / vector / parameters as decision tables over the representation flags (sa/pathtable.py): which valuations return
    the object itself, and which geometry map converts the samples on the others; the per-sample loop and the flags of the result by
    metavariable patterns over the views of the getter."""
    from .common import canon_fn, stmts
    from ..pathtable import table, callable_text
    from ..pattern import norm as pn, unify
    G = "self.geometry"
    table_spec = {
        # name: (atoms, identity predicate, converter per valuation, store pattern, result pattern, allocation)
        "funvals": (["self.is_par", "self.is_vec", "self.geometry.fun_is_array"], lambda P, V, A: (not P) and (not V),
                    lambda P, V, A: f"{G}.par2fun" if P else f"{G}.vec2fun", "$out[...,$i]=$c($v)",
                    "return Samples($out,is_par=False,is_vec=$iv,geometry=self.geometry)", None),
        "vector": (["self.is_par", "self.is_vec"], lambda P, V: V or P, lambda P, V: f"{G}.fun2vec", "$out[...,$i]=$c($v)",
                   "return Samples($out,is_par=self.is_par,is_vec=True,geometry=self.geometry)", "$out=np.empty((self.geometry.funvec_dim,self.Ns))"),
        "parameters": (["self.is_par", "self.is_vec"], lambda P, V: P,
                       lambda P, V: f"lambda _a0:{G}.fun2par({G}.vec2fun(_a0))" if V else f"{G}.fun2par", "$out[:,$i]=$c($v)",
                       "return Samples($out,is_par=True,is_vec=True,geometry=self.geometry)", None),
    }
    for name, (atoms, ident, conv, store, result, alloc) in table_spec.items():
        p = ci.props.get(name)
        if p is None or p.getter is None:
            raise AnchorError(f"Samples.{name} not found")
        src = p.getter
        fn = canon_fn(repo, ci, src, 1)
        problems = []
        S = stmts(repo, ci, src)
        b, _ = unify(["for: ($i,$v) : enumerate(self)", store, result], S)
        if b is None:
            problems.append(f"per-sample conversion along the last axis (`{store}` in `for i, value in enumerate(self)`) or the result `{result}` (flags/geometry) missing")
        if alloc and b is not None and unify([alloc], S, b)[0] is None:
            problems.append("vector result is not allocated as (funvec_dim, Ns)")
        if name == "vector" and any(".reshape(" in t for t, _ in S):
            problems.append("function values are flattened by a raw reshape instead of the geometry's fun2vec (ignores the geometry's storage order)")
        cname = b["c"] if b else "convert"
        tb = table(fn, atoms, pn)
        undec = None
        for bits, (kind, res) in sorted(tb.items(), reverse=True):
            if name == "funvals" and not bits[2]:
                continue                       # the list-valued branch (function values that are not arrays) is outside this rule
            want_identity = ident(*bits)
            case = ", ".join(f"{a.split('.')[-1]}={v}" for a, v in zip(atoms, bits))
            if kind == "unknown":
                undec = res
                break
            if want_identity:
                if not (kind == "return" and res == "self"):
                    problems.append(f"[{case}] the object is already in the requested representation but is not returned unchanged")
            else:
                if kind == "return" and res == "self":
                    problems.append(f"[{case}] returns the object unchanged although a conversion is needed")
                elif kind == "loop":
                    env, _node = res
                    cv = env.get(cname)
                    got = callable_text(cv, pn) if cv is not None else "?"
                    want = pn(conv(*bits)) if not conv(*bits).startswith("lambda") else conv(*bits).replace(" ", "")
                    if got.replace(" ", "") != want.replace(" ", ""):
                        problems.append(f"[{case}] samples are converted by `{got}`, expected `{conv(*bits)}`")
                else:
                    undec = f"[{case}] conversion path not recognised ({kind})"
                    break
        if undec is not None and not problems:
            chk.unknown("C19-R5", f"{ci.qual}.@{name}", site(repo, src), str(undec), src)
        else:
            chk.add("C19-R5", f"{ci.qual}.@{name}", not problems, site(repo, src), "identity / per-sample geometry map / consistent flags", "; ".join(problems[:4]), src)
