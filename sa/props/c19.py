"""C19 — sample statistics and burn-in/thinning are exact functions of the stored chain.

 R1 sample-axis convention: every index/reduction on self.samples in Samples uses the last axis ([..., i], [..., Nb::Nt],
    axis=-1), except variable-axis accesses in methods that first require vector form
 R2 burnthin refuses Nb >= Ns and returns a shallow copy whose `samples` is rebound to the slice [..., Nb::Nt] (flags and
    geometry carried by the copy; the source is never written); JointSamples maps the same (Nb, Nt) over all members
 R3 statistics are the matching NumPy reductions; credible interval bounds (lower, upper) = percentiles ((100-p)/2, 100-(100-p)/2)
    in this order; width = upper - lower
 R4 chains are handed to arviz unpermuted: variable i <-> row i; chains are placed on their own axis by index
 R5 conversions (funvals / vector / parameters) return identity exactly when already in the requested form, convert with the
    geometry's per-sample map along the last axis and set consistent flags
"""
from __future__ import annotations
import ast
from typing import List

from ..index import Repo, AnchorError
from ..cfg import CFG, path_of
from ..astutil import unparse, call_name, func_params, strip_docstring, walk_no_nested
from .common import site

S = "cuqi/samples/_samples.py:Samples"


def _norm(e) -> str:
    from .common import vstr
    return vstr(e)


def run(chk, repo: Repo):
    chk.rule("C19-R1", "indices and reductions on self.samples use the last axis, unless the method first requires vector form", floor=10)
    chk.rule("C19-R2", "burnthin: refusal, copy(self) with samples rebound to [..., Nb::Nt] on EVERY accepted path (no shortcut hands out the source itself), all members of a joint set", floor=2)
    chk.rule("C19-R3", "mean/median/variance/std are the NumPy reductions over axis -1; interval bounds ordered; width = upper - lower of compute_ci(percent) "
                       "(the requested level is passed on to the interval the width is computed from)", floor=6)
    chk.rule("C19-R4", "variables zipped with rows in index order; chains stacked on their own axis by index", floor=3)
    chk.rule("C19-R5", "funvals/vector/parameters: identity when already in that form, per-sample conversion along the last axis, consistent flags", floor=3)
    ci = repo.cls(S)
    _r1(chk, repo, ci)
    _r2(chk, repo, ci)
    _r3(chk, repo, ci)
    _r4(chk, repo, ci)
    from .common import best_of as _bo
    _bo(chk, (1, 2), lambda t, lvl: _r5(t, repo, ci, lvl))          # as written; with the private helpers of the converters inlined
    chk.rule("C19-R6", "the stored chain is read-only for statistics and diagnostics: no method writes into self.samples in place, and a library function that is "
                       "handed (a view of) the chain does not write into that argument (followed through calls between module-level functions)", floor=20)
    _r6(chk, repo, ci)


def _r6(chk, repo, ci):
    from ..alias import FnAlias
    # module-level functions of the package, by name (for calls like Geweke(self.samples.T))
    funcs = {}
    for m in repo.modules.values():
        for f in m.tree.body:
            if isinstance(f, ast.FunctionDef):
                funcs.setdefault(f.name, []).append((m, f))

    def param_writers(f, seen):
        """parameter names of module-level function f that f (or a module-level function it passes them on to) writes into"""
        if id(f) in seen:
            return set()
        seen = seen | {id(f)}
        fa = FnAlias(f)
        ps = func_params(f)
        # only writes that happen on every completing path of the helper are attributed to its callers: a write under a test on the argument's size
        # may be infeasible for the arguments the library passes (diagnostics.spectrum pads only when len(x) < nfft/4, and is called with nfft = len(x))
        g_ = fa.cfg
        out = {r[6:].split(".")[0] for r, n_, a_, k_ in fa.mutated_roots() if r.startswith("param:")
               and g_.exit.id not in g_.reachable_from([g_.entry.id], avoid_nodes={n_.id})}
        for c in ast.walk(f):
            if isinstance(c, ast.Call) and isinstance(c.func, ast.Name) and len(funcs.get(c.func.id, [])) == 1:
                g = funcs[c.func.id][0][1]
                gw = param_writers(g, seen)
                gps = func_params(g)
                cn = fa.cfg.stmt_node_containing(c)
                for i_, arg in enumerate(c.args):
                    if i_ < len(gps) and gps[i_] in gw and cn is not None:
                        out |= {r[6:].split(".")[0] for r in fa.roots(arg, cn) if r.startswith("param:")}
        return out & set(ps)
    for kind, name, fn in ci.all_functions():
        if name == "__init__" or kind == "setter":
            continue
        fa = FnAlias(fn)
        inst = f"{ci.qual}.{name}"
        bad = [(r, a) for r, n_, a, k_ in fa.mutated_roots() if r == "self.samples" or r.startswith("self.samples.")]
        # ... nor the collections handed to a statistic (the caller's list of other chains): a statistic that inserts into / reorders its argument gives a
        # different answer when called again with the same objects
        if name.startswith(("compute_", "mean", "median", "variance", "std", "ci_", "burnthin", "diagnostics", "to_arviz")) or name in ("Ns", "Nt"):
            a_ = fn.args
            own = {f"param:{q.arg}" for q in ([a_.vararg] if a_.vararg else []) + ([a_.kwarg] if a_.kwarg else [])} | {"param:self"}
            bad += [(r, a) for r, n_, a, k_ in fa.mutated_roots() if r.startswith("param:") and r.split(".")[0] not in own]
        for c in ast.walk(fn):
            if isinstance(c, ast.Call) and isinstance(c.func, ast.Name) and len(funcs.get(c.func.id, [])) == 1:
                g = funcs[c.func.id][0][1]
                gw = param_writers(g, frozenset())
                gps = func_params(g)
                cn = fa.cfg.stmt_node_containing(c)
                for i_, arg in enumerate(c.args):
                    if i_ < len(gps) and gps[i_] in gw and cn is not None and any(r == "self.samples" or r.startswith("self.samples.") for r in fa.roots(arg, cn)):
                        bad.append((f"{c.func.id}({gps[i_]})", c))
        chk.add("C19-R6", inst, not bad, site(repo, bad[0][1] if bad else fn), "no in-place write reaches the stored chain",
                f"`{unparse(bad[0][1])[:70] if bad else ''}` writes into the stored chain ({bad[0][0] if bad else ''}): statistics computed afterwards, and every "
                f"burn-thinned view of the chain, no longer describe the states the sampler produced", bad[0][1] if bad else fn)


def _last_axis_slice(sl) -> bool:
    if isinstance(sl, ast.Tuple) and len(sl.elts) >= 2 and isinstance(sl.elts[0], ast.Constant) and sl.elts[0].value is Ellipsis:
        return True
    return False


def _r1(chk, repo, ci):
    n = 0
    from ..canon import fold_class_literals
    for kind, name, fn in ci.all_functions():
        fn = fold_class_literals(fn, repo, ci)           # a named class-level number (`_SAMPLE_AXIS = -1`) read as the number
        requires_vec = any(isinstance(c, ast.Call) and call_name(c) == "self._raise_error_if_not_vec" for c in ast.walk(fn)) or \
            any(_norm(t) in ("notself.is_vec", "len(self.samples.shape)!=2") for t in [x.test for x in ast.walk(fn) if isinstance(x, ast.If)])
        for sub in walk_no_nested(fn):
            if isinstance(sub, ast.Subscript) and path_of(sub.value) == "self.samples":
                n += 1
                inst = f"{ci.qual}.{name}/self.samples[{_norm(sub.slice)}]"
                if isinstance(sub.value, ast.Attribute) and isinstance(getattr(sub, "_parent", None), ast.Attribute):
                    pass
                ok = _last_axis_slice(sub.slice) or requires_vec or (name == "__iter__" and isinstance(sub.slice, ast.Name))
                chk.add("C19-R1", inst, ok, site(repo, sub), "last-axis index (or method requires vector form first)",
                        f"`{unparse(sub)}` indexes an axis other than the sample axis without requiring vector form: for multi-dimensional "
                        f"function-value samples this mixes variables and draws", sub)
            if isinstance(sub, ast.Call) and call_name(sub) == "self._compute_numpy_stats":
                n += 1
                kw = {k.arg: _norm(k.value) for k in sub.keywords}
                # a wrapper that only forwards (method, *args, **kwargs) is judged at its callers
                forwards = any(k.arg is None for k in sub.keywords) and name != "_compute_numpy_stats"
                chk.add("C19-R1", f"{ci.qual}.{name}/{_norm(sub.args[0])}", kw.get("axis") == "-1" or forwards, site(repo, sub), "reduction over axis=-1",
                        f"`{unparse(sub)[:70]}` does not reduce over the sample axis (axis=-1)", sub)
    ns = repo.method(ci, "_compute_numpy_stats")[1]
    m = func_params(ns)[1]
    from .common import views, canon_fn
    from ..pathtable import walk as _walk
    from ..pattern import norm as _pn
    k_, r_ = _walk(canon_fn(repo, ci, ns, 1), {}, _pn)
    ok = k_ == "return" and _pn(r_) == _pn(f"{m}(self.samples,*args,**kwargs)")
    chk.add("C19-R1", f"{ci.qual}._compute_numpy_stats", ok, site(repo, ns), "method(self.samples, *args, **kwargs)", "statistics helper does not apply the method to self.samples", ns)
    p = ci.props.get("Ns")
    ok = False
    if p is not None and p.getter is not None:
        from .common import closed_outcomes
        o1 = closed_outcomes(repo, ci, p.getter, valuation={_pn("isinstance(self.samples,list)"): True})
        o2 = closed_outcomes(repo, ci, p.getter, valuation={_pn("isinstance(self.samples,list)"): False})
        ok = o1 == {("return", _pn("len(self.samples)"))} and o2 == {("return", _pn("self.samples.shape[-1]"))}
    chk.add("C19-R1", f"{ci.qual}.@Ns", ok, site(repo, p.getter) if p else "", "number of samples = length of the last axis", "Ns is not the length of the last axis")


def _ct(t):
    from ..pattern import norm as pn
    from ..canon import _SymOrder
    try:
        return pn(_SymOrder().visit(ast.parse(t, mode="eval").body))
    except SyntaxError:
        return pn(t)          # not an expression (e.g. a nested def substituted for its name): compared as text, equal to no expected expression


def _r2(chk, repo, ci):
    from .common import canon_fn, match
    from ..pathtable import walk
    from ..pattern import norm as pn
    fn = repo.method(ci, "burnthin")[1]
    nb, nt = func_params(fn)[1:3]
    v = canon_fn(repo, ci, fn, 2)
    REF = {_ct(f"{nb}>=self.Ns"): None}
    problems = []

    def val(refuse):
        return {_ct(f"{nb}>=self.Ns"): refuse, _ct(f"{nb}<self.Ns"): not refuse, _ct(f"self.Ns<={nb}"): refuse, _ct(f"self.Ns>{nb}"): not refuse}
    k1, r1 = walk(v, val(True), pn)
    if k1 != "raise":
        problems.append("burn-in >= number of samples is not refused")
    # every path on which the burn-in is accepted (tests the valuation does not decide - a "nothing to remove" shortcut - are followed both ways)
    from ..pathtable import walk_paths
    outs = walk_paths(v, val(False), pn)
    rec = bool(outs) and all(k_ in ("return", "raise") for k_, _ in outs) and any(k_ == "return" for k_, _ in outs)
    k2, r2 = next(((k_, r_) for k_, r_ in outs if k_ not in ("return", "raise")), outs[0] if outs else ("unknown", None))
    for k2, r2 in [o for o in outs if o[0] == "return"] if rec else []:
        raw = getattr(r2, "_raw", None)
        env = getattr(r2, "_env", {})
        sl = _ct(f"self.samples[...,{nb}::{nt}]")
        if isinstance(raw, ast.Name) and _ct(unparse(r2)) in (_ct("copy(self)"), _ct("copy.copy(self)")):
            got = env.get(f"{raw.id}.samples")
            if got is None or _ct(unparse(got)) != sl:
                problems.append(f"samples of the result are not the slice [..., {nb}::{nt}]")
            extra = [k for k in env if k.startswith(raw.id + ".") and k != f"{raw.id}.samples"]
            if extra:
                problems.append(f"the copy is modified beyond its samples: {extra}")
        elif isinstance(r2, ast.Call) and call_name(r2) == "Samples":
            kw = {k.arg: _ct(unparse(k.value)) for k in r2.keywords}
            args = [_ct(unparse(a)) for a in r2.args]
            if not args or args[0] != sl:
                problems.append(f"samples of the result are not the slice [..., {nb}::{nt}]")
            for flag in ("is_par", "is_vec", "geometry"):
                if kw.get(flag) != f"self.{flag}":
                    problems.append(f"representation flag/geometry `{flag}` is not carried over to the result (constructor default would be used)")
        else:
            problems.append(f"result `{unparse(r2)[:80]}` is not a shallow copy of self with the thinned samples (flags and geometry would not be carried over)")
    writes = [unparse(s_)[:50] for s_ in ast.walk(v) if isinstance(s_, ast.Assign) and (path_of(s_.targets[0]) or "").startswith("self.")]
    if writes:
        problems.append(f"the source object is written: {writes}")
    chk.decide("C19-R2", f"{ci.qual}.burnthin", rec and not problems, rec, site(repo, fn), "refuse Nb >= Ns; copy(self) with samples = self.samples[..., Nb::Nt]",
               "; ".join(problems) or f"not decidable: {r2}", fn)
    js = repo.cls("cuqi/samples/_samples.py:JointSamples")
    jf = repo.method(js, "burnthin")[1]
    nb, nt = func_params(jf)[1:3]
    # every member is burn-thinned with the caller's (Nb, Nt): one inner burnthin call, arguments bound by Samples.burnthin's signature, its receiver is
    # the value of an iteration over all items of self, and the result is a JointSamples built from those pairs
    from .common import KwCanon
    kcb = KwCanon()
    inner = [c for c in ast.walk(jf) if isinstance(c, ast.Call) and isinstance(c.func, ast.Attribute) and c.func.attr == "burnthin"]
    ok = False
    if len(inner) == 1:
        c = inner[0]
        ps_ = func_params(repo.method(ci, "burnthin")[1])[1:]
        bound_ = dict(zip(ps_, c.args))
        bound_.update({k_.arg: k_.value for k_ in c.keywords if k_.arg})
        args_ok = _norm(bound_.get(ps_[0], ast.Constant(value=None))) == nb and (_norm(bound_[ps_[1]]) == nt if ps_[1] in bound_ else False)
        recv = c.func.value
        iters = [(n_.target, n_.iter) for n_ in ast.walk(jf) if isinstance(n_, (ast.For, ast.comprehension))]
        over_all = False
        # `self` and its shallow copies (same keys, same members): JointSamples(self) / dict(self) / self.copy() / copy(self)
        same = {"self"} | {s_.targets[0].id for s_ in ast.walk(jf) if isinstance(s_, ast.Assign) and len(s_.targets) == 1 and isinstance(s_.targets[0], ast.Name)
                           and _norm(s_.value) in ("JointSamples(self)", "dict(self)", "self.copy()", "copy(self)", "copy.copy(self)")}
        for tg, it in iters:
            if any(_norm(it) == f"{a_}.items()" for a_ in same) and isinstance(tg, ast.Tuple) and len(tg.elts) == 2 and path_of(recv) == path_of(tg.elts[1]):
                over_all = True
            if any(_norm(it) in (a_, f"{a_}.keys()", f"list({a_})", f"list({a_}.keys())") for a_ in same) and isinstance(tg, ast.Name) \
                    and any(_norm(recv) == f"{a_}[{tg.id}]" for a_ in same):
                over_all = True
        built = any(isinstance(x, ast.Call) and call_name(x) == "JointSamples" for x in ast.walk(jf))
        ok = args_ok and over_all and built
    chk.add("C19-R2", f"{js.qual}.burnthin", ok, site(repo, jf), "same (Nb, Nt) applied to every member", "joint burnthin does not apply the same (Nb, Nt) to every member", jf)


def _r3(chk, repo, ci):
    from .common import canon_fn, views
    from ..pathtable import walk
    from ..pattern import norm as pn
    for name, npf in (("mean", "np.mean"), ("median", "np.median"), ("variance", "np.var"), ("std", "np.std")):
        fn = repo.method(ci, name)[1]
        kind, res = walk(canon_fn(repo, ci, fn, 3), {}, pn)
        got = _ct(unparse(res)) if kind == "return" else kind
        ok = got in (_ct(f"self._compute_numpy_stats({npf},axis=-1)"), _ct(f"{npf}(self.samples,axis=-1)"))
        chk.add("C19-R3", f"{ci.qual}.{name}", ok, site(repo, fn), f"{npf} over the sample axis", f"{name} is `{got}`", fn)
    fn = repo.method(ci, "compute_ci")[1]
    p = func_params(fn)[1]
    kind, res = walk(canon_fn(repo, ci, fn, 3), {}, pn)
    got = _ct(unparse(res)) if kind == "return" else kind
    Q = f"[(100-{p})/2,100-(100-{p})/2]"
    want = [_ct(f"self._compute_numpy_stats(np.percentile,{Q},axis=-1)"), _ct(f"np.percentile(self.samples,{Q},axis=-1)"),
            _ct(f"self._compute_numpy_stats(np.percentile,q={Q},axis=-1)"), _ct(f"np.percentile(self.samples,q={Q},axis=-1)"),
            _ct(f"self._compute_numpy_stats(np.percentile,axis=-1,q={Q})"), _ct(f"np.percentile(self.samples,axis=-1,q={Q})")]     # q by keyword is numpy's second parameter
    chk.add("C19-R3", f"{ci.qual}.compute_ci", got in want, site(repo, fn), "percentiles [(100-p)/2, 100-(100-p)/2] in this order", f"compute_ci is `{got}`", fn)
    fn = repo.method(ci, "ci_width")[1]
    p = func_params(fn)[1]
    kind, res = walk(canon_fn(repo, ci, fn, 3), {}, pn)
    got = _ct(unparse(res)) if kind == "return" else kind
    chk.add("C19-R3", f"{ci.qual}.ci_width", got == _ct(f"self.compute_ci({p})[1]-self.compute_ci({p})[0]"), site(repo, fn), "upper - lower of compute_ci(percent)",
            f"ci_width is `{got}`", fn)


def _r4(chk, repo, ci):
    from .common import canon_fn, stmts, match
    from ..pathtable import walk
    from ..pattern import norm as pn, unify
    from ..flow import Expander
    # ---- arviz data: names selected by the same indices as the rows, zipped in order
    fn = repo.method(ci, "to_arviz_inferencedata")[1]
    v = canon_fn(repo, ci, fn, 2)
    idx = func_params(fn)[1]
    problems, und = [], []
    for none in (True, False):
        val = {_ct(f"{idx} is None"): none, _ct(f"{idx} is not None"): not none, _ct("self.is_vec"): True, _ct("len(self.samples.shape)!=2"): False,
               _ct("len(self.samples.shape)==2"): True}
        kind, res = walk(v, val, pn)
        I = "np.arange(self._geometry_dim)" if none else idx
        want = _ct(f"dict(zip(np.array(self.geometry.variables)[{I}].flatten(),self.samples[{I},:]))")
        if kind != "return":
            und.append((kind, res))
        elif _ct(unparse(res)) != want:
            problems.append(f"[indices given: {not none}] returns `{unparse(res)[:150]}`, expected variables[idx] zipped with samples[idx, :]")
    g = CFG(v)
    if not any(pn(x.ast) in ("self.is_vec", "not self.is_vec") for x in g.tests()):
        problems.append("vector form is not required")
    chk.decide("C19-R4", f"{ci.qual}.to_arviz_inferencedata", not problems and not und, not und, site(repo, fn), "variables[idx] zipped with samples[idx, :]",
               "; ".join(problems) or str(und[:1]), fn)
    # ---- ESS: one value per variable, in the dictionary's (= variable) order
    fn = repo.method(ci, "compute_ess")[1]
    ORDER = (["for: ($i,($k,$v)) : enumerate($X.items())", "$R[$i]=$v.to_numpy()"], ["$it=$X.items()", "for: ($i,($k,$v)) : enumerate($it)", "$R[$i]=$v.to_numpy()"],
             ["for: ($i,$v) : enumerate($X.values())", "$R[$i]=$v.to_numpy()"], ["for: ($i,$k) : enumerate($X)", "$R[$i]=$X[$k].to_numpy()"])
    ok = any(match(repo, ci, fn, ["$X=arviz.ess(self.to_arviz_inferencedata(),**kwargs)"] + o + ["return $R"]) is not None for o in ORDER)
    rec = any("sorted(" in t or "reversed(" in t for t, _ in stmts(repo, ci, fn))
    chk.decide("C19-R4", f"{ci.qual}.compute_ess", ok, rec, site(repo, fn), "result filled in the dictionary's insertion order", "ESS values are not collected in variable order", fn)
    # ---- R-hat
    fn = repo.method(ci, "compute_rhat")[1]
    S = stmts(repo, ci, fn)
    T = [t for t, _ in S]
    problems, unknowns = [], []
    # chains on axis 1, placed by index
    stores = [t for t in T if ("[:,0,:]=" in t or "+1,:]=" in t or ",:]=" in t) and ".samples" in t and "[:," in t]
    b1, _ = unify(["$S[:,0,:]=self.samples", "for: ($i,$c) : enumerate(chains)", "$S[:,$i+1,:]=$c.samples"], S)
    b2, _ = unify(["for: ($i,$c) : enumerate([self]+chains)", "$S[:,$i,:]=$c.samples"], S)
    stacked_ok = any(("np.stack(" in t and "axis=1" in t) for t in T)
    reshaped = [t for t in T if ".reshape(" in t and any(w in " ".join(T) for w in ("np.vstack(", "np.array([self.samples", "np.concatenate(", "np.hstack("))]
    if not (b1 or b2 or stacked_ok):
        if reshaped:
            problems.append("the (variable, chain, draw) array is not built by placing each chain on axis 1 by index "
                            f"(`{reshaped[0][:90]}`: a reshape of stacked chains interleaves variables and chains)")
        else:
            unknowns.append("construction of the (variable, chain, draw) array not recognised")
    Sname = (b1 or b2 or {}).get("S")
    if Sname:
        ex = Expander(canon_fn(repo, ci, fn, 2))
        zips = [n for n in ex.cfg.nodes if n.ast is not None and n.kind in ("stmt", "return") for c in ast.walk(n.ast) if isinstance(c, ast.Call) and call_name(c) == "zip"]
        zc = [(n, c) for n in ex.cfg.nodes if n.ast is not None and n.kind in ("stmt", "return") for c in ast.walk(n.ast)
              if isinstance(c, ast.Call) and call_name(c) == "zip" and len(c.args) == 2 and path_of(c.args[1]) == Sname]
        if len(zc) != 1:
            unknowns.append("zip(variables, chain array) not found")
        else:
            names = _ct(unparse(ex.expand(zc[0][1].args[0], zc[0][0])))
            if names != _ct("np.array(self.geometry.variables).flatten()"):
                problems.append(f"variable names `{names[:80]}` are not the geometry's variables in order")
    okr = any(match(repo, ci, fn, o + ["return $R"]) is not None for o in ORDER)
    if not okr:
        unknowns.append("collection of the R-hat values not recognised")
    geo = any(unify([f"if: {a}{op}{b}"], S)[0] is not None for op in ("!=", "==")
              for a, b in (("self.geometry", "$ch[$i].geometry"), ("$ch[$i].geometry", "self.geometry"), ("self.geometry", "$c.geometry"), ("$c.geometry", "self.geometry")))
    if not geo:
        problems.append("chains with another geometry are not refused")
    if problems:
        chk.fail("C19-R4", f"{ci.qual}.compute_rhat", site(repo, fn), "; ".join(problems), fn)
    elif unknowns:
        chk.unknown("C19-R4", f"{ci.qual}.compute_rhat", site(repo, fn), "; ".join(unknowns), fn)
    else:
        chk.ok("C19-R4", f"{ci.qual}.compute_rhat", site(repo, fn), "chains on axis 1 by index, variables zipped in order")


def _r5(chk, repo, ci, level=1):
    """Samples.funvals / vector / parameters as decision tables over the representation flags (sa/pathtable.py). For every valuation the getter is
    followed along its path with the per-sample loop stepped over: identity valuations must return self; on the others the returned value must be
    Samples(<freshly allocated array>, <flags>, geometry=self.geometry), the path must contain exactly one loop `for i, v in enumerate(self)` whose body
    is the single store `<that array>[..., i] = C(v)`, and C - with locals replaced by their bindings on the path and conditional expressions resolved by
    the valuation - must be the geometry map the valuation calls for."""
    import itertools
    from .common import canon_fn, KwCanon
    from ..pathtable import walk, callable_text, _fold_ifexp, _Sub
    from ..pattern import norm as pn
    from ..canon import clone as _clone
    G = "self.geometry"
    kc = KwCanon().add("Samples", repo.method(ci, "__init__")[1])
    table_spec = {
        # name: (atoms, identity predicate, converter per valuation, last-axis index form, expected flags of the result, allocation)
        "funvals": (["self.is_par", "self.is_vec", "self.geometry.fun_is_array"], lambda P, V, A: (not P) and (not V),
                    lambda P, V, A: f"{G}.par2fun" if P else f"{G}.vec2fun", "...", {"is_par": "False", "is_vec": None}, None),
        "vector": (["self.is_par", "self.is_vec"], lambda P, V: V or P, lambda P, V: f"{G}.fun2vec", "...",
                   {"is_par": "self.is_par", "is_vec": "True"}, "np.empty((self.geometry.funvec_dim,self.Ns))"),
        "parameters": (["self.is_par", "self.is_vec"], lambda P, V: P,
                       lambda P, V: f"lambda _a0:{G}.fun2par({G}.vec2fun(_a0))" if V else f"{G}.fun2par", ":",
                       {"is_par": "True", "is_vec": "True"}, None),
    }
    for name, (atoms, ident, conv, axis, flags, alloc) in table_spec.items():
        p = ci.props.get(name)
        if p is None or p.getter is None:
            raise AnchorError(f"Samples.{name} not found")
        src = p.getter
        fn = canon_fn(repo, ci, src, level)
        problems, undec = [], None
        natoms = [pn(a_) for a_ in atoms]
        for bits in itertools.product((True, False), repeat=len(atoms)):
            if name == "funvals" and not bits[2]:
                continue                       # the list-valued branch (function values that are not arrays) is outside this rule
            val = dict(zip(natoms, bits))
            case = ", ".join(f"{a_.split('.')[-1]}={v}" for a_, v in zip(atoms, bits))
            from ..pathtable import walk_paths
            stop = False
            for kind, res in walk_paths(fn, val, pn, skip_loops=True):          # tests outside the flags (storage form, ...) are followed both ways
                if kind == "unknown":
                    undec = f"[{case}] {res}"
                    stop = True
                    break
                if ident(*bits):
                    if not (kind == "return" and pn(res) == "self"):
                        problems.append(f"[{case}] the object is already in the requested representation but is not returned unchanged")
                    continue
                if kind == "return" and pn(res) == "self":
                    problems.append(f"[{case}] returns the object unchanged although a conversion is needed")
                    continue
                if kind != "return":
                    undec = f"[{case}] conversion path not recognised ({kind})"
                    stop = True
                    break
                raw, loops = res._raw, res._loops
                call = kc.visit(_clone(res))
                if not (isinstance(call, ast.Call) and call_name(call) == "Samples" and not call.args):
                    problems.append(f"[{case}] the result is `{pn(res)[:80]}`, not a Samples object")
                    continue
                kw = {k.arg: k.value for k in call.keywords}
                if pn(kw.get("geometry", ast.Constant(value=None))) != G:
                    problems.append(f"[{case}] the result does not carry the object's geometry")
                for fl, wv in flags.items():
                    if wv is not None and pn(_fold_ifexp(kw.get(fl, ast.Constant(value=None)), val, pn)) != pn(wv):
                        problems.append(f"[{case}] the result is flagged {fl}={pn(kw.get(fl, ast.Constant(value=None)))}, expected {wv}")
                if alloc and pn(kw.get("samples", ast.Constant(value=None))) != pn(alloc):
                    problems.append("vector result is not allocated as (funvec_dim, Ns)")
                rawcall = raw if isinstance(raw, ast.Call) else None
                rawkw = {}
                if rawcall is not None:
                    rk = kc.visit(_clone(rawcall))
                    rawkw = {k.arg: k.value for k in rk.keywords} if isinstance(rk, ast.Call) else {}
                out = path_of(rawkw.get("samples")) if rawkw.get("samples") is not None else None
                if not loops:
                    problems.append(f"[{case}] the result's array is `{pn(kw.get('samples', ast.Constant(value=None)))[:90]}`: it is not filled sample by sample "
                                    f"through the geometry's map (a raw reshape / copy ignores the geometry's storage order)")
                    continue
                if len(loops) != 1 or out is None:
                    undec = f"[{case}] expected one per-sample loop filling the returned array (found {len(loops)})"
                    stop = True
                    break
                lenv, lp = loops[0]
                it_ok = pn(_Sub(lenv).visit(_clone(lp.iter))) == "enumerate(self)" and isinstance(lp.target, ast.Tuple) and len(lp.target.elts) == 2 \
                    and all(isinstance(t_, ast.Name) for t_ in lp.target.elts)
                body = [s_ for s_ in lp.body if not isinstance(s_, ast.Pass)]
                st = body[0] if len(body) == 1 else None
                if not it_ok or not (isinstance(st, ast.Assign) and len(st.targets) == 1 and isinstance(st.targets[0], ast.Subscript)
                                     and path_of(st.targets[0].value) == out and isinstance(st.value, ast.Call) and len(st.value.args) == 1 and not st.value.keywords):
                    if any(isinstance(x, ast.Attribute) and x.attr == "reshape" for x in ast.walk(lp)):
                        problems.append("function values are flattened by a raw reshape instead of the geometry's fun2vec (ignores the geometry's storage order)")
                    else:
                        problems.append(f"[{case}] per-sample conversion `{out}[{axis}, i] = C(sample)` in `for i, sample in enumerate(self)` not found")
                    continue
                i_, v_ = lp.target.elts[0].id, lp.target.elts[1].id
                # `a[..., i]` and, for the 2-D results, `a[:, i]` both address column i of the last axis
                if pn(st.targets[0].slice) not in (pn(f"({axis},{i_})"), pn(f"{axis},{i_}"), pn(f"(...,{i_})"), pn(f"...,{i_}")) or path_of(st.value.args[0]) != v_:
                    problems.append(f"[{case}] samples are not written along the last axis by index (`{pn(st)}`)")
                cv = st.value.func
                cv = lenv.get(cv.id, cv) if isinstance(cv, ast.Name) else _Sub(lenv).visit(_clone(cv))
                if not isinstance(cv, ast.FunctionDef):
                    cv = _fold_ifexp(cv, val, pn)
                got = callable_text(cv, pn)
                want = conv(*bits)
                if got.replace(" ", "") != (pn(want) if not want.startswith("lambda") else want).replace(" ", ""):
                    problems.append(f"[{case}] samples are converted by `{got}`, expected `{want}`")
            if stop:
                break
        problems = list(dict.fromkeys(problems))
        if undec is not None and not problems:
            chk.unknown("C19-R5", f"{ci.qual}.@{name}", site(repo, src), str(undec), src)
        else:
            chk.add("C19-R5", f"{ci.qual}.@{name}", not problems, site(repo, src), "identity / per-sample geometry map / consistent flags", "; ".join(problems[:4]), src)
