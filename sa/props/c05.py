"""C05 — direct samples follow the distribution's own density and the given random stream.

 R1 generator discipline in every `_sample(self, N, rng=None)`: the global NumPy stream is only used when rng is None;
    otherwise every draw is a method of rng / passes random_state=rng; helpers receive rng
 R2 the sampler's value depends on the same mutable parameters as the log-density
 R3 linear-solve discipline in Gaussian._sample: every branch computes the perturbation by a solve with sqrtprec applied
    to the standard-normal draw; a triangular solve guarded by np.tril/np.triu passes the matching `lower=` flag;
    spsolve results are reshaped/indexed or special-cased for N == 1 (spsolve returns 1-D for one right-hand side)
 R4 Distribution.sample refuses conditional distributions before drawing and wraps with the distribution's geometry;
    no subclass overrides sample
 R5 product-form families draw (N, dim) and return the transpose (sample axis last); parameters are never indexed by the
    sample-count loop variable
"""
from __future__ import annotations
import ast
from typing import Dict, List, Optional, Set

from ..index import Repo, ClassInfo, AnchorError, parents
from ..cfg import CFG, path_of
from ..astutil import unparse, call_name, func_params, walk_no_nested, is_abstract, strip_docstring
from .common import site
from .c03 import ValueReads, _mutable_params, _group, NORMALISATION_ONLY, _is_refusal_only

DIST = "cuqi/distribution/_distribution.py:Distribution"
RNG_NONE_T = {"rng is None", "rng == None"}
RNG_NONE_F = {"rng is not None", "rng != None"}


def _rng_is_none_guard(g: CFG, node) -> bool:
    for t, lab in g.guards_of(node):
        txt = unparse(t.ast)
        if (txt in RNG_NONE_T and lab == "T") or (txt in RNG_NONE_F and lab == "F"):
            return True
    return False


def _rng_not_none_guard(g: CFG, node) -> bool:
    for t, lab in g.guards_of(node):
        txt = unparse(t.ast)
        if (txt in RNG_NONE_T and lab == "F") or (txt in RNG_NONE_F and lab == "T"):
            return True
    return False


def run(chk, repo: Repo):
    chk.rule("C05-R1", "global NumPy generator used only under `rng is None`; other draws go through rng / random_state=rng; helpers receive rng; nothing in the sampling layers re-seeds the global generator", floor=12)
    chk.rule("C05-R2", "mutable parameters the log-density depends on ⊆ parameters the sampler depends on", floor=8)
    chk.rule("C05-R3", "Gaussian/GMRF solves: solver table, triangular orientation matches the guard, single right-hand side handled; the location is an additive, unscaled term of the draw", floor=4)
    chk.rule("C05-R4", "Distribution.sample: conditional refused before _sample; one draw -> CUQIarray(geometry), several -> Samples(geometry); not overridden; "
                       "a result allocated with N columns has every column 0..N-1 written; several draws reach the Samples collection exactly as _sample returned them", floor=4)
    chk.rule("C05-R5", "product-form families: size (N, dim) transposed (or (dim, N)); parameters not indexed by the sample-count variable", floor=8)
    dist = repo.cls(DIST)
    samplers = []
    for ci in repo.subclasses(dist):
        if "_sample" in ci.methods:
            samplers.append((ci, ci.methods["_sample"]))
    if len(samplers) < 20:
        raise AnchorError(f"{len(samplers)} _sample definitions found, 20 confirmed by hand")
    _r1(chk, repo, samplers)
    # ... and nothing in the layers a draw passes through re-seeds / replaces the global generator
    from ..rngseed import global_rng_rule
    global_rng_rule(chk, repo, "C05-R1", ("cuqi/distribution/", "cuqi/implicitprior/", "cuqi/samples/", "cuqi/array/", "cuqi/geometry/", "cuqi/utilities/", "cuqi/density/"))
    _r2(chk, repo, samplers)
    _r3(chk, repo)
    _r3_location_additive(chk, repo)
    _r4(chk, repo, dist)
    _r4_column_fill(chk, repo)
    _r5(chk, repo, samplers)
    chk.rule("C05-R6", "lazy caches of the distribution layer are reset by every writer of the fields they were computed from "
                       "(a sampler must not use a structure flag / factor cached for an earlier parameter value)", floor=2)
    from ..cachecoh import cache_coherence
    cache_coherence(chk, repo, "C05-R6", ("cuqi/distribution/", "cuqi/implicitprior/", "cuqi/density/"))
    chk.rule("C05-R7", "the triangular fast path of Gaussian._sample is selected by an exact structural test (scale-invariant), not a tolerance comparator", floor=1)
    from ..gram import exact_shortcuts
    exact_shortcuts(chk, repo, "C05-R7", only_methods=True)


def _generator_aliases(fn):
    """locals bound by `g = np.random if rng is None else rng` (or the mirrored form): the global stream exactly when no generator is given"""
    good, bad = set(), []
    for s in walk_no_nested(fn):
        if isinstance(s, ast.Assign) and len(s.targets) == 1 and isinstance(s.targets[0], ast.Name) and isinstance(s.value, ast.IfExp):
            t, a, b = unparse(s.value.test), unparse(s.value.body), unparse(s.value.orelse)
            if "np.random" in (a, b) or "numpy.random" in (a, b):
                if (t in RNG_NONE_T and a in ("np.random", "numpy.random") and b == "rng") or (t in RNG_NONE_F and a == "rng" and b in ("np.random", "numpy.random")):
                    good.add(s.targets[0].id)
                else:
                    bad.append(s)
    return good, bad


def _draws(fn, ci, depth=0) -> bool:
    """does running fn consume random numbers (directly, or through own private methods it calls)?"""
    return depth < 5 and bool(_draw_sites(fn, ci, depth + 1))


def _draw_sites(fn, ci=None, depth=0):
    """(call, kind) kind in global | rng | scipy | forward | alias"""
    out = []
    aliases, _ = _generator_aliases(fn)
    for c in walk_no_nested(fn):
        if not isinstance(c, ast.Call):
            continue
        cn = call_name(c) or ""
        if ci is not None and cn.startswith("self._") and cn.count(".") == 1 and cn != "self._sample":
            r = ci.lookup(cn[5:])
            if r is not None and r[1] is not fn:
                # an own helper: the generator has to reach it exactly when it draws itself (a helper that only post-processes numbers drawn by the
                # caller needs none), whatever it is called
                if _draws(r[1], ci, depth):
                    out.append((c, "forward"))
                continue
        if "." in cn and cn.split(".")[0] in aliases:
            out.append((c, "alias"))
        elif cn.startswith(("np.random.", "numpy.random.")) and cn.split(".")[-1] not in ("RandomState", "default_rng", "seed"):
            out.append((c, "global"))
        elif cn.startswith("rng."):
            out.append((c, "rng"))
        elif cn.endswith(".rvs"):
            out.append((c, "scipy"))
        elif cn.endswith("._sample") or (cn.startswith("self._") and "sample" in cn.lower() and cn != "self._sample"):
            out.append((c, "forward"))
    return out


def _r1(chk, repo, samplers):
    # module-level / helper functions in the distribution package that draw
    helper_fns = []
    for ci, fn in samplers:
        for kind, name, f in ci.all_functions():
            if f is not fn and "rng" in func_params(f):
                helper_fns.append((ci, f))
    for ci, fn in samplers + helper_fns:
        inst = f"{ci.qual}.{fn.name}"
        if _is_refusal_only(fn) or is_abstract(fn):
            continue
        params = func_params(fn)
        g = CFG(fn)
        sites = _draw_sites(fn, ci)
        if "rng" not in params:
            if any(k in ("global", "rng", "scipy") for _, k in sites):
                chk.fail("C05-R1", inst, site(repo, fn), "draws random numbers but has no rng parameter", fn)
            continue
        if ci.name.startswith("UserDefined"):
            chk.note(f"C05-R1 {ci.name}: draws only through the user's callable (outside the rule)")
            continue
        problems = []
        for bad in _generator_aliases(fn)[1]:
            problems.append(f"line {bad.lineno}: `{unparse(bad)[:70]}` selects the global generator under a condition other than `rng is None`")
        # accepted rebinding idiom: `if rng == None: rng = np.random`
        rebinds = [n for n in g.nodes if isinstance(n.ast, ast.Assign) and path_of(n.ast.targets[0]) == "rng"]
        rebound_default = False
        for n in rebinds:
            if unparse(n.ast.value) in ("np.random",) and _rng_is_none_guard(g, n):
                rebound_default = True
            else:
                problems.append(f"line {n.lineno}: rng is rebound to `{unparse(n.ast.value)}`")
        for c, kind in sites:
            n = g.stmt_node_containing(c)
            if n is None:
                continue
            if kind == "global":
                if not _rng_is_none_guard(g, n):
                    problems.append(f"line {c.lineno}: `{unparse(c)[:50]}` uses the global generator although a generator may have been given")
            elif kind == "rng":
                if not (_rng_not_none_guard(g, n) or rebound_default or fn.name != "_sample"):
                    problems.append(f"line {c.lineno}: `{unparse(c)[:50]}` dereferences rng on a path where it may be None")
            elif kind == "scipy":
                kw = {k.arg: unparse(k.value) for k in c.keywords}
                if kw.get("random_state") != "rng":
                    problems.append(f"line {c.lineno}: `{unparse(c)[:50]}` does not pass random_state=rng")
            elif kind == "forward":
                args = [unparse(a) for a in c.args] + [f"{k.arg}={unparse(k.value)}" for k in c.keywords]
                if not any(a in ("rng", "rng=rng") for a in args):
                    problems.append(f"line {c.lineno}: `{unparse(c)[:60]}` does not forward rng")
        if fn.name == "_sample" and not sites:
            problems.append("no draw site recognised (unknown sampling idiom)")
        # sibling branches `if rng is not None: rng.f(args) else: np.random.f(args)` must draw with the same arguments
        for node in walk_no_nested(fn):
            if isinstance(node, ast.If) and unparse(node.test) in RNG_NONE_T | RNG_NONE_F and node.orelse:
                def draws(body):
                    return [c for s_ in body for c in ast.walk(s_) if isinstance(c, ast.Call) and ((call_name(c) or "").startswith(("rng.", "np.random.")))]
                a, b = draws(node.body), draws(node.orelse)
                if len(a) == len(b):
                    for ca, cb in zip(a, b):
                        if (call_name(ca) or '').split('.')[-1] != (call_name(cb) or '').split('.')[-1]:
                            continue      # different generator API (e.g. standard_normal(shape) vs randn(*shape)): signatures differ
                        aa = [unparse(x) for x in ca.args] + sorted(f"{k.arg}={unparse(k.value)}" for k in ca.keywords)
                        bb = [unparse(x) for x in cb.args] + sorted(f"{k.arg}={unparse(k.value)}" for k in cb.keywords)
                        if aa != bb:
                            problems.append(f"line {ca.lineno}: the generator branch draws with {aa} but the global-stream branch with {bb}: "
                                            f"the law of the draws depends on whether a generator is given")
        chk.add("C05-R1", inst, not problems, site(repo, fn), f"{len(sites)} draw site(s): {sorted({k for _, k in sites})}", "; ".join(problems), fn)
    # no other function in cuqi/distribution touches the global generator
    stray = []
    known = {id(fn) for _, fn in samplers + helper_fns}
    for m in repo.modules.values():
        if not m.rel.startswith("cuqi/distribution/"):
            continue
        for f in ast.walk(m.tree):
            if isinstance(f, ast.FunctionDef) and id(f) not in known:
                for c, kind in _draw_sites(f):
                    if kind == "global":
                        stray.append(f"{m.rel}:{f.name}:{c.lineno}")
    chk.add("C05-R1", "cuqi/distribution/*: other functions", not stray, "", "no other function of the distribution package uses the global generator",
            f"global generator used outside _sample: {stray}")


def _r2(chk, repo, samplers):
    n = 0
    for ci, fn in samplers:
        if _is_refusal_only(fn) or is_abstract(fn) or ci.name.startswith("UserDefined"):
            continue
        lp = ci.lookup("logpdf")
        if lp is None or is_abstract(lp[1]) or _is_refusal_only(lp[1]):
            continue
        params = _mutable_params(repo, ci)
        vr = ValueReads(repo, ci)
        r_log, r_s = vr.of(lp[1]), vr.of(fn)
        need = {_group(a.lstrip("_") if a.lstrip("_") in params else a) for a in r_log
                if (a in params or a.lstrip("_") in params) and a not in NORMALISATION_ONLY}
        have = {_group(a.lstrip("_") if a.lstrip("_") in params else a) for a in r_s}
        missing = sorted(need - have)
        n += 1
        chk.add("C05-R2", f"{ci.qual}._sample", not missing, site(repo, fn), f"density and sampler both depend on {sorted(need)}",
                f"the log-density depends on parameter(s) {missing} that the sampler never reads: draws cannot follow the density for all parameter values", fn)
    if n < 8:
        raise AnchorError(f"{n} sampler/density pairs found, 8 confirmed by hand")


SOLVERS = {"spa.linalg.spsolve", "splinalg.spsolve", "splinalg.solve", "splinalg.solve_triangular", "spsolve", "solve", "solve_triangular",
           "sp.sparse.linalg.spsolve", "sp.linalg.solve", "np.linalg.solve", "nplinalg.solve"}


def _r4_column_fill(chk, repo):
    """A sampler that fills a (dim, N) array draw by draw fills EVERY column exactly once: `for i in range(N): out[:, i] = draw`, or column 0 first and
    `for i in range(N-1): out[:, i+1] = draw` / `for i in range(1, N): out[:, i] = draw`.  (A loop that re-writes column 0 and leaves the last column at its
    initial zeros returns N columns of which one is not a draw.)"""
    from ..pattern import norm as pn
    n = 0
    for m in repo.modules.values():
        if not m.rel.startswith("cuqi/distribution/"):
            continue
        for ci in m.classes.values():
            fn = ci.methods.get("_sample")
            if fn is None:
                continue
            allocs = {}
            for st in ast.walk(fn):
                if isinstance(st, ast.Assign) and len(st.targets) == 1 and isinstance(st.targets[0], ast.Name) and isinstance(st.value, ast.Call) \
                        and (call_name(st.value) or "") in ("np.zeros", "np.empty") and st.value.args and isinstance(st.value.args[0], ast.Tuple) and len(st.value.args[0].elts) == 2:
                    allocs[st.targets[0].id] = pn(st.value.args[0].elts[1])
            for lp in [x for x in ast.walk(fn) if isinstance(x, ast.For)]:
                if not (isinstance(lp.target, ast.Name) and isinstance(lp.iter, ast.Call) and call_name(lp.iter) == "range"):
                    continue
                i = lp.target.id
                for st in lp.body:
                    if not (isinstance(st, ast.Assign) and len(st.targets) == 1 and isinstance(st.targets[0], ast.Subscript) and isinstance(st.targets[0].value, ast.Name)
                            and st.targets[0].value.id in allocs and isinstance(st.targets[0].slice, ast.Tuple) and len(st.targets[0].slice.elts) == 2
                            and isinstance(st.targets[0].slice.elts[0], ast.Slice)):
                        continue
                    arr = st.targets[0].value.id
                    N = allocs[arr]
                    idx = pn(st.targets[0].slice.elts[1])
                    rng_ = [pn(a_) for a_ in lp.iter.args]
                    first = any(isinstance(q, ast.Assign) and isinstance(q.targets[0], ast.Subscript) and path_of(q.targets[0].value) == arr
                                and isinstance(q.targets[0].slice, ast.Tuple) and pn(q.targets[0].slice.elts[1]) == "0" for q in ast.walk(fn))
                    ok = (rng_ == [N] and idx == i) or (first and rng_ == [f"{N}-1"] and idx in (f"{i}+1", f"1+{i}")) or (first and rng_ == ["1", N] and idx == i)
                    n += 1
                    chk.add("C05-R4", f"{ci.qual}._sample/columns@{arr}", ok, site(repo, lp), f"every one of the {N} columns of `{arr}` is filled by one draw",
                            f"`for {i} in range({', '.join(rng_)}): {arr}[:, {idx}] = ...` does not fill each of the {N} columns of `{arr}` exactly once: a column is drawn twice and "
                            f"another keeps its initial value, so the returned collection contains a column that is not a draw", lp)
    return n


def _r3_location_additive(chk, repo):
    """Where a direct sampler combines its location (mean) with a perturbation itself (instead of handing it to a NumPy/SciPy generator as loc), the
    location is an ADDITIVE, unscaled term of the draw: on the way from the drawn expression down to `self.mean` there are only + / - nodes (and
    indexing / reshaping of the mean).  `(mean + z)/sqrt(prec)` has the right covariance and the centre mean/sqrt(prec), while logpdf stays centred at mean."""
    LOC = {"self.mean", "self.location", "self._mean"}

    def chain(root, target):
        path = []

        def rec(cur, st):
            if cur is target:
                path.extend(st)
                return True
            return any(rec(ch, st + [cur]) for ch in ast.iter_child_nodes(cur))
        rec(root, [])
        return path
    n = 0
    for m in repo.modules.values():
        if not m.rel.startswith("cuqi/distribution/"):
            continue
        for ci in m.classes.values():
            work = [ci.methods["_sample"]] if "_sample" in ci.methods else []
            seen = set()
            while work:
                fn = work.pop()
                if id(fn) in seen:
                    continue
                seen.add(id(fn))
                for c in ast.walk(fn):
                    if isinstance(c, ast.Call) and (call_name(c) or "").startswith("self._") and (call_name(c) or "").count(".") == 1:
                        r = ci.lookup(call_name(c)[5:])
                        if r is not None:
                            work.append(r[1])
                for st in ast.walk(fn):
                    if not (isinstance(st, (ast.Assign, ast.Return, ast.AugAssign)) and getattr(st, "value", None) is not None):
                        continue
                    for a in ast.walk(st.value):
                        if not (isinstance(a, ast.Attribute) and path_of(a) in LOC):
                            continue
                        ch = chain(st.value, a)
                        if any(isinstance(x, (ast.Call, ast.keyword)) and not (isinstance(x, ast.Call) and isinstance(x.func, ast.Attribute) and x.func.attr in ("reshape", "flatten", "ravel", "copy"))
                               for x in ch):
                            continue           # handed to a generator / helper as an argument
                        if not any(isinstance(x, ast.BinOp) for x in ch):
                            continue
                        n += 1
                        scaled = [x for x in ch if isinstance(x, ast.BinOp) and not isinstance(x.op, (ast.Add, ast.Sub))]
                        chk.add("C05-R3", f"{ci.qual}.{fn.name}/location@{unparse(st)[:40]}", not scaled, site(repo, st), "location is an additive, unscaled term of the draw",
                                f"`{unparse(st)[:90]}`: the location is multiplied / divided together with the perturbation (`{unparse(scaled[0])[:60] if scaled else ''}`): the draws "
                                f"have the right spread but are centred at a scaled location, while the log-density stays centred at the location itself", st)
    if n < 2:
        raise AnchorError(f"{n} location + perturbation sums found in the direct samplers, at least 2 expected (Gaussian, GMRF; 5 on the pinned tree)")


def _r3(chk, repo):
    from .common import canon_fn, pmatch
    from ..flow import Expander
    ga_ci = repo.cls("cuqi/distribution/_gaussian.py:Gaussian")
    gs_src = repo.func("cuqi/distribution/_gaussian.py:Gaussian._sample")
    gs = canon_fn(repo, ga_ci, gs_src, 4)        # structural normal form, local aliases such as `S = self.sqrtprec` substituted
    ex = Expander(gs)
    g = ex.cfg
    problems = []
    rets = g.returns()
    # the sample is mean[:, None] + P ; every definition of P that reaches it is a linear solve of self.sqrtprec against the draw
    b = None
    if len(rets) == 1:
        rv = ex.expand(rets[0].ast.value, rets[0], stop=frozenset())
        b = pmatch("self.mean[:,None]+$P", rets[0].ast.value) or pmatch("$P+self.mean[:,None]", rets[0].ast.value)
        if b is None:
            sdefs = ex.defs(rets[0], path_of(rets[0].ast.value) or "?")
            for dn, rhs in sdefs:
                if rhs is not None:
                    b = b or pmatch("self.mean[:,None]+$P", rhs) or pmatch("$P+self.mean[:,None]", rhs)
                    at = dn
        else:
            at = rets[0]
    if b is None:
        raise AnchorError("Gaussian._sample: `mean[:, None] + perturbation` not found")
    P = b["P"]
    asg = [n for n in g.nodes if n.kind == "stmt" and isinstance(n.ast, ast.Assign) and path_of(n.ast.targets[0]) == P]
    if len(asg) < 3:
        raise AnchorError("Gaussian._sample: perturbation assignments not found")
    nsolve = 0
    for n in asg:
        v = n.ast.value
        if isinstance(v, ast.Subscript) and path_of(v.value) == P:
            continue                      # P = P[:, None]: re-shaping of the solve result
        core = v.value if isinstance(v, ast.Subscript) else v
        draw_ok = False
        if isinstance(core, ast.Call) and (call_name(core) in SOLVERS) and len(core.args) >= 2 and unparse(core.args[0]) == "self.sqrtprec":
            rhs_name = path_of(core.args[1])
            ds = ex.defs(n, rhs_name) if rhs_name else []
            dtx = [unparse(ex.expand(r, d)) for d, r in ds if r is not None]
            draw_ok = bool(dtx) and len(dtx) == len(ds) and all(("randn(" in t or "standard_normal(" in t) for t in dtx)
        if not draw_ok:
            problems.append(f"line {n.lineno}: perturbation `{unparse(v)[:70]}` is not a linear solve with self.sqrtprec applied to the standard-normal draw")
        else:
            nsolve += 1
    chk.add("C05-R3", "cuqi/distribution/_gaussian.py:Gaussian._sample/solves", not problems and nsolve >= 3, site(repo, gs_src),
            f"{len(asg)} branches, each a solve of sqrtprec against the standard-normal draw", "; ".join(problems), gs)
    # triangular orientation (contradiction rule) in the whole distribution package
    ntri = 0
    for m in repo.modules.values():
        if not m.rel.startswith("cuqi/"):
            continue
        for fn in [f for f in ast.walk(m.tree) if isinstance(f, ast.FunctionDef)]:
            calls = [c for c in walk_no_nested(fn) if isinstance(c, ast.Call) and (call_name(c) or "").endswith("solve_triangular")]
            if not calls:
                continue
            cg = CFG(fn)
            for c in calls:
                ntri += 1
                n = cg.stmt_node_containing(c)
                lower = None
                for k in c.keywords:
                    if k.arg == "lower":
                        lower = unparse(k.value)
                guard_kind = None
                A = unparse(c.args[0])
                for t, lab in cg.guards_of(n):
                    txt = unparse(t.ast)
                    if lab == "T" and f"np.tril({A})" in txt:
                        guard_kind = "lower"
                    if lab == "T" and f"np.triu({A})" in txt:
                        guard_kind = "upper"
                inst = f"{m.rel}:{fn.name}/solve_triangular({A})"
                if guard_kind is None:
                    chk.ok("C05-R3", inst, f"{m.rel}:{c.lineno}", "no tril/triu guard states the orientation")
                else:
                    ok = (guard_kind == "lower" and lower == "True") or (guard_kind == "upper" and lower in (None, "False"))
                    chk.add("C05-R3", inst, ok, f"{m.rel}:{c.lineno}", f"guard says {guard_kind}-triangular, call passes lower={lower}",
                            f"the guard establishes that {A} is {guard_kind}-triangular but solve_triangular is called with lower={lower} "
                            f"(SciPy then reads only the other triangle)", c)
    if ntri < 1:
        raise AnchorError("no solve_triangular call found (Gaussian._sample expected)")
    _gmrf_factor_order(chk, repo)
    # spsolve with a single right-hand side inside _sample functions
    for spec in ("cuqi/distribution/_gaussian.py:Gaussian._sample", "cuqi/distribution/_gmrf.py:GMRF._sample"):
        fn_src = repo.func(spec)
        fn = canon_fn(repo, repo.cls(spec.rsplit(".", 1)[0]), fn_src, 4)
        # shapes for a single draw, read off the closed form of the returned value on every path with N == 1: SciPy's spsolve returns a 1-D array for a
        # single right-hand side, so a bare spsolve(...) (not re-shaped / indexed) must not be added to the column `mean[:, newaxis]`
        from ..pathtable import walk_all
        from ..pattern import norm as pn
        nparam = func_params(fn_src)[1]
        problems = []
        noted = [0]

        def is_sps(c):
            return isinstance(c, ast.Call) and (call_name(c) or "").endswith("spsolve")

        def verdict(e):
            from ..canon import set_parents
            e = set_parents(ast.Expression(body=e)).body
            bad = []
            for c in ast.walk(e):
                if not is_sps(c):
                    continue
                par = getattr(c, "_parent", None)
                if is_sps(par) or (isinstance(par, ast.Attribute) and par.attr == "reshape") or (isinstance(par, ast.Subscript) and par.value is c):
                    continue          # right-hand side of another solve / re-shaped / indexed
                noted[0] += 1
                cur = c
                while True:
                    up = getattr(cur, "_parent", None)
                    if isinstance(up, ast.BinOp) and isinstance(up.op, (ast.Add, ast.Sub)):
                        other = up.left if up.right is cur else up.right
                        col = any(isinstance(x, ast.Subscript) and isinstance(x.slice, ast.Tuple) and len(x.slice.elts) == 2
                                  and (path_of(x.slice.elts[1]) == "np.newaxis" or (isinstance(x.slice.elts[1], ast.Constant) and x.slice.elts[1].value is None))
                                  for x in ast.walk(other))
                        if col:
                            bad.append(pn(up)[:160])
                        break
                    if isinstance(up, ast.BinOp) or (isinstance(up, ast.Call) and (call_name(up) or "") in ("np.real", "np.asarray", "np.array") and cur in up.args):
                        cur = up
                        continue
                    break
            return ast.Constant(value="; ".join(bad))
        outs = walk_all(fn, {pn(f"{nparam}==1"): True}, pn, project=verdict, limit=256)
        for kind, txt in sorted(outs, key=str):
            if kind == "return" and txt not in ("''", '""'):
                problems.append(f"for a single draw the 1-D result of spsolve(...) is added to the column mean[:, None] (broadcasts to dim x dim): {txt}")
            elif kind in ("unknown", "loop"):
                chk.unknown("C05-R3", f"{spec}/spsolve-single-rhs", site(repo, fn_src), f"path not decidable: {kind} {txt}", fn_src)
                problems = None
                break
        if problems is None:
            continue
        outer = range(noted[0])
        chk.add("C05-R3", f"{spec}/spsolve-single-rhs", not problems, site(repo, fn_src), f"{len(outer)} spsolve result(s) special-cased for N == 1 or reshaped",
                "; ".join(problems), fn)


def _gmrf_factor_order(chk, repo):
    """GMRF stores one triangular factor `_chol` of its precision structure matrix A. Its orientation is read from where it is assigned
    (sparse_cholesky returns the UPPER factor U with A = U.T @ U, so `sparse_cholesky(A).T` is the lower factor L with A = L @ L.T).
    A draw with covariance A^-1 is F^-1 xi with F.T @ F = A, i.e. F = L.T; a solve of A z = b is L y = b followed by L.T z = y.
    Both uses are compared with the orientation established at the assignment."""
    from .common import canon_fn
    from ..pattern import norm as pn
    gm = repo.cls("cuqi/distribution/_gmrf.py:GMRF")
    init = canon_fn(repo, gm, repo.method(gm, "__init__")[1], 2)       # helpers the constructor delegates the factorisation to are inlined
    defs = [s for s in ast.walk(init) if isinstance(s, ast.Assign) and path_of(s.targets[0]) == "self._chol"]
    sc = repo.func("cuqi/utilities/_utilities.py:sparse_cholesky")
    upper = any(isinstance(r, ast.Return) and isinstance(r.value, ast.Attribute) and r.value.attr == "T" for r in ast.walk(sc))
    if not defs or not upper:
        raise AnchorError("GMRF: assignment of the Cholesky factor / orientation of sparse_cholesky not recognised")
    roles = set()
    for d in defs:
        v = d.value
        if isinstance(v, ast.Attribute) and v.attr == "T" and isinstance(v.value, ast.Call) and call_name(v.value) == "sparse_cholesky":
            roles.add("L")
        elif isinstance(v, ast.Call) and call_name(v) == "sparse_cholesky":
            roles.add("U")
        else:
            raise AnchorError(f"GMRF: `{unparse(d)[:60]}` - orientation of the factor not recognised")
    if len(roles) != 1:
        chk.fail("C05-R3", f"{gm.qual}.__init__/factor-orientation", site(repo, defs[0]), "the Cholesky factor is stored with different orientations on different branches", defs[0])
        return
    role = roles.pop()
    LT, Lw = ("self._chol.T", "self._chol") if role == "L" else ("self._chol", "self._chol.T")     # (text of L^T, text of L)
    fn_src = repo.method(gm, "_sample")[1]
    fn = canon_fn(repo, gm, fn_src, 4)
    problems, n = [], 0
    for c in ast.walk(fn):
        if not (isinstance(c, ast.Call) and (call_name(c) or "").endswith("spsolve") and len(c.args) == 2):
            continue
        par = getattr(c, "_parent", None)
        if isinstance(par, ast.Call) and (call_name(par) or "").endswith("spsolve") and par.args[1] is c:
            continue                       # inner solve, judged with its outer solve
        F = pn(c.args[0])
        rhs = c.args[1]
        if isinstance(rhs, ast.Call) and (call_name(rhs) or "").endswith("spsolve") and len(rhs.args) == 2:
            n += 1
            inner = pn(rhs.args[0])
            if not (inner == Lw and F == LT):
                problems.append(f"line {c.lineno}: A z = b is solved with `{inner}` first and `{F}` second; with A = L L^T (L = `{Lw}`) it is L y = b, then L^T z = y: "
                                f"the other order solves (L^T L) z = b, a different matrix")
        elif "_chol" in F:
            n += 1
            if F != LT:
                problems.append(f"line {c.lineno}: a draw `spsolve({F}, xi)` has covariance ({F}.T {F})^-1; the precision structure is L L^T, so the factor must be `{LT}`")
    if n < 2:
        raise AnchorError("GMRF._sample: solves with the Cholesky factor not found")
    chk.add("C05-R3", f"{gm.qual}._sample/factor-order", not problems, site(repo, fn_src), f"{n} solve(s) use the stored factor (role {role}) in the orientation of A = L L^T",
            "; ".join(problems), fn_src)
    # spectral samplers: drawing through a DFT diagonalisation is only meaningful for a circulant precision, i.e. a SQUARE wrap-around difference operator.
    # For every boundary condition whose branch of _sample uses the DFT, the operator table (rows of D per boundary condition, read from
    # _create_diff_matrix) must say N rows.
    from .common import cases_reaching, OTHER
    from . import c20 as _c20
    g = CFG(fn_src)
    spectral = [nd for nd in g.nodes if nd.ast is not None and nd.kind in ("stmt", "return") and
                any(isinstance(c, ast.Call) and ((call_name(c) or "").split(".")[-1] in ("dft", "fft", "ifft", "fft2", "ifft2")) for c in ast.walk(nd.ast))]
    t1 = _c20._bc_table(repo.method(repo.cls("cuqi/operator/_operator.py:FirstOrderFiniteDifference"), "_create_diff_matrix")[1])
    bad = []
    for nd in spectral:
        for bc in cases_reaching(g, nd, "self._bc_type"):
            if bc is OTHER:
                continue
            rows = _c20._row_offset(t1.get(bc, {}).get("rows"))
            if rows != 0:
                bad.append(f"bc_type='{bc}' is sampled through a DFT (`{unparse(nd.ast)[:50]}`), but its difference operator has N{rows:+d} rows: D.T@D is not circulant "
                           f"(the wrap-around difference enters twice), so the DFT does not diagonalise the precision the log-density uses")
    chk.add("C05-R3", f"{gm.qual}._sample/spectral-requires-circulant", not bad, site(repo, fn_src),
            f"{len(spectral)} spectral statement(s); each only for boundary conditions with a square wrap-around operator", "; ".join(sorted(set(bad))), fn_src)


def _r4(chk, repo, dist):
    from .common import canon_fn, guarded
    from ..flow import Expander
    from ..pattern import norm as pn
    fn_src = repo.method(dist, "sample")[1]
    fn = canon_fn(repo, dist, fn_src, 2)          # structural normal form, private helpers (e.g. a wrapping helper) inlined
    ex = Expander(fn)
    g = ex.cfg
    call = [n for n in g.nodes if n.ast is not None and n.kind in ("stmt", "return") and any(isinstance(c, ast.Call) and call_name(c) == "self._sample" for c in ast.walk(n.ast))]
    if len(call) != 1:
        raise AnchorError("Distribution.sample: expected one call of self._sample")
    refuse = guarded(g, call[0], "self.is_cond", "F") or guarded(g, call[0], "not self.is_cond", "T")
    chk.add("C05-R4", f"{dist.qual}.sample/refuse-conditional", refuse, site(repo, fn_src), "raises when is_cond before any draw",
            "a conditional distribution can reach _sample (missing conditioning variables are not refused)", fn_src)
    c = [x for x in ast.walk(call[0].ast) if isinstance(x, ast.Call) and call_name(x) == "self._sample"][0]
    ok = pn(c) == pn("self._sample(N,*args,**kwargs)")
    chk.add("C05-R4", f"{dist.qual}.sample/forwarding", ok, site(repo, fn_src), "forwards N and the caller's rng", f"_sample is called as `{unparse(c)}`", c)
    # every returned value is CUQIarray(., geometry=self.geometry) for one draw and Samples(., self.geometry) otherwise
    problems, kinds = [], set()
    for r in g.returns():
        cands = []
        if isinstance(r.ast.value, ast.Call):
            cands.append((r, r.ast.value))
        elif path_of(r.ast.value):
            for dn, rhs in ex.defs(r, path_of(r.ast.value)):
                cands.append((dn, rhs))
        else:
            problems.append(f"line {r.lineno}: returns `{unparse(r.ast.value)[:40]}`")
        for dn, rhs in cands:
            cn = call_name(rhs) if isinstance(rhs, ast.Call) else None
            one = guarded(g, dn, "N==1", "T") or guarded(g, dn, "N!=1", "F") or (dn is not r and (guarded(g, r, "N==1", "T") or guarded(g, r, "N!=1", "F")))
            many = guarded(g, dn, "N==1", "F") or guarded(g, dn, "N!=1", "T") or (dn is not r and (guarded(g, r, "N==1", "F") or guarded(g, r, "N!=1", "T")))
            gv = lambda e_, at=(dn if dn.kind != "return" else r): pn(ex.expand(e_, at))          # a local naming self.geometry is read through
            if cn == "CUQIarray" and one and any(k.arg == "geometry" and gv(k.value) == "self.geometry" for k in rhs.keywords):
                kinds.add("one")
            elif cn == "Samples" and many and ((len(rhs.args) >= 2 and gv(rhs.args[1]) == "self.geometry") or any(k.arg == "geometry" and gv(k.value) == "self.geometry" for k in rhs.keywords)):
                kinds.add("many")
                # several draws reach the collection exactly as _sample returned them ((dim, N), one draw per column): on every path the first argument
                # is the value of the _sample call itself, not a re-oriented / re-shaped version of it
                if rhs.args:
                    for alt in ex.expand_all(rhs.args[0], dn if dn.kind != "return" else r):
                        if not (isinstance(alt, ast.Call) and call_name(alt) == "self._sample"):
                            problems.append(f"the block of draws handed to Samples can be `{unparse(alt)[:70]}`, not the (dim, N) block _sample returned "
                                            f"(a transposition guessed from the shape is wrong whenever N == dim)")
            else:
                problems.append(f"line {getattr(dn, 'lineno', 0)}: result `{unparse(rhs)[:60] if rhs is not None else '?'}` is not CUQIarray(., geometry=self.geometry) "
                                f"for one draw / Samples(., self.geometry) for several")
    ok = not problems and kinds == {"one", "many"}
    chk.add("C05-R4", f"{dist.qual}.sample/wrapping", ok, site(repo, fn_src), "N==1 -> CUQIarray(s, geometry=self.geometry); else Samples(s, self.geometry)",
            "draws are not wrapped with the distribution's geometry as array (one draw) / sample collection (several): " + "; ".join(problems), fn_src)
    over = [c.qual for c in repo.subclasses(dist) if "sample" in c.methods]
    chk.add("C05-R4", f"{dist.qual}.sample/not-overridden", not over, "", "no subclass overrides sample()", f"sample() overridden in {over}")


PRODUCT_FORM = ["Normal", "Laplace", "Uniform", "Gamma", "InverseGamma", "Beta", "Cauchy"]


def _r5(chk, repo, samplers):
    from .common import canon_fn
    n = 0
    for ci, fn in samplers:
        if ci.name in PRODUCT_FORM and ci.module.rel.startswith("cuqi/distribution/"):
            n += 1
            problems = []
            fn_src = fn
            fn = canon_fn(repo, ci, fn_src, 4)        # a draw bound to a single-use temporary and transposed in the next statement is `draw(...).T`
            draws = [c for c, k in _draw_sites(fn) if k in ("global", "rng", "scipy")]
            for c in draws:
                size = None
                for k in c.keywords:
                    if k.arg == "size":
                        size = k.value
                if size is None and c.args and isinstance(c.args[-1], ast.Tuple):
                    size = c.args[-1]
                stxt = unparse(size).replace(" ", "") if size is not None else None
                par = getattr(c, "_parent", None)
                transposed = isinstance(par, ast.Attribute) and par.attr == "T"
                if stxt == "(N,self.dim)" and transposed:
                    continue
                if stxt == "(self.dim,N)" and not transposed:
                    continue
                problems.append(f"line {c.lineno}: draw of size {stxt} {'transposed' if transposed else 'not transposed'}: sample axis is not the last axis")
            chk.add("C05-R5", f"{ci.qual}._sample/axis", not problems, site(repo, fn_src), "draws (N, dim) and returns the transpose", "; ".join(problems), fn_src)
    if n < 7:
        raise AnchorError(f"{n} product-form samplers found, 7 confirmed by hand")
    # parameters indexed by the sample-count variable
    for ci, fn in samplers:
        if _is_refusal_only(fn) or is_abstract(fn):
            continue
        params = func_params(fn)
        if len(params) < 2:
            continue
        N = params[1]
        bad = []
        for node in ast.walk(fn):
            gens = []
            if isinstance(node, (ast.ListComp, ast.GeneratorExp, ast.SetComp)):
                gens = [(g_.target, g_.iter, node) for g_ in node.generators]
            elif isinstance(node, ast.For):
                gens = [(node.target, node.iter, node)]
            for tgt, it, scope in gens:
                if isinstance(tgt, ast.Name) and isinstance(it, ast.Call) and call_name(it) == "range" and unparse(it.args[-1]) == N:
                    for s in ast.walk(scope):
                        if isinstance(s, ast.Subscript) and (path_of(s.value) or "").startswith("self.") and \
                                tgt.id in {x.id for x in ast.walk(s.slice) if isinstance(x, ast.Name)}:
                            bad.append(f"line {s.lineno}: `{unparse(s)}` indexes a parameter by the sample counter `{tgt.id}` (range({N}))")
        if bad:
            chk.fail("C05-R5", f"{ci.qual}._sample/index", site(repo, fn), "; ".join(bad), fn)
        else:
            chk.ok("C05-R5", f"{ci.qual}._sample/index", site(repo, fn), "no parameter is indexed by the sample-count variable")
