"""C06 — linear RTO / UGLA draws: structure of the stacked least-squares system.

 R1 transpose pairing: in each two-mode operator M(x, flag) the flag==2 branch applies, block by block, the adjoint of
    the flag==1 branch: (c * L @ F(x))  <->  F*(L.T @ slice) with the same scalar c, slices accumulated from the same
    per-likelihood lengths in the same order, blocks summed
 R2 right-hand side and operator are whitened alike (same matrix chain and scalar per block); UGLA rebuilds every
    quantity derived from the local Laplace factor before each solve
 R3 step shape: y = b_tild + N(0, I) of the same length; solver constructed on (M, y, current state); new state is the
    solver's first result
 R4 sqrtprecTimesMean is sqrtprec @ mean of the same object
"""
from __future__ import annotations
import ast
from typing import Dict, List, Optional, Tuple

from ..index import Repo, AnchorError
from ..cfg import CFG, path_of
from ..astutil import unparse, call_name, func_params, walk_no_nested
from .common import site

SITES = [
    # (module, class, function holding the closure M, kind)
    ("cuqi/experimental/mcmc/_rto.py", "LinearRTO", "_precompute", "rto"),
    ("cuqi/sampler/_rto.py", "LinearRTO", "__init__", "rto"),
    ("cuqi/experimental/mcmc/_laplace_approximation.py", "UGLA", "_precompute", "ugla"),
    ("cuqi/sampler/_laplace_approximation.py", "UGLA", "_sample", "ugla"),
]


def _norm(e) -> str:
    return unparse(e).replace(" ", "").replace("\n", "")


class Chain:
    """c * op1(op2(...(arg)))  with ops outer->inner; op = ('mat', text) for `A @ .` or ('fn', text) for `f(.)`"""

    def __init__(self, coef: str, ops: List[Tuple[str, str]], arg: ast.expr):
        self.coef, self.ops, self.arg = coef, ops, arg

    def __repr__(self):
        return f"{self.coef}*" + " ∘ ".join(f"{k}:{t}" for k, t in self.ops) + f"({_norm(self.arg)})"


def parse_chain(e: ast.expr, subst: Dict[str, str]) -> Chain:
    coef = "1"
    ops: List[Tuple[str, str]] = []
    cur = e
    while True:
        if isinstance(cur, ast.BinOp) and isinstance(cur.op, ast.Mult):
            # scalar * (...)
            left, right = cur.left, cur.right
            if isinstance(right, ast.BinOp) and isinstance(right.op, ast.MatMult) or isinstance(right, ast.Call):
                coef = _norm(left) if coef == "1" else coef + "*" + _norm(left)
                cur = right
                continue
            break
        if isinstance(cur, ast.BinOp) and isinstance(cur.op, ast.MatMult):
            t = _norm(cur.left)
            t = _subst(t, subst)
            ops.append(("mat", t))
            cur = cur.right
            continue
        if isinstance(cur, ast.Call) and len(cur.args) == 1 and not cur.keywords and isinstance(cur.func, ast.Attribute) \
                and cur.func.attr in ("forward", "adjoint"):
            ops.append(("fn", _subst(_norm(cur.func), subst)))
            cur = cur.args[0]
            continue
        break
    return Chain(coef, ops, cur)


def _subst(t: str, subst: Dict[str, str]) -> str:
    for k, v in subst.items():
        if t == k:
            return v
        if t == k + ".T":
            return v + ".T"
    return t


def adjoint_of(op: Tuple[str, str]) -> Tuple[str, str]:
    k, t = op
    if k == "mat":
        return ("mat", t[:-2] if t.endswith(".T") else t + ".T")
    if t.endswith(".forward"):
        return ("fn", t[: -len("forward")] + "adjoint")
    if t.endswith(".adjoint"):
        return ("fn", t[: -len("adjoint")] + "forward")
    return ("fn", t + "^*")


def _find_M(fn) -> ast.FunctionDef:
    ms = [n for n in ast.walk(fn) if isinstance(n, ast.FunctionDef) and n.name == "M"]
    if len(ms) != 1:
        raise AnchorError(f"{fn.name}: closure M(x, flag) not found")
    return ms[0]


def _branches(M) -> Tuple[List[ast.stmt], List[ast.stmt]]:
    ifs = [s for s in M.body if isinstance(s, ast.If)]
    if len(ifs) != 1 or _norm(ifs[0].test) != "flag==1" or len(ifs[0].orelse) != 1 or not isinstance(ifs[0].orelse[0], ast.If) \
            or _norm(ifs[0].orelse[0].test) != "flag==2":
        raise AnchorError("M: expected `if flag == 1: ... elif flag == 2: ...`")
    return ifs[0].body, ifs[0].orelse[0].body


def _assigns(body) -> Dict[str, ast.expr]:
    out = {}
    for s in body:
        if isinstance(s, ast.Assign) and isinstance(s.targets[0], ast.Name):
            out[s.targets[0].id] = s.value
    return out


def run(chk, repo: Repo):
    chk.rule("C06-R1", "flag==2 branch of M is the blockwise adjoint of the flag==1 branch (same scalars, transposed matrices, adjoint maps, matching slices)", floor=4)
    chk.rule("C06-R2", "right-hand side blocks are whitened with the same chain/scalar as the operator blocks; UGLA recomputes all quantities derived from the Laplace factor each step", floor=4)
    chk.rule("C06-R3", "y = b_tild + standard normal of len(b_tild); solver on (M, y, current state); new state = first solver result", floor=4)
    chk.rule("C06-R4", "sqrtprecTimesMean = sqrtprec @ mean of the same object", floor=3)
    chk.rule("C06-R5", "per-block operator closures do not capture the block variable late (closures built in a loop / comprehension over the "
                       "likelihood blocks must bind the block by value)", floor=8)
    from ..latebind import latebind_rule
    latebind_rule(chk, repo, "C06-R5", ("cuqi/experimental/mcmc/", "cuqi/sampler/"))
    for mod, cls, fname, kind in SITES:
        ci = repo.cls(f"{mod}:{cls}")
        fn = repo.method(ci, fname)[1]
        if kind == "rto":
            _rto(chk, repo, ci, fn)
        else:
            _ugla(chk, repo, ci, fn)
    _r3(chk, repo)
    _r4(chk, repo)


def _rto(chk, repo, ci, fn):
    inst = f"{ci.qual}.{fn.name}/M"
    M = _find_M(fn)
    b1, b2 = _branches(M)
    from ..pattern import statements, unify, find
    problems = []
    S1 = [(t, a) for st in b1 for t, a in statements(ast.Module(body=[st], type_ignores=[]), nested=True)]
    S2 = [(t, a) for st in b2 for t, a in statements(ast.Module(body=[st], type_ignores=[]), nested=True)]
    xarg = func_params(M)[0]
    # L1 definition gives the meaning of the zipped variable L
    outer = _assigns(fn.body)
    L1 = outer.get("L1")
    if not (isinstance(L1, ast.ListComp) and _norm(L1) == "[likelihood.distribution.sqrtprecforlikelihoodinself.likelihoods]"):
        raise AnchorError(f"{inst}: L1 is not the list of the likelihoods' sqrtprec")
    if _norm(outer.get("L2", ast.Constant(value=None))) != "self.prior.sqrtprec":
        problems.append("L2 is not the prior's sqrtprec")
    subst = {"L": "likelihood.distribution.sqrtprec", "L2": "self.prior.sqrtprec"}
    # forward branch: stacked = hstack(likelihood blocks + [prior block])
    bf, used = unify(["$o=np.hstack($o1+[$o2])"], S1)
    if bf is None:
        raise AnchorError(f"{inst}: forward branch does not stack `np.hstack(blocks + [prior block])`")
    a1 = _assigns(b1)
    o1 = a1.get(bf["o1"])
    if not (isinstance(o1, ast.ListComp) and _norm(o1.generators[0].iter) == "zip(L1,self.likelihoods)" and _norm(o1.generators[0].target) in ("(L,likelihood)", "L,likelihood")):
        raise AnchorError(f"{inst}: forward likelihood blocks are not a comprehension over zip(L1, self.likelihoods)")
    fwd_like = parse_chain(o1.elt, subst)
    fwd_prior = parse_chain(a1.get(bf["o2"]), subst)
    if _norm(fwd_like.arg) != xarg or _norm(fwd_prior.arg) != xarg:
        problems.append("forward blocks do not act on the operator's argument")
    # adjoint branch
    loops = [s_ for s_ in b2 if isinstance(s_, ast.For)]
    adj_like = None
    if len(loops) != 1 or _norm(loops[0].iter) not in ("self.likelihoods", "zip(L1,self.likelihoods)"):
        problems.append("adjoint branch does not loop over self.likelihoods (same enumeration as the forward stacking)")
    else:
        LB = statements(loops[0], nested=True)
        ba, used = unify(["$ie+=len(likelihood.data)", "$is=$ie"], LB)
        acc = [a for t, a in LB if isinstance(a, ast.AugAssign) and isinstance(a.op, ast.Add) and isinstance(a.value, ast.Call)
               and not (used and a is used[0])]
        if ba is None or len(acc) != 1:
            problems.append("slice bookkeeping is not `end += len(likelihood.data); accumulate block; start = end`")
        else:
            adj_like = parse_chain(acc[0].value, subst)
            want = [adjoint_of(op) for op in reversed(fwd_like.ops)]
            if adj_like.ops != want or adj_like.coef != fwd_like.coef:
                problems.append(f"likelihood block: forward is {fwd_like}, adjoint is {adj_like}; expected operators {want} "
                                f"(the adjoint of L·F is F*·Lᵀ)")
            if _norm(adj_like.arg) != f"{xarg}[{ba['is']}:{ba['ie']}]":
                problems.append(f"adjoint likelihood block acts on `{_norm(adj_like.arg)}`, not on its own slice {xarg}[start:end]")
            order = [t for t, a in LB]
            i_end = order.index(f"{ba['ie']}+=len(likelihood.data)")
            i_acc = [i for i, (t, a) in enumerate(LB) if a is acc[0]][0]
            i_st = order.index(f"{ba['is']}={ba['ie']}")
            if not (i_end < i_acc < i_st):
                problems.append("slice bounds are not advanced before, and the start not after, the block is accumulated")
            accname = _norm(acc[0].target)
            inits = {t for t, a in S2}
            if not {f"{ba['is']}=0", f"{ba['ie']}=0", f"{accname}=np.zeros(self.n)"} <= inits:
                problems.append("slice counters / accumulator are not initialised to zero")
            bo, _ = unify([f"$o={accname}+$p2"], S2)
            if bo is None:
                problems.append("adjoint blocks are not summed")
            else:
                adj_prior = parse_chain(_assigns(b2).get(bo["p2"]), subst)
                want = [adjoint_of(op) for op in reversed(fwd_prior.ops)]
                if adj_prior.ops != want or adj_prior.coef != fwd_prior.coef:
                    problems.append(f"prior block: forward is {fwd_prior}, adjoint is {adj_prior}; expected operators {want}")
                if _norm(adj_prior.arg) != f"{xarg}[{ba['ie']}:]":
                    problems.append(f"adjoint prior block acts on `{_norm(adj_prior.arg)}`, not on the trailing slice {xarg}[end:]")
    chk.add("C06-R1", inst, not problems, site(repo, M), f"forward blocks {fwd_like}, {fwd_prior}; adjoint is their blockwise transpose", "; ".join(problems), M)
    # R2: right-hand side
    problems = []
    target = "self.b_tild"
    bt = None
    for s in fn.body:
        if isinstance(s, ast.Assign) and path_of(s.targets[0]) == target:
            bt = s.value
    if bt is None:
        raise AnchorError(f"{inst}: b_tild not found")
    want = "np.hstack([L@likelihood.dataforL,likelihoodinzip(L1,self.likelihoods)]+[L2mu])"
    if _norm(bt) != want:
        problems.append(f"b_tild is `{unparse(bt)}`: data blocks must be whitened by the same L, in the same order, as the operator blocks, followed by the prior block")
    if _norm(outer.get("L2mu", ast.Constant(value=None))) != "self.prior.sqrtprecTimesMean":
        problems.append("prior block of the right-hand side is not prior.sqrtprecTimesMean")
    if fwd_like.ops[:1] != [("mat", "likelihood.distribution.sqrtprec")] or fwd_prior.ops != [("mat", "self.prior.sqrtprec")]:
        problems.append(f"operator blocks are not whitened by the likelihood/prior sqrtprec: {fwd_like}, {fwd_prior}")
    # explicit-matrix form must be the same stacking
    mexp = [s for s in ast.walk(fn) if isinstance(s, ast.Assign) and path_of(s.targets[0]) == "self.M" and isinstance(s.value, ast.Call)]
    if len(mexp) != 1 or _norm(mexp[0].value) != "sp.sparse.vstack([L@likelihood.modelforL,likelihoodinzip(L1,self.likelihoods)]+[L2])":
        problems.append("matrix form of M is not vstack([L @ model ...] + [L2])")
    chk.add("C06-R2", f"{ci.qual}.{fn.name}/b_tild", not problems, site(repo, fn), "b_tild = [L_k data_k ...; sqrtprec·mean], operator = [L_k A_k ...; sqrtprec]",
            "; ".join(problems), fn)


def _ugla(chk, repo, ci, fn):
    inst = f"{ci.qual}.{fn.name}/M"
    M = _find_M(fn)
    b1, b2 = _branches(M)
    from ..pattern import statements, unify
    a1, a2 = _assigns(b1), _assigns(b2)
    problems = []
    xarg = func_params(M)[0]
    S1 = [(t, a) for st in b1 for t, a in statements(ast.Module(body=[st], type_ignores=[]), nested=True)]
    S2 = [(t, a) for st in b2 for t, a in statements(ast.Module(body=[st], type_ignores=[]), nested=True)]
    bf, _ = unify(["$o=np.hstack([$o1,$o2])"], S1)
    ba, _ = unify(["$o=$p1+$p2", "$i=int(self._m)"], S2)
    if bf is None or ba is None:
        raise AnchorError(f"{inst}: blocks are not stacked (forward) / summed (adjoint) with the split index int(self._m)")
    f1, f2 = parse_chain(a1.get(bf["o1"]), {}), parse_chain(a1.get(bf["o2"]), {})
    g1, g2 = parse_chain(a2.get(ba["p1"]), {}), parse_chain(a2.get(ba["p2"]), {})
    for name, f, gch, sl in (("likelihood", f1, g1, f"{xarg}[:{ba['i']}]"), ("prior", f2, g2, f"{xarg}[{ba['i']}:]")):
        want = [adjoint_of(op) for op in reversed(f.ops)]
        if gch.ops != want or gch.coef != f.coef:
            problems.append(f"{name} block: forward is {f}, adjoint is {gch}; expected operators {want} with scalar {f.coef}")
        if _norm(gch.arg) != sl:
            problems.append(f"adjoint {name} block acts on `{_norm(gch.arg)}`, not on {sl}")
        if _norm(f.arg) != xarg:
            problems.append(f"forward {name} block does not act on the operator's argument")
    mdef = [s_ for s_ in ast.walk(fn) if isinstance(s_, ast.Assign) and path_of(s_.targets[0]) == "self._m"]
    if len(mdef) != 1 or _norm(mdef[0].value) not in ("len(self.data)", "len(self._data)"):
        problems.append("self._m is not len(data)")
    chk.add("C06-R1", inst, not problems, site(repo, M), f"forward blocks {f1}, {f2}; adjoint is their blockwise transpose", "; ".join(problems), M)
    # R2: rhs blocks and recomputation
    problems = []
    outer = {}
    for s in ast.walk(fn):
        if isinstance(s, ast.Assign) and path_of(s.targets[0]) in ("self._L2mu", "self._b_tild", "self._L1"):
            outer.setdefault(path_of(s.targets[0]), []).append(s)
    scale = f2.coef
    for s in outer.get("self._L2mu", []):
        c = parse_chain(s.value, {})
        if c.coef != scale or c.ops != f2.ops:
            problems.append(f"line {s.lineno}: prior block of the right-hand side is {c}, but the operator's prior block is {f2}: "
                            f"mean and operator are not whitened alike (scalar {c.coef} vs {scale})")
        if _norm(c.arg) != "self._priorloc":
            problems.append("prior block of the right-hand side does not act on the prior location")
    data = "self.data" if "self.data" in _norm(fn) else "self._data"
    for s in outer.get("self._b_tild", []):
        if _norm(s.value) != f"np.hstack([self._L1@{data},self._L2mu])":
            problems.append(f"line {s.lineno}: b_tild is `{unparse(s.value)}`, not [L1 @ data, L2mu]")
    if f1.ops[:1] != [("mat", "self._L1")]:
        problems.append("operator's likelihood block is not whitened by self._L1")
    l1 = outer.get("self._L1", [])
    if len(l1) != 1 or not _norm(l1[0].value).endswith("likelihood.distribution.sqrtprec"):
        problems.append("self._L1 is not the likelihood's sqrtprec")
    # recomputation each step: everything derived from _L2 is rebuilt after _L2 and before the solve
    step = repo.method(ci, "step")[1] if "step" in ci.methods else fn
    region = step.body
    if step is fn:
        loops = [s for s in fn.body if isinstance(s, ast.For)]
        if len(loops) != 1:
            raise AnchorError(f"{ci.qual}._sample: sampling loop not found")
        region = loops[0].body
    names = [path_of(s.targets[0]) for s in region if isinstance(s, ast.Assign) and path_of(s.targets[0])]
    solve_i = [i for i, s in enumerate(region) if isinstance(s, ast.Assign) and "CGLS(" in _norm(s.value)]
    l2_i = [i for i, s in enumerate(region) if isinstance(s, ast.Assign) and path_of(s.targets[0]) == "self._L2"]
    if not solve_i or not l2_i:
        problems.append("the Laplace factor _L2 is not rebuilt at the current state before the solve")
    else:
        cur = "self.current_point" if step is not fn else "samples[:,s]"
        if cur not in _norm(region[l2_i[0]].value):
            problems.append(f"_L2 is rebuilt at `{unparse(region[l2_i[0]].value)}`, not at the current state")
        for dep in ("self._L2mu", "self._b_tild"):
            idx = [i for i, s in enumerate(region) if isinstance(s, ast.Assign) and path_of(s.targets[0]) == dep]
            if not idx or not (l2_i[0] < idx[0] < solve_i[0]):
                problems.append(f"{dep} depends on the Laplace factor _L2 but is not recomputed after _L2 and before the solve: "
                                f"from the second step on the right-hand side belongs to another linearisation point than the operator")
    chk.add("C06-R2", f"{ci.qual}.{fn.name}/b_tild", not problems, site(repo, fn), "rhs = [L1 data; c·L2 loc], operator = [L1 A; c·L2], rebuilt every step",
            "; ".join(problems), fn)


def _r3(chk, repo):
    from ..pattern import statements, unify
    specs = [
        ("cuqi/experimental/mcmc/_rto.py:LinearRTO", "step", "self.b_tild", "CGLS(self.M,$y,self.current_point,self.maxit,self.tol)", "self.current_point"),
        ("cuqi/experimental/mcmc/_rto.py:RegularizedLinearRTO", "step", "self.b_tild", "FISTA(self.M,$y,self.current_point,self.proximal,maxit=self.maxit,stepsize=self._stepsize,abstol=self.abstol,adaptive=self.adaptive)", "self.current_point"),
        ("cuqi/experimental/mcmc/_laplace_approximation.py:UGLA", "step", "self._b_tild", "CGLS(self.M,$y,self.current_point,self.maxit,self.tol)", "self.current_point"),
        ("cuqi/sampler/_rto.py:LinearRTO", "_sample", "self.b_tild", "CGLS(self.M,$y,$ch[:,$s],self.maxit,self.tol,self.shift)", "$ch[:,$s+1]"),
        ("cuqi/sampler/_rto.py:RegularizedLinearRTO", "_sample", "self.b_tild", "FISTA(self.M,$y,$ch[:,$s],self.proximal,maxit=self.maxit,stepsize=$st,abstol=self.abstol,adaptive=self.adaptive)", "$ch[:,$s+1]"),
        ("cuqi/sampler/_laplace_approximation.py:UGLA", "_sample", "self._b_tild", "CGLS($M,$y,$ch[:,$s],self.maxit,self.tol,self._shift)", "$ch[:,$s+1]"),
    ]
    for spec, fname, bt, ctor, state in specs:
        ci = repo.cls(spec)
        fn = repo.method(ci, fname)[1]
        region = fn
        loops = [s_ for s_ in fn.body if isinstance(s_, ast.For)]
        if loops:
            region = loops[-1]
        S = statements(region, nested=True)
        problems = []
        b = None
        for ypat in ([f"$y={bt}+np.random.randn(len({bt}))"], [f"$e=np.random.randn(len({bt}))", f"$y={bt}+$e"],
                     [f"$e=Normal(mean=np.zeros(len({bt})),std=1).sample(rng=self.rng)", f"$y={bt}+$e"]):
            b, _ = unify(ypat, S)
            if b is not None:
                break
        if b is None:
            ys = [t for t, a in S if bt + "+" in t or "+" + bt in t]
            problems.append(f"perturbed right-hand side is {ys}, not {bt} + N(0, I) of length len({bt})")
            b = {}
        if "y" in b:
            bb, used = unify([f"$sim={ctor}", f"{state},$_info=$sim.solve()"], S, b)
            if bb is None:
                sims = [t for t, a in S if "CGLS(" in t or "FISTA(" in t]
                problems.append(f"solver is `{sims}`: it must be constructed on (M, perturbed rhs, current state, ...) and the new state must be its first result")
            else:
                tgt = state
                for k, v in bb.items():
                    tgt = tgt.replace("$" + k, v)
                nst = [t for t, a in S if t.startswith(tgt + "=") or t.startswith(tgt + ",")]
                if len(nst) != 1:
                    problems.append(f"the new state `{tgt}` is assigned {len(nst)} times per step: it must be the solver's result only (no dependence on the previous state)")
                i_sim = [i for i, (t, a) in enumerate(S) if a is used[0]][0]
                i_st = [i for i, (t, a) in enumerate(S) if a is used[1]][0]
                if i_st < i_sim:
                    problems.append("state stored before the solve")
        chk.add("C06-R3", f"{ci.qual}.{fname}", not problems, site(repo, fn), "perturb rhs, solve from the current state, keep the solver's point", "; ".join(problems), fn)


def _r4(chk, repo):
    g = repo.cls("cuqi/distribution/_gaussian.py:Gaussian").lookup_prop("sqrtprecTimesMean")
    t = [_norm(s) for s in g.getter.body if not (isinstance(s, ast.Expr) and isinstance(s.value, ast.Constant))]
    ok = t == ["mean=np.repeat(self.mean,self.dim)iflen(self.mean)==1elseself.mean", "return(self.sqrtprec@mean).flatten()"]
    chk.add("C06-R4", "cuqi/distribution/_gaussian.py:Gaussian.@sqrtprecTimesMean", ok, site(repo, g.getter), "sqrtprec @ mean (scalar mean broadcast first)",
            f"Gaussian.sqrtprecTimesMean is {t}", g.getter)
    g = repo.cls("cuqi/distribution/_gmrf.py:GMRF").lookup_prop("sqrtprecTimesMean")
    t = [_norm(s) for s in g.getter.body]
    chk.add("C06-R4", "cuqi/distribution/_gmrf.py:GMRF.@sqrtprecTimesMean", t == ["returnself.sqrtprec@self.mean"], site(repo, g.getter), "sqrtprec @ mean",
            f"GMRF.sqrtprecTimesMean is {t}", g.getter)
    g = repo.cls("cuqi/distribution/_gaussian.py:JointGaussianSqrtPrec").lookup_prop("sqrtprecTimesMean")
    t = _norm(g.getter)
    ok = "result.append((self._sqrtprecs[i]@self._means[i]).flatten())" in t and "returnnp.hstack(result)" in t and "foriinrange(len(self._means))" in t
    chk.add("C06-R4", "cuqi/distribution/_gaussian.py:JointGaussianSqrtPrec.@sqrtprecTimesMean", ok, site(repo, g.getter), "stack of sqrtprec_i @ mean_i",
            "JointGaussianSqrtPrec.sqrtprecTimesMean is not the stack of sqrtprec_i @ mean_i", g.getter)
    sp = repo.cls("cuqi/distribution/_gmrf.py:GMRF").lookup_prop("sqrtprec")
    t = [_norm(s) for s in sp.getter.body]
    chk.add("C06-R4", "cuqi/distribution/_gmrf.py:GMRF.@sqrtprec", t == ["returnnp.sqrt(self.prec)*self._chol.T"], site(repo, sp.getter), "sqrt(prec) * chol.T",
            f"GMRF.sqrtprec is {t}", sp.getter)
