"""C06 — linear RTO / UGLA draws: structure of the stacked least-squares system.

 R1 transpose pairing: in each two-mode operator M(x, flag) the flag==2 branch applies, block by block, the adjoint of
    the flag==1 branch: (c * L @ F(x))  <->  F*(L.T @ slice) with the same scalar c, slices accumulated from the same
    per-likelihood lengths in the same order, blocks summed
 R2 right-hand side and operator are whitened alike (same matrix chain and scalar per block); UGLA rebuilds every
    quantity derived from the local Laplace factor before each solve
 R3 step shape: y = b_tild + N(0, I) of the same length; solver constructed on (M, y, current state); new state is the
    solver's first result
 R4 sqrtprecTimesMean is sqrtprec @ mean of the same object
"""
from __future__ import annotations
import ast
from typing import Dict, List, Optional, Tuple

from ..index import Repo, AnchorError
from ..cfg import CFG, path_of
from ..astutil import unparse, call_name, func_params, walk_no_nested
from .common import site

SITES = [
    # (module, class, function holding the closure M, kind)
    ("cuqi/experimental/mcmc/_rto.py", "LinearRTO", "_precompute", "rto"),
    ("cuqi/sampler/_rto.py", "LinearRTO", "__init__", "rto"),
    ("cuqi/experimental/mcmc/_laplace_approximation.py", "UGLA", "_precompute", "ugla"),
    ("cuqi/sampler/_laplace_approximation.py", "UGLA", "_sample", "ugla"),
]


def _norm(e) -> str:
    from .common import vstr
    return vstr(e)


class Chain:
    """c * op1(op2(...(arg)))  with ops outer->inner; op = ('mat', text) for `A @ .` or ('fn', text) for `f(.)`"""

    def __init__(self, coef: str, ops: List[Tuple[str, str]], arg: ast.expr):
        self.coef, self.ops, self.arg = coef, ops, arg

    def __repr__(self):
        return f"{self.coef}*" + " ∘ ".join(f"{k}:{t}" for k, t in self.ops) + f"({_norm(self.arg)})"


def parse_chain(e: ast.expr, subst: Dict[str, str]) -> Chain:
    coef = "1"
    ops: List[Tuple[str, str]] = []
    cur = e
    while True:
        if isinstance(cur, ast.BinOp) and isinstance(cur.op, ast.Mult):
            # scalar * (...)
            left, right = cur.left, cur.right
            if isinstance(right, ast.BinOp) and isinstance(right.op, ast.MatMult) or isinstance(right, ast.Call):
                coef = _norm(left) if coef == "1" else coef + "*" + _norm(left)
                cur = right
                continue
            break
        if isinstance(cur, ast.BinOp) and isinstance(cur.op, ast.MatMult):
            t = _norm(cur.left)
            t = _subst(t, subst)
            ops.append(("mat", t))
            cur = cur.right
            continue
        if isinstance(cur, ast.Call) and len(cur.args) == 1 and not cur.keywords and isinstance(cur.func, ast.Attribute) \
                and cur.func.attr in ("forward", "adjoint"):
            ops.append(("fn", _subst(_norm(cur.func), subst)))
            cur = cur.args[0]
            continue
        break
    return Chain(coef, ops, cur)


def _subst(t: str, subst: Dict[str, str]) -> str:
    for k, v in subst.items():
        if t == k:
            return v
        if t == k + ".T":
            return v + ".T"
    return t


def adjoint_of(op: Tuple[str, str]) -> Tuple[str, str]:
    k, t = op
    if k == "mat":
        return ("mat", t[:-2] if t.endswith(".T") else t + ".T")
    if t.endswith(".forward"):
        return ("fn", t[: -len("forward")] + "adjoint")
    if t.endswith(".adjoint"):
        return ("fn", t[: -len("adjoint")] + "forward")
    return ("fn", t + "^*")


_CTX = {}      # (repo, class) of the function whose stacked operator is being looked for (set by the rule entry points)


def _find_M(fn) -> ast.FunctionDef:
    ms = [n for n in ast.walk(fn) if isinstance(n, ast.FunctionDef) and n.name == "M"]
    if len(ms) == 1:
        return ms[0]
    # the operator as a bound private method: `self.M = self._apply_M` / `CGLS(self._M, ...)`, with the quantities the closure used to capture kept in
    # attributes set by the same function (`self._M_prior_sqrtprec = L2`).  It is turned back into the closure it stands for: helpers inlined, `self`
    # parameter dropped, those attributes replaced by the locals they were set from.
    repo, ci = _CTX.get("repo"), _CTX.get("ci")
    if not ms and repo is not None and ci is not None:
        cand = []
        for n in ast.walk(fn):
            if isinstance(n, ast.Assign) and path_of(n.targets[0]) == "self.M" and (path_of(n.value) or "").startswith("self._"):
                cand.append(path_of(n.value)[5:])
            if isinstance(n, ast.Call) and (call_name(n) or "").endswith("CGLS") and n.args and (path_of(n.args[0]) or "").startswith("self._"):
                cand.append(path_of(n.args[0])[5:])
        cand = [c for c in dict.fromkeys(cand) if ci.lookup(c) is not None]
        if len(cand) == 1:
            from .common import canon_keep
            from ..canon import set_parents, clone
            mv = clone(canon_keep(repo, ci, ci.lookup(cand[0])[1], set()))
            amap = {}
            for n in ast.walk(fn):
                if isinstance(n, ast.Assign) and len(n.targets) == 1 and (path_of(n.targets[0]) or "").startswith("self._") and isinstance(n.value, ast.Name):
                    amap[path_of(n.targets[0])] = n.value.id

            class T(ast.NodeTransformer):
                def visit_Attribute(self, a):
                    p_ = path_of(a)
                    if p_ in amap and isinstance(a.ctx, ast.Load):
                        return ast.copy_location(ast.Name(amap[p_], ast.Load()), a)
                    return self.generic_visit(a)
            mv = T().visit(mv)
            mv.name = "M"
            mv.args.args = mv.args.args[1:]
            mv.decorator_list = []
            return set_parents(ast.fix_missing_locations(mv))
    raise AnchorError(f"{fn.name}: closure M(x, flag) not found")


def _branches(M) -> Tuple[List[ast.stmt], List[ast.stmt]]:
    ifs = [s for s in M.body if isinstance(s, ast.If)]
    if len(ifs) != 1 or _norm(ifs[0].test) != "flag==1" or len(ifs[0].orelse) != 1 or not isinstance(ifs[0].orelse[0], ast.If) \
            or _norm(ifs[0].orelse[0].test) != "flag==2":
        raise AnchorError("M: expected `if flag == 1: ... elif flag == 2: ...`")
    return ifs[0].body, ifs[0].orelse[0].body


def _assigns(body) -> Dict[str, ast.expr]:
    out = {}
    for s in body:
        if isinstance(s, ast.Assign) and isinstance(s.targets[0], ast.Name):
            out[s.targets[0].id] = s.value
    return out


def run(chk, repo: Repo):
    chk.rule("C06-R1", "flag==2 branch of M is the blockwise adjoint of the flag==1 branch (same scalars, transposed matrices, adjoint maps, matching slices)", floor=4)
    chk.rule("C06-R2", "right-hand side blocks are whitened with the same chain/scalar as the operator blocks; UGLA recomputes all quantities derived from the Laplace factor each step; legacy 5-tuple input wired (data, model, noise sqrtprec, prior mean, prior sqrtprec)", floor=4)
    chk.rule("C06-R3", "y = b_tild + standard normal of len(b_tild); solver on (M, y, current state); new state = first solver result; the solver keeps the iteration budget / tolerances it is given", floor=4)
    chk.rule("C06-R4", "sqrtprecTimesMean = sqrtprec @ mean of the same object", floor=3)
    chk.rule("C06-R5", "per-block operator closures do not capture the block variable late (closures built in a loop / comprehension over the "
                       "likelihood blocks must bind the block by value)", floor=8)
    from ..latebind import latebind_rule
    latebind_rule(chk, repo, "C06-R5", ("cuqi/experimental/mcmc/", "cuqi/sampler/"))
    for mod, cls, fname, kind in SITES:
        ci = repo.cls(f"{mod}:{cls}")
        fn = repo.method(ci, fname)[1]
        if not any(isinstance(n_, ast.FunctionDef) and n_.name == "M" for n_ in ast.walk(fn)):
            # the set-up may have been split off into a private method: the function that defines the closure M is the anchor
            cands = [f_ for f_ in ci.methods.values() if any(isinstance(n_, ast.FunctionDef) and n_.name == "M" for n_ in ast.walk(f_))]
            if len(cands) == 1:
                fn = cands[0]
        if kind == "rto":
            _rto(chk, repo, ci, fn)
        else:
            _ugla(chk, repo, ci, fn)
    _r3(chk, repo)
    _r3_solver_budget(chk, repo)
    _r4(chk, repo)
    _r2_rebuild(chk, repo)
    _r2_five_tuple(chk, repo)


def _r2_five_tuple(chk, repo):
    """legacy 5-tuple input (data, model, L_sqrtprec, P_mean, P_sqrtprec): on the path where the tuple is accepted, the Posterior that is built has as
    likelihood Gaussian(model, sqrtprec = tuple[2]).to_likelihood(tuple[0]) and as prior Gaussian(tuple[3], sqrtprec = tuple[4]) - each factor with its own
    square-root precision (positions resolved through the locals the tuple is unpacked into)."""
    from .common import canon_fn
    from ..pathtable import walk_paths, _Sub
    from ..pattern import norm as pn
    from ..canon import clone as _clone
    ci = repo.cls("cuqi/sampler/_rto.py:LinearRTO")
    init = repo.method(ci, "__init__")[1]
    t = func_params(init)[1]
    val = {pn(f"isinstance({t},tuple)"): True, pn(f"len({t})==5"): True}
    stops = []
    for level in (1, 2):            # as written; with a private helper that builds the posterior from the tuple inlined
        v = canon_fn(repo, ci, init, level)
        stops = [r for k_, r in walk_paths(v, val, pn, limit=64, stop_pred=lambda a_: isinstance(a_, ast.Assign) and isinstance(a_.value, ast.Call)
                                           and (call_name(a_.value) or "").endswith("Posterior")) if k_ == "stop"]
        if stops:
            break
    problems = []
    if not stops:
        chk.unknown("C06-R2", f"{ci.qual}.__init__/5-tuple", site(repo, init), "construction of the posterior from the 5-tuple not found", init)
        return

    def kwargs_of(call):
        return {k_.arg: pn(k_.value) for k_ in call.keywords if k_.arg}
    for env, st in stops:
        L, P = [_Sub(env).visit(_clone(a_)) for a_ in st.value.args[:2]] if len(st.value.args) >= 2 else (None, None)
        okL = isinstance(L, ast.Call) and isinstance(L.func, ast.Attribute) and L.func.attr == "to_likelihood" and [pn(a_) for a_ in L.args] == [pn(f"{t}[0]")] \
            and isinstance(L.func.value, ast.Call) and (call_name(L.func.value) or "").endswith("Gaussian") and kwargs_of(L.func.value).get("sqrtprec") == pn(f"{t}[2]")
        okP = isinstance(P, ast.Call) and (call_name(P) or "").endswith("Gaussian") and P.args and pn(P.args[0]) == pn(f"{t}[3]") and kwargs_of(P).get("sqrtprec") == pn(f"{t}[4]")
        if not okL:
            problems.append(f"likelihood is `{pn(L)[:110] if L is not None else '?'}`, not Gaussian(model, sqrtprec={t}[2]).to_likelihood({t}[0])")
        if not okP:
            problems.append(f"prior is `{pn(P)[:110] if P is not None else '?'}`, not Gaussian({t}[3], sqrtprec={t}[4]): the prior block of the stacked operator and of the "
                            f"right-hand side would be whitened with another factor than the prior's own")
    chk.add("C06-R2", f"{ci.qual}.__init__/5-tuple", not problems, site(repo, init), "likelihood and prior each built with their own square-root precision",
            "; ".join(sorted(set(problems))), init)


def _r2_rebuild(chk, repo):
    """the stacked operator and the stacked right-hand side are two halves of one least-squares problem: a (re)initialisation that reaches its end
    has assigned BOTH (definite assignment on every non-raising path). A path that refreshes one and keeps the other from an earlier target
    (early return, assignment only under a flag) pairs the right-hand side of the new target with the operator of the old one."""
    for mod, cls, fname, pair in (("cuqi/experimental/mcmc/_rto.py", "LinearRTO", "_precompute", ("self.M", "self.b_tild")),
                                  ("cuqi/experimental/mcmc/_laplace_approximation.py", "UGLA", "_precompute", ("self.M", "self._b_tild"))):
        ci = repo.cls(f"{mod}:{cls}")
        from .common import canon_fn
        fn = canon_fn(repo, ci, repo.method(ci, fname)[1], 2)          # private helpers (a shared "update the approximation" step) inlined
        g = CFG(fn)
        problems = []
        for attr in pair:
            stores = {n.id for n in g.nodes if n.kind == "stmt" and isinstance(n.ast, ast.Assign) and any(path_of(t) == attr for t in n.ast.targets)}
            if not stores:
                raise AnchorError(f"{ci.qual}.{fname}: no assignment of {attr}")
            if g.exit.id in g.reachable_from([g.entry.id], avoid_nodes=stores):
                problems.append(f"`{attr}` is not assigned on every path to the end of {fname}")
        chk.add("C06-R2", f"{ci.qual}.{fname}/rebuild-both", not problems, site(repo, fn), f"{pair[0]} and {pair[1]} assigned on every path",
                "; ".join(problems) + ": after the sampler is given another target (as HybridGibbs does every sweep) the operator and the right-hand side "
                "belong to different posteriors", fn)


LK = "<lk>"          # canonical name of "the current likelihood block"


def _canon_lk(e: ast.expr, names: Dict[str, str]) -> ast.expr:
    """rename the block variables of one enumeration (comprehension variables / loop variable) to canonical ones"""
    from ..canon import clone
    class T(ast.NodeTransformer):
        def visit_Name(self, n):
            if n.id in names:
                return ast.copy_location(ast.parse(names[n.id].replace("<lk>", "LK__"), mode="eval").body, n)
            return n
    return T().visit(clone(e))


def _rto(chk, repo, ci, fn_src):
    from .common import best_of
    # temporaries substituted (level 4), or kept (level 1: when the operator is a bound method the whitening factors are ordinary locals that the
    # substitution would dissolve; as captured variables of a closure they are kept anyway)
    best_of(chk, (4, 1), lambda t, lvl: _rto_on(t, repo, ci, fn_src, lvl))


def _rto_on(chk, repo, ci, fn_src, level):
    """Decided on the structural normal form of the function that builds M (temporaries substituted, comprehension variables canonical);
    the locals holding the likelihoods' sqrtprec list, the prior sqrtprec and sqrtprec@mean are found by what they are bound to."""
    from .common import canon_fn
    from ..pattern import statements, unify, find, norm as pn
    inst = f"{ci.qual}.{fn_src.name}/M"
    fn = canon_fn(repo, ci, fn_src, level)
    _CTX.update(repo=repo, ci=ci)
    M = _find_M(fn)
    b1, b2 = _branches(M)
    problems = []
    S0 = statements(fn, nested=True)
    roles, _ = unify(["$L1=[_k0.distribution.sqrtprec for _k0 in self.likelihoods]", "$L2=self.prior.sqrtprec"], S0)
    if roles is None:
        raise AnchorError(f"{inst}: locals bound to the likelihoods' sqrtprec list / the prior sqrtprec not found")
    L1n, L2n = roles["L1"], roles["L2"]
    r2, _ = unify(["$L2mu=self.prior.sqrtprecTimesMean"], S0, roles)
    L2mun = r2["L2mu"] if r2 else None
    S1 = [(t, a) for st in b1 for t, a in statements(ast.Module(body=[st], type_ignores=[]), nested=True)]
    S2 = [(t, a) for st in b2 for t, a in statements(ast.Module(body=[st], type_ignores=[]), nested=True)]
    xarg = func_params(M)[0]
    subst = {"LK__.distribution.sqrtprec": "likelihood.distribution.sqrtprec", L2n: "self.prior.sqrtprec"}

    def chain(e, names):
        c = parse_chain(_canon_lk(e, names), {L2n: "self.prior.sqrtprec"})
        c.ops = [(k, t.replace("LK__", "likelihood")) for k, t in c.ops]
        c.arg_txt = _norm(c.arg).replace("LK__", "likelihood")
        return c
    # forward branch: stacked = hstack(likelihood blocks + [prior block])
    fwd_like = fwd_prior = None
    for t, a in S1:
        if isinstance(a, (ast.Assign, ast.Return)) and isinstance(a.value, ast.Call) and call_name(a.value) == "np.hstack" and len(a.value.args) == 1 \
                and isinstance(a.value.args[0], ast.BinOp) and isinstance(a.value.args[0].op, ast.Add):
            blocks, tail = a.value.args[0].left, a.value.args[0].right
            a1 = _assigns(b1)
            if isinstance(blocks, ast.Name):
                blocks = a1.get(blocks.id)
            if isinstance(tail, ast.List) and len(tail.elts) == 1:
                pr = tail.elts[0]
                if isinstance(pr, ast.Name) and pr.id in a1:
                    pr = a1[pr.id]
                if isinstance(blocks, ast.ListComp) and len(blocks.generators) == 1 and _norm(blocks.generators[0].iter) == f"zip({L1n},self.likelihoods)" \
                        and isinstance(blocks.generators[0].target, ast.Tuple) and len(blocks.generators[0].target.elts) == 2:
                    lv, kv = [x.id for x in blocks.generators[0].target.elts]
                    fwd_like = chain(blocks.elt, {lv: "<lk>.distribution.sqrtprec", kv: "<lk>"})
                    fwd_prior = chain(pr, {})
    if fwd_like is None:
        raise AnchorError(f"{inst}: forward likelihood blocks are not `np.hstack([.. for (L, likelihood) in zip(<sqrtprec list>, self.likelihoods)] + [prior block])`")
    if fwd_like.arg_txt != xarg or fwd_prior.arg_txt != xarg:
        problems.append("forward blocks do not act on the operator's argument")
    # adjoint branch
    loops = [s_ for s_ in b2 if isinstance(s_, ast.For)]
    if len(loops) != 1 or not (_norm(loops[0].iter) == "self.likelihoods" and isinstance(loops[0].target, ast.Name)
                               or _norm(loops[0].iter) == f"zip({L1n},self.likelihoods)" and isinstance(loops[0].target, ast.Tuple)):
        problems.append("adjoint branch does not loop over self.likelihoods (same enumeration as the forward stacking)")
    else:
        lp = loops[0]
        if isinstance(lp.target, ast.Name):
            names = {lp.target.id: "<lk>"}
        else:
            names = {lp.target.elts[0].id: "<lk>.distribution.sqrtprec", lp.target.elts[1].id: "<lk>"}
        lkname = [k for k, v in names.items() if v == "<lk>"][0]
        LB = statements(lp, nested=True)
        loc = _assigns(lp.body)
        acc = [a for t, a in LB if isinstance(a, ast.AugAssign) and isinstance(a.op, ast.Add) and isinstance(a.value, ast.Call)]
        acc = [a for a in acc if call_name(a.value) != "len"]
        form = None
        ba, used = unify([f"$ie+=len({lkname}.data)", "$is=$ie"], LB)
        if ba is not None and len(acc) == 1:
            form = "pair"
        else:
            # one running offset: block = x[o : o + len(data)], then o += len(data)
            for pat in ([f"$o+=len({lkname}.data)"], [f"$n=len({lkname}.data)", "$o+=$n"]):
                ba, used = unify(pat, LB)
                if ba is not None and len(acc) == 1:
                    form = "offset"
                    break
        if form is None:
            # landmark of the pair form: `start = end` plus an advance of `end` by something else than the block's data length
            bp, _ = unify(["$is=$ie"], LB)
            adv = [a for t, a in LB if bp is not None and isinstance(a, ast.AugAssign) and _norm(a.target) == bp["ie"]]
            if bp is not None and len(adv) == 1 and len(acc) == 1:
                chk.fail("C06-R1", inst, site(repo, fn_src), f"the slice end is advanced by `{unparse(adv[0].value)}` per likelihood block, not by len({lkname}.data): "
                         f"the adjoint blocks read other entries than the forward blocks produce", M)
                return
            chk.unknown("C06-R1", inst, site(repo, fn_src), "slice bookkeeping of the adjoint branch not recognised (neither start/end pair nor running offset)", M)
            return
        adj_like = chain(acc[0].value, names)
        want = [adjoint_of(op) for op in reversed(fwd_like.ops)]
        if adj_like.ops != want or adj_like.coef != fwd_like.coef:
            problems.append(f"likelihood block: forward is {fwd_like}, adjoint is {adj_like}; expected operators {want} "
                            f"(the adjoint of L·F is F*·Lᵀ)")
        # the slice the block acts on (locals of the loop body are expanded)
        arg = adj_like.arg
        if isinstance(arg, ast.Name) and arg.id in loc:
            arg = loc[arg.id]
        atxt = _norm(arg)
        for k_, v_ in loc.items():
            if isinstance(v_, ast.Call) and call_name(v_) == "len":
                atxt = atxt.replace(k_, _norm(v_))
        order = [t for t, a in LB]
        i_acc = [i for i, (t, a) in enumerate(LB) if a is acc[0]][0]
        accname = _norm(acc[0].target)
        inits = {t for t, a in S2}
        if form == "pair":
            if atxt != f"{xarg}[{ba['is']}:{ba['ie']}]":
                problems.append(f"adjoint likelihood block acts on `{atxt}`, not on its own slice {xarg}[start:end]")
            i_end = order.index(pn(f"{ba['ie']}+=len({lkname}.data)"))
            i_st = order.index(pn(f"{ba['is']}={ba['ie']}"))
            if not (i_end < i_acc < i_st):
                problems.append("slice bounds are not advanced before, and the start not after, the block is accumulated")
            if not {pn(f"{ba['is']}=0"), pn(f"{ba['ie']}=0"), pn(f"{accname}=np.zeros(self.n)")} <= inits:
                problems.append("slice counters / accumulator are not initialised to zero")
            tail_slice = f"{xarg}[{ba['ie']}:]"
        else:
            o = ba["o"]
            ln = f"len({lkname}.data)"
            if atxt not in (f"{xarg}[{o}:{o}+{ln}]", f"{xarg}[{o}:{ln}+{o}]"):
                problems.append(f"adjoint likelihood block acts on `{atxt}`, not on its own slice {xarg}[offset:offset+len(data)]")
            i_adv = [i for i, (t, a) in enumerate(LB) if isinstance(a, ast.AugAssign) and _norm(a.target) == o][0]
            if not (i_acc < i_adv):
                problems.append("the offset is advanced before the block is accumulated")
            if not {pn(f"{o}=0"), pn(f"{accname}=np.zeros(self.n)")} <= inits:
                problems.append("offset / accumulator are not initialised to zero")
            tail_slice = f"{xarg}[{o}:]"
        bo, _ = unify([f"$o_={accname}+$p2"], S2)
        a2 = _assigns(b2)
        p2e = None
        if bo is not None:
            p2e = a2.get(bo["p2"])
        else:
            for t, a in S2:
                if isinstance(a, (ast.Assign, ast.Return)) and isinstance(a.value, ast.BinOp) and isinstance(a.value.op, ast.Add) and _norm(a.value.left) == accname:
                    p2e = a.value.right
        if p2e is None:
            problems.append("adjoint blocks are not summed")
        else:
            adj_prior = chain(p2e, {})
            want = [adjoint_of(op) for op in reversed(fwd_prior.ops)]
            if adj_prior.ops != want or adj_prior.coef != fwd_prior.coef:
                problems.append(f"prior block: forward is {fwd_prior}, adjoint is {adj_prior}; expected operators {want}")
            if adj_prior.arg_txt != tail_slice:
                problems.append(f"adjoint prior block acts on `{adj_prior.arg_txt}`, not on the trailing slice {tail_slice}")
    chk.add("C06-R1", inst, not problems, site(repo, fn_src), f"forward blocks {fwd_like}, {fwd_prior}; adjoint is their blockwise transpose", "; ".join(problems), M)
    # R2: right-hand side
    problems = []
    bt = None
    for t, a in S0:
        if isinstance(a, ast.Assign) and path_of(a.targets[0]) == "self.b_tild":
            bt = a.value
    if bt is None:
        raise AnchorError(f"{inst}: b_tild not found")
    wants = {pn(f"np.hstack([_k0@_k1.data for _k0,_k1 in zip({L1n},self.likelihoods)]+[{x_}])") for x_ in ([L2mun] if L2mun else []) + ["self.prior.sqrtprecTimesMean"]}
    if pn(bt) not in wants:
        problems.append(f"b_tild is `{unparse(bt)}`: data blocks must be whitened by the same L, in the same order, as the operator blocks, followed by the prior block "
                        f"(prior.sqrtprecTimesMean)")
    if fwd_like.ops[:1] != [("mat", "likelihood.distribution.sqrtprec")] or fwd_prior.ops != [("mat", "self.prior.sqrtprec")]:
        problems.append(f"operator blocks are not whitened by the likelihood/prior sqrtprec: {fwd_like}, {fwd_prior}")
    # explicit-matrix form must be the same stacking
    mexp = [a for t, a in S0 if isinstance(a, ast.Assign) and path_of(a.targets[0]) == "self.M" and isinstance(a.value, ast.Call)]
    if len(mexp) != 1 or pn(mexp[0].value) != pn(f"sp.sparse.vstack([_k0@_k1.model for _k0,_k1 in zip({L1n},self.likelihoods)]+[{L2n}])"):
        problems.append("matrix form of M is not vstack([L @ model ...] + [L2])")
    chk.add("C06-R2", f"{ci.qual}.{fn_src.name}/b_tild", not problems, site(repo, fn_src), "b_tild = [L_k data_k ...; sqrtprec·mean], operator = [L_k A_k ...; sqrtprec]",
            "; ".join(problems), fn_src)


def _ugla(chk, repo, ci, fn):
    inst = f"{ci.qual}.{fn.name}/M"
    _CTX.update(repo=repo, ci=ci)
    M = _find_M(fn)
    b1, b2 = _branches(M)
    from ..pattern import statements, unify
    a1, a2 = _assigns(b1), _assigns(b2)
    problems = []
    xarg = func_params(M)[0]
    S1 = [(t, a) for st in b1 for t, a in statements(ast.Module(body=[st], type_ignores=[]), nested=True)]
    S2 = [(t, a) for st in b2 for t, a in statements(ast.Module(body=[st], type_ignores=[]), nested=True)]
    bf, _ = unify(["$o=np.hstack([$o1,$o2])"], S1)
    ba, _ = unify(["$o=$p1+$p2", "$i=int(self._m)"], S2)
    if bf is None or ba is None:
        raise AnchorError(f"{inst}: blocks are not stacked (forward) / summed (adjoint) with the split index int(self._m)")
    f1, f2 = parse_chain(a1.get(bf["o1"]), {}), parse_chain(a1.get(bf["o2"]), {})
    g1, g2 = parse_chain(a2.get(ba["p1"]), {}), parse_chain(a2.get(ba["p2"]), {})
    for name, f, gch, sl in (("likelihood", f1, g1, f"{xarg}[:{ba['i']}]"), ("prior", f2, g2, f"{xarg}[{ba['i']}:]")):
        want = [adjoint_of(op) for op in reversed(f.ops)]
        if gch.ops != want or gch.coef != f.coef:
            problems.append(f"{name} block: forward is {f}, adjoint is {gch}; expected operators {want} with scalar {f.coef}")
        if _norm(gch.arg) != sl:
            problems.append(f"adjoint {name} block acts on `{_norm(gch.arg)}`, not on {sl}")
        if _norm(f.arg) != xarg:
            problems.append(f"forward {name} block does not act on the operator's argument")
    mdef = [s_ for s_ in ast.walk(fn) if isinstance(s_, ast.Assign) and path_of(s_.targets[0]) == "self._m"]
    if len(mdef) != 1 or _norm(mdef[0].value) not in ("len(self.data)", "len(self._data)"):
        problems.append("self._m is not len(data)")
    chk.add("C06-R1", inst, not problems, site(repo, M), f"forward blocks {f1}, {f2}; adjoint is their blockwise transpose", "; ".join(problems), M)
    # R2: rhs blocks and recomputation
    problems = []
    outer = {}
    # procedures (private methods, nested defs without a result) that group the update statements are inlined at their call sites; the closures that
    # compute a value (the Laplace factor, the operator M) are the rule's subject and stay calls
    from .common import canon_keep
    fn_src = fn
    valued = {d.name for d in ast.walk(fn_src) if isinstance(d, ast.FunctionDef) and d is not fn_src
              and any(isinstance(r, ast.Return) and r.value is not None for r in ast.walk(d))}
    # ... also when those closures have become private methods: methods of the class that return a value and are called with the state
    # (the Laplace factor at a point) or handed to the solver (the operator)
    for c_ in ast.walk(fn_src):
        if isinstance(c_, ast.Call) and (call_name(c_) or "").startswith("self._") and (call_name(c_) or "").count(".") == 1:
            r_ = ci.lookup(call_name(c_)[5:])
            if r_ is not None and any(isinstance(x_, ast.Return) and x_.value is not None for x_ in ast.walk(r_[1])) \
                    and isinstance(getattr(c_, "_parent", None), ast.Assign) and (path_of(c_._parent.targets[0]) or "").startswith("self._L"):
                valued.add(call_name(c_)[5:])
    fn = canon_keep(repo, ci, fn_src, keep=valued)
    for s in ast.walk(fn):
        if isinstance(s, ast.Assign) and path_of(s.targets[0]) in ("self._L2mu", "self._b_tild", "self._L1"):
            outer.setdefault(path_of(s.targets[0]), []).append(s)
    scale = f2.coef
    for s in outer.get("self._L2mu", []):
        c = parse_chain(s.value, {})
        if c.coef != scale or c.ops != f2.ops:
            problems.append(f"line {s.lineno}: prior block of the right-hand side is {c}, but the operator's prior block is {f2}: "
                            f"mean and operator are not whitened alike (scalar {c.coef} vs {scale})")
        if _norm(c.arg) != "self._priorloc":
            problems.append("prior block of the right-hand side does not act on the prior location")
    data = "self.data" if "self.data" in _norm(fn) else "self._data"
    for s in outer.get("self._b_tild", []):
        if _norm(s.value) != f"np.hstack([self._L1@{data},self._L2mu])":
            problems.append(f"line {s.lineno}: b_tild is `{unparse(s.value)}`, not [L1 @ data, L2mu]")
    if f1.ops[:1] != [("mat", "self._L1")]:
        problems.append("operator's likelihood block is not whitened by self._L1")
    l1 = outer.get("self._L1", [])
    if len(l1) != 1 or not _norm(l1[0].value).endswith("likelihood.distribution.sqrtprec"):
        problems.append("self._L1 is not the likelihood's sqrtprec")
    # recomputation each step: everything derived from _L2 is rebuilt after _L2 and before the solve
    step = canon_keep(repo, ci, repo.method(ci, "step")[1], keep=valued | {"Lk_fun", "_Lk_fun"}) if "step" in ci.methods else fn
    region = step.body
    if step is fn:
        loops = [s for s in fn.body if isinstance(s, ast.For)]
        if len(loops) != 1:
            raise AnchorError(f"{ci.qual}._sample: sampling loop not found")
        region = loops[0].body
    names = [path_of(s.targets[0]) for s in region if isinstance(s, ast.Assign) and path_of(s.targets[0])]
    solve_i = [i for i, s in enumerate(region) if isinstance(s, ast.Assign) and "CGLS(" in _norm(s.value)]
    l2_i = [i for i, s in enumerate(region) if isinstance(s, ast.Assign) and path_of(s.targets[0]) == "self._L2"]
    if not solve_i or not l2_i:
        problems.append("the Laplace factor _L2 is not rebuilt at the current state before the solve")
    else:
        cur = "self.current_point" if step is not fn else "samples[:,s]"
        if cur not in _norm(region[l2_i[0]].value):
            problems.append(f"_L2 is rebuilt at `{unparse(region[l2_i[0]].value)}`, not at the current state")
        for dep in ("self._L2mu", "self._b_tild"):
            idx = [i for i, s in enumerate(region) if isinstance(s, ast.Assign) and path_of(s.targets[0]) == dep]
            if not idx or not (l2_i[0] < idx[0] < solve_i[0]):
                problems.append(f"{dep} depends on the Laplace factor _L2 but is not recomputed after _L2 and before the solve: "
                                f"from the second step on the right-hand side belongs to another linearisation point than the operator")
    chk.add("C06-R2", f"{ci.qual}.{fn.name}/b_tild", not problems, site(repo, fn), "rhs = [L1 data; c·L2 loc], operator = [L1 A; c·L2], rebuilt every step",
            "; ".join(problems), fn)


def _r3_solver_budget(chk, repo):
    """`run to convergence` is the caller's to decide: the inner solvers keep the iteration budget and tolerances they are constructed with (CG needs
    more than n iterations in floating point; a cap derived from the problem size makes the draw depend on the current state)."""
    from .common import assigned_values
    for cls, fields in (("CGLS", ("maxit", "tol", "shift")), ("PCGLS", ("maxit", "tol"))):
        ci = repo.cls(f"cuqi/solver/_solver.py:{cls}")
        init = repo.method(ci, "__init__")[1]
        params = set(func_params(init)[1:])
        for f in fields:
            vals = []
            for attr in (f"self.{f}", f"self._{f}"):
                vals += assigned_values(repo, ci, init, attr)
            if not vals:
                raise AnchorError(f"{cls}.__init__: option `{f}` is not stored")
            ok = all(v in params or v in {f"int({p_})" for p_ in params} or v in {f"float({p_})" for p_ in params} for v in vals)
            chk.add("C06-R3", f"{ci.qual}.__init__/{f}", ok, site(repo, init), f"`{f}` stored as given",
                    f"the solver stores `{vals}` for its option `{f}`, not the value it was constructed with: the caller's iteration budget / tolerance is silently "
                    f"changed (with a cap at the number of unknowns CG stops before convergence on moderately conditioned problems, so the RTO draw depends on the "
                    f"current state and its mean and covariance are off)", init)


def _r3(chk, repo):
    from ..pattern import statements, unify
    specs = [
        ("cuqi/experimental/mcmc/_rto.py:LinearRTO", "step", "self.b_tild", "CGLS(self.M,$y,self.current_point,self.maxit,self.tol)", "self.current_point"),
        ("cuqi/experimental/mcmc/_rto.py:RegularizedLinearRTO", "step", "self.b_tild", "FISTA(self.M,$y,self.current_point,self.proximal,maxit=self.maxit,stepsize=self._stepsize,abstol=self.abstol,adaptive=self.adaptive)", "self.current_point"),
        ("cuqi/experimental/mcmc/_laplace_approximation.py:UGLA", "step", "self._b_tild", "CGLS(self.M,$y,self.current_point,self.maxit,self.tol)", "self.current_point"),
        ("cuqi/sampler/_rto.py:LinearRTO", "_sample", "self.b_tild", "CGLS(self.M,$y,$ch[:,$s],self.maxit,self.tol,self.shift)", "$ch[:,$s+1]"),
        ("cuqi/sampler/_rto.py:RegularizedLinearRTO", "_sample", "self.b_tild", "FISTA(self.M,$y,$ch[:,$s],self.proximal,maxit=self.maxit,stepsize=$st,abstol=self.abstol,adaptive=self.adaptive)", "$ch[:,$s+1]"),
        ("cuqi/sampler/_laplace_approximation.py:UGLA", "_sample", "self._b_tild", "CGLS($M,$y,$ch[:,$s],self.maxit,self.tol,self._shift)", "$ch[:,$s+1]"),
    ]
    # solver constructors in all-keyword form (positional / keyword spelling and omitted defaults do not distinguish two calls), in the statements
    # and in the patterns alike
    from .common import KwCanon
    from ..canon import clone as _clone, set_parents as _sp
    from ..pattern import norm as pn
    kcs = KwCanon()
    for sname in ("CGLS", "FISTA"):
        kcs.add(sname, repo.method(repo.cls(f"cuqi/solver/_solver.py:{sname}"), "__init__")[1])

    def kwpat(ptxt):
        e = kcs.visit(ast.parse(ptxt.replace("$", "__mv_"), mode="eval").body)
        return ast.unparse(e).replace("__mv_", "$")
    for spec, fname, bt, ctor, state in specs:
        ctor = kwpat(ctor)
        ci = repo.cls(spec)
        # as written; and with the private helpers of the class inlined and the locals that merely name an attribute read through
        from .common import best_of, canon_keep
        src_fn = repo.method(ci, fname)[1]
        best_of(chk, [src_fn, canon_keep(repo, ci, src_fn, keep=set(), subst="attr")],
                lambda t_, v_: _r3_on(t_, repo, ci, fname, v_, bt, ctor, state, kcs))


def _r3_on(chk, repo, ci, fname, view, bt, ctor, state, kcs):
    from ..pattern import statements, unify
    from ..canon import clone as _clone, set_parents as _sp
    if True:
        fn = _sp(kcs.visit(_clone(view)))
        fn._rel = ci.module.rel
        region = fn
        loops = [s_ for s_ in fn.body if isinstance(s_, ast.For)]
        if loops:
            region = loops[-1]
        S = statements(region, nested=True)
        problems = []
        b = None
        for ypat in ([f"$y={bt}+np.random.randn(len({bt}))"], [f"$e=np.random.randn(len({bt}))", f"$y={bt}+$e"],
                     [f"$e=Normal(mean=np.zeros(len({bt})),std=1).sample(rng=self.rng)", f"$y={bt}+$e"]):
            b, _ = unify(ypat, S)
            if b is not None:
                break
        if b is None:
            ys = [t for t, a in S if bt + "+" in t or "+" + bt in t]
            problems.append(f"perturbed right-hand side is {ys}, not {bt} + N(0, I) of length len({bt})")
            b = {}
        if "y" in b:
            bb, used = unify([f"$sim={ctor}", f"{state},$_info=$sim.solve()"], S, b)
            if bb is None:      # the solver's point goes through a temporary
                bb, used = unify([f"$sim={ctor}", "$xn,$_info=$sim.solve()", f"{state}=$xn"], S, b)
            if bb is None:
                sims = [t for t, a in S if "CGLS(" in t or "FISTA(" in t]
                problems.append(f"solver is `{sims}`: it must be constructed on (M, perturbed rhs, current state, ...) and the new state must be its first result")
            else:
                tgt = state
                for k, v in bb.items():
                    tgt = tgt.replace("$" + k, v)
                nst = [t for t, a in S if t.startswith(tgt + "=") or t.startswith(tgt + ",")]
                if len(nst) != 1:
                    problems.append(f"the new state `{tgt}` is assigned {len(nst)} times per step: it must be the solver's result only (no dependence on the previous state)")
                i_sim = [i for i, (t, a) in enumerate(S) if a is used[0]][0]
                i_st = [i for i, (t, a) in enumerate(S) if a is used[1]][0]
                if i_st < i_sim:
                    problems.append("state stored before the solve")
        chk.add("C06-R3", f"{ci.qual}.{fname}", not problems, site(repo, fn), "perturb rhs, solve from the current state, keep the solver's point", "; ".join(problems), fn)


def _r4(chk, repo):
    from .common import expected_text as expected_text_
    from .common import closed_is
    ga = repo.cls("cuqi/distribution/_gaussian.py:Gaussian")
    g = ga.lookup_prop("sqrtprecTimesMean")
    ok, outs = closed_is(repo, ga, g.getter, "(self.sqrtprec@(np.repeat(self.mean,self.dim) if len(self.mean)==1 else self.mean)).flatten()")
    if not ok:
        # the broadcast written as a statement-level branch: both paths are the product with the (broadcast) mean
        ok = {o for o in outs} == {("return", _e) for _e in (expected_text_("(self.sqrtprec@np.repeat(self.mean,self.dim)).flatten()"), expected_text_("(self.sqrtprec@self.mean).flatten()"))}
    chk.add("C06-R4", "cuqi/distribution/_gaussian.py:Gaussian.@sqrtprecTimesMean", ok, site(repo, g.getter), "sqrtprec @ mean (scalar mean broadcast first)",
            f"Gaussian.sqrtprecTimesMean is {outs}", g.getter)
    gmc = repo.cls("cuqi/distribution/_gmrf.py:GMRF")
    g = gmc.lookup_prop("sqrtprecTimesMean")
    ok, outs = closed_is(repo, gmc, g.getter, "self.sqrtprec@self.mean")
    chk.add("C06-R4", "cuqi/distribution/_gmrf.py:GMRF.@sqrtprecTimesMean", ok, site(repo, g.getter), "sqrtprec @ mean",
            f"GMRF.sqrtprecTimesMean is {outs}", g.getter)
    jg = repo.cls("cuqi/distribution/_gaussian.py:JointGaussianSqrtPrec")
    g = jg.lookup_prop("sqrtprecTimesMean")
    ok, outs = closed_is(repo, jg, g.getter, "np.hstack([(self._sqrtprecs[_k0]@self._means[_k0]).flatten() for _k0 in range(len(self._means))])",
                         "np.hstack([(_k0@_k1).flatten() for _k0,_k1 in zip(self._sqrtprecs,self._means)])", level=4)
    chk.add("C06-R4", "cuqi/distribution/_gaussian.py:JointGaussianSqrtPrec.@sqrtprecTimesMean", ok, site(repo, g.getter), "stack of sqrtprec_i @ mean_i",
            f"JointGaussianSqrtPrec.sqrtprecTimesMean is not the stack of sqrtprec_i @ mean_i: {outs}", g.getter)
    sp = gmc.lookup_prop("sqrtprec")
    ok, outs = closed_is(repo, gmc, sp.getter, "np.sqrt(self.prec)*self._chol.T", "self._chol.T*np.sqrt(self.prec)")
    chk.add("C06-R4", "cuqi/distribution/_gmrf.py:GMRF.@sqrtprec", ok, site(repo, sp.getter), "sqrt(prec) * chol.T", f"GMRF.sqrtprec is {outs}", sp.getter)
