"""C07 — a linear model's adjoint is the transpose of its forward map.

Representation typestate over cuqi/model/_model.py (raw operators are fun->fun; public maps are par->par):
 R1 adjoint applies the raw adjoint with (function-range = domain geometry, function-domain = range geometry); the matrix
    constructor wires forward = M @ x and adjoint = M.T @ y of the same stored matrix; gradient of a linear model = raw adjoint
 R2 a dual quantity (output of an adjoint/gradient operator) may be converted with fun2par only under the identity-geometry
    guard (or through geometry.gradient): Model.gradient carries the guard, LinearModel.adjoint must carry it too
 R3 a par->par public method may hand out the raw matrix only under the same guard (get_matrix fast path vs forward(e_i))
 R4 no par->par bound method is stored into a raw operator slot (LinearModel.T)
 R5 get_matrix assembles column i from forward(e_i) and materialises it before the reused unit-vector buffer is reset
"""
from __future__ import annotations
import ast
from typing import List

from ..index import Repo, AnchorError
from ..cfg import CFG, ReachingDefs, path_of
from ..astutil import unparse, call_name, func_params
from .common import site

LM = "cuqi/model/_model.py:LinearModel"


def _norm(e) -> str:
    return unparse(e).replace(" ", "").replace("\n", "")


def _has_identity_guard(fn) -> bool:
    """the function (or a checker it calls unconditionally first) refuses non-identity geometries"""
    for n in ast.walk(fn):
        if isinstance(n, ast.Call) and (call_name(n) or "").endswith("_get_identity_geometries"):
            return True
        if isinstance(n, ast.Call) and call_name(n) in ("self._check_gradient_can_be_computed", "self._check_adjoint_can_be_computed",
                                                        "self._check_identity_geometries"):
            return True
    return False


def run(chk, repo: Repo):
    chk.rule("C07-R1", "adjoint = _apply_func(raw adjoint, domain geometry, range geometry, ...); matrix wiring M@x / M.T@y; linear gradient = raw adjoint", floor=3)
    chk.rule("C07-R2", "dual quantities are converted to parameters with fun2par only under the identity-geometry guard", floor=2)
    chk.rule("C07-R3", "the raw matrix is handed out as the par->par matrix only under the identity-geometry guard", floor=1)
    chk.rule("C07-R4", "par->par bound methods are not stored into raw (fun->fun) operator slots", floor=1)
    chk.rule("C07-R5", "get_matrix: column i is forward(e_i), materialised in the same iteration before the buffer is reset", floor=1)
    chk.rule("C07-R6", "shipped 2-D convolution pair: the adjoint-by-flipped-kernel shortcut is used only where padding commutes with transposition "
                       "(zero and periodic extension) and mirrors the even-size crop", floor=3)
    _r6(chk, repo)
    chk.rule("C07-R7", "forward/adjoint closures of models and test problems do not capture an iteration variable late", floor=3)
    from ..latebind import latebind_rule
    latebind_rule(chk, repo, "C07-R7", ("cuqi/model/", "cuqi/testproblem/", "cuqi/operator/"))
    lm = repo.cls(LM)
    adj = repo.method(lm, "adjoint")[1]
    # R1
    rets = [n for n in ast.walk(adj) if isinstance(n, ast.Return)]
    ok = len(rets) == 1 and isinstance(rets[0].value, ast.Call) and call_name(rets[0].value) == "self._apply_func" and \
        [_norm(a) for a in rets[0].value.args] == ["self._adjoint_func", "self.domain_geometry", "self.range_geometry", func_params(adj)[1], func_params(adj)[2]]
    chk.add("C07-R1", f"{lm.qual}.adjoint", ok, site(repo, adj), "_apply_func(self._adjoint_func, domain_geometry, range_geometry, y, is_par)",
            f"adjoint does not apply the raw adjoint with swapped geometries: {unparse(rets[0].value) if rets else '?'}", adj)
    init = repo.method(lm, "__init__")[1]
    t = _norm(init)
    ok = "forward_func=lambdax:self._matrix@x" in t and "adjoint_func=lambday:self._matrix.T@y" in t and "self._matrix=matrix" in t \
        and "self._adjoint_func=adjoint_func" in t and "super().__init__(forward_func,range_geometry,domain_geometry)" in t
    chk.add("C07-R1", f"{lm.qual}.__init__/matrix-wiring", ok, site(repo, init), "forward = M @ x, adjoint = M.T @ y of the same stored matrix",
            "matrix-backed model does not wire forward = M@x and adjoint = M.T@y of the same stored matrix", init)
    ok = "self._gradient_func=lambdadirection,wrt:self._adjoint_func(direction)" in t
    chk.add("C07-R1", f"{lm.qual}.__init__/gradient", ok, site(repo, init), "gradient(direction, wrt) = raw adjoint(direction)",
            "the linear model's gradient is not its raw adjoint applied to the direction", init)
    g = CFG(init)
    infer = [n for n in g.nodes if n.ast is not None and _norm(n.ast) in ("range_geometry=_DefaultGeometry1D(grid=matrix.shape[0])", "domain_geometry=_DefaultGeometry1D(grid=matrix.shape[1])")]
    chk.add("C07-R1", f"{lm.qual}.__init__/shape-inference", len(infer) == 2, site(repo, init), "range <- rows, domain <- columns",
            "default geometries are not inferred as range = matrix rows, domain = matrix columns", init)
    # R2
    model = repo.cls("cuqi/model/_model.py:Model")
    grad = repo.method(model, "gradient")[1]
    chk.add("C07-R2", f"{model.qual}.gradient", _has_identity_guard(grad), site(repo, grad), "guarded by _check_gradient_can_be_computed",
            "Model.gradient converts a dual quantity without the identity-geometry guard", grad)
    chk.add("C07-R2", f"{lm.qual}.adjoint", _has_identity_guard(adj), site(repo, adj), "identity-geometry guard present",
            "LinearModel.adjoint converts the raw adjoint's output (a dual quantity) with the domain geometry's fun2par — the inverse of par2fun, "
            "not its transpose — without the identity-geometry guard that Model.gradient carries: for expansion geometries "
            "(StepExpansion, KLExpansion, ...) <A x, y> != <x, A* y>", adj)
    # R3
    gm = repo.method(lm, "get_matrix")[1]
    gg = CFG(gm)
    fast = [n for n in gg.returns() if _norm(n.ast.value) == "self._matrix" and any(_norm(t.ast) == "self._matrixisnotNone" and lab == "T" for t, lab in gg.guards_of(n))]
    guarded = _has_identity_guard(gm)
    chk.add("C07-R3", f"{lm.qual}.get_matrix/fast-path", (not fast) or guarded, site(repo, fast[0].ast if fast else gm),
            "raw matrix returned only for identity geometries",
            "get_matrix returns the stored raw matrix (function values -> function values) as the matrix of the parameter-to-parameter map "
            "without an identity-geometry guard, while the slow path assembles forward(e_i): the two denote different maps for non-identity geometries", gm)
    # R4
    T = lm.lookup_prop("T")
    if T is None or T.getter is None:
        raise AnchorError("LinearModel.T not found")
    ctor = [c for c in ast.walk(T.getter) if isinstance(c, ast.Call) and call_name(c) == "LinearModel"]
    if len(ctor) != 1:
        raise AnchorError("LinearModel.T: constructor call not found")
    args = [_norm(a) for a in ctor[0].args]
    wrapped = [a for a in args[:2] if a in ("self.adjoint", "self.forward")]
    chk.add("C07-R4", f"{lm.qual}.@T", not wrapped or _has_identity_guard(T.getter), site(repo, T.getter), "raw operators passed to the transposed model",
            f"the transposed model stores the geometry-wrapped methods {wrapped} in its raw operator slots, so both geometries are applied twice "
            f"(and the matrix shortcut is the transposed raw matrix): wrong or failing for non-identity geometries", T.getter)
    ok = len(args) == 4 and args[2:] == ["self.domain_geometry", "self.range_geometry"] and \
        any(_norm(n) == "transpose._matrix=self._matrix.T" for n in ast.walk(T.getter) if isinstance(n, ast.Assign))
    chk.add("C07-R1", f"{lm.qual}.@T/swap", ok, site(repo, T.getter), "geometries swapped, stored matrix transposed",
            "transposed model does not swap the geometries / transpose the stored matrix consistently", T.getter)
    # R5
    loops = [n for n in ast.walk(gm) if isinstance(n, ast.For)]
    problems = []
    if len(loops) != 1:
        raise AnchorError("get_matrix: column loop not found")
    lp = loops[0]
    i = lp.target.id
    if _norm(lp.iter) != "range(self.domain_dim)":
        problems.append(f"columns are enumerated over {unparse(lp.iter)}, not range(self.domain_dim)")
    body = [_norm(s) for s in lp.body]
    try:
        i_set = body.index(f"e[{i}]=1")
        i_reset = body.index(f"e[{i}]=0")
    except ValueError:
        raise AnchorError("get_matrix: unit-vector set/reset idiom not found")
    between = lp.body[i_set + 1:i_reset]
    fcalls = [c for st in lp.body for c in ast.walk(st) if isinstance(c, ast.Call) and _norm(c) == "self.forward(e)"]
    if len(fcalls) != 1 or not any(fcalls[0] in list(ast.walk(st)) for st in between):
        problems.append("forward(e) is not evaluated exactly once between setting and resetting component i")
    else:
        fc = fcalls[0]
        par = getattr(fc, "_parent", None)
        # how is the column consumed?  accepted (copying) forms vs. aliasing forms
        COPYING = ("hstack", "np.hstack", "np.column_stack", "np.array", "np.copy", "copy", "csc_matrix", "csr_matrix")
        consumed = None
        col = None
        if isinstance(par, ast.Assign) and isinstance(par.targets[0], ast.Name):
            col = par.targets[0].id
            uses = [st for st in between if st is not par and col in {x.id for x in ast.walk(st) if isinstance(x, ast.Name)}]
            for st in uses:
                if isinstance(st, ast.Assign) and isinstance(st.value, ast.Call) and call_name(st.value) in COPYING:
                    consumed = "copy"
                    if not ((f"{col}[:,None]" in _norm(st.value) or f"{col}" in _norm(st.value)) and _norm(st.value).split("((")[-1].split(",")[0] == path_of(st.targets[0])):
                        problems.append("new column is not appended on the right of the accumulated matrix (column order)")
                elif isinstance(st, ast.Assign) and isinstance(st.targets[0], ast.Subscript) and _norm(st.targets[0].slice) in (f"(slice(None,None,None),{i})", f":,{i}", f"(:,{i})"):
                    consumed = "copy"
                elif isinstance(st, ast.Expr) and isinstance(st.value, ast.Call) and isinstance(st.value.func, ast.Attribute) and st.value.func.attr in ("append", "extend", "insert"):
                    consumed = "alias" if ".copy()" not in _norm(st.value) and "np.array(" not in _norm(st.value) else "copy"
        elif isinstance(par, ast.Assign) and isinstance(par.targets[0], ast.Subscript):
            consumed = "copy"       # M[:, i] = forward(e) copies the values
        elif isinstance(par, ast.Call) and isinstance(par.func, ast.Attribute) and par.func.attr in ("append", "extend", "insert"):
            consumed = "alias"
        elif isinstance(par, ast.Attribute) and par.attr == "copy":
            consumed = "copy"
        if consumed is None:
            raise AnchorError("get_matrix: unknown idiom for storing column i (neither a copying store nor a container append)")
        if consumed == "alias":
            problems.append("the result of forward(e) is kept by reference (appended to a container) while the unit-vector buffer e is "
                            "reused and reset: a forward operator returning (a view of) its input leaves every stored column aliased to e")
    chk.add("C07-R5", f"{lm.qual}.get_matrix/columns", not problems, site(repo, lp), "M[:, i] = forward(e_i), copied before e is reset", "; ".join(problems), lp)


def _r6(chk, repo):
    """Deconvolution2D: forward = pad(mode) + 'valid' convolution (+ crop of the first row/column for even PSF sizes);
    backward = the same routine with the flipped PSF. That is the transpose only if (i) the extension is zero or periodic
    (the adjoint of a symmetric/edge/reflect extension folds the border back, it does not pad) and (ii) the even-size crop
    is mirrored (last instead of first row/column)."""
    TP = "cuqi/testproblem/_testproblem.py"
    fwd = repo.func(f"{TP}:_proj_forward_2D")
    bwd = repo.func(f"{TP}:_proj_backward_2D")
    tb = _norm(bwd)
    P = func_params(bwd)[1]
    flipped = f"{P}=np.flipud(np.fliplr({P}))" in tb or f"{P}=np.fliplr(np.flipud({P}))" in tb or f"{P}={P}[::-1,::-1]" in tb
    chk.add("C07-R6", f"{TP}:_proj_backward_2D/flip", flipped, site(repo, bwd), "adjoint convolves with the PSF flipped in both axes",
            "the backward map does not use the PSF flipped in both axes", bwd)
    delegates = f"return_proj_forward_2D({func_params(bwd)[0]},{P},{func_params(bwd)[2]})" in tb
    tf = _norm(fwd)
    pads = "np.pad(" in tf and "mode='valid'" in tf
    if not (delegates and pads):
        raise AnchorError("2-D convolution pair: structure (pad + valid convolution, backward delegating to forward) not recognised")
    # the forward map is ONE algorithm for every boundary mode: each return yields the padded 'valid' convolution (possibly cropped)
    gf = CFG(fwd)
    rdf = ReachingDefs(gf)
    for r in gf.returns():
        nm = path_of(r.ast.value)
        defs = [gf.nodes[i] for i in rdf.reaching(r, nm)] if nm else []
        srcs = {_norm(d.ast.value) for d in defs if isinstance(d.ast, ast.Assign)}
        if not nm or not srcs or any(not (s.startswith("fftconvolve(") and s.endswith("mode='valid')")) and s != f"{nm}[1:,1:]" for s in srcs) \
                or any(g_ for g_ in gf.guards_of(r)):
            raise AnchorError(f"_proj_forward_2D: `{unparse(r.ast)}` is not the padded 'valid' convolution on every path (a boundary-mode specific "
                              f"algorithm cannot be compared with the flipped-kernel adjoint by this rule)")
    # boundary modes that can reach the pair
    ci = repo.cls(f"{TP}:Deconvolution2D")
    init = repo.method(ci, "__init__")[1]
    modes = set()
    for n in ast.walk(init):
        if isinstance(n, ast.Assign) and path_of(n.targets[0]) == "BC" and isinstance(n.value, ast.Constant):
            modes.add(n.value.value)
    if not modes:
        raise AnchorError("Deconvolution2D: boundary-condition translation table not found")
    bad = sorted(m for m in modes if m not in ("constant", "wrap"))
    chk.add("C07-R6", f"{TP}:Deconvolution2D/adjoint-padding", not bad, site(repo, bwd),
            "padding modes reaching the flipped-kernel adjoint are zero/periodic only",
            f"the adjoint re-pads its input with the forward's np.pad mode; for modes {bad} (symmetric/edge/reflect extension) the transpose of "
            f"'pad then convolve' folds the border back instead of padding, so adjoint != forward^T (exact only for {sorted(modes - set(bad))}, "
            f"and by symmetry for symmetric PSFs with the symmetric extension)", bwd)
    crop = "Ax=Ax[1:,1:]" in tf
    mirrored = "[:-1,:-1]" in tb
    chk.add("C07-R6", f"{TP}:_proj_backward_2D/even-size-crop", (not crop) or mirrored, site(repo, fwd),
            "even PSF sizes: the adjoint crops the opposite border",
            "for even PSF sizes the forward drops the FIRST row/column of the 'valid' convolution; the backward map reuses exactly this crop with the "
            "flipped PSF, whereas the transpose requires dropping the LAST row/column: adjoint != forward^T for every even PSF size", fwd)
    model = [n for n in ast.walk(init) if isinstance(n, ast.Assign) and path_of(n.targets[0]) == "model"]
    ok = len(model) == 1 and _norm(model[0].value).startswith("cuqi.model.LinearModel(lambdax:_proj_forward_2D(x,P,BC),lambdax:_proj_backward_2D(x,P,BC),range_geometry,domain_geometry)")
    chk.add("C07-R6", f"{TP}:Deconvolution2D/model", ok, site(repo, init), "forward and adjoint share the same PSF and boundary mode",
            "forward and adjoint of the 2-D deconvolution model are not built on the same (PSF, boundary mode)", init)
